"""
Reference model for pairwise alignment (properties C08 and C09).

Everything here is plain Python on plain data (lists of ints); nothing is
imported from biotite.  Sequences are lists of symbol codes, ``mat[a][b]`` is
the substitution score of code ``a`` of the first with code ``b`` of the second
sequence, gap penalties are ``(gap_open, gap_ext)`` (a linear penalty ``g`` is
``(g, g)``), both <= 0.

Representation of an alignment
------------------------------
* *trace*: list of columns ``(i, j)``, ``-1`` = gap (this is what biotite
  returns in ``Alignment.trace``).
* *ops form*: ``(i0, j0, ops)``: the alignment starts before symbol ``i0`` /
  ``j0`` and ``ops`` is a string over ``M`` (pair), ``X`` (gap in the first
  sequence, consumes a symbol of the second) and ``Y`` (gap in the second
  sequence, consumes a symbol of the first).  Canonical and hashable.

Scoring model (the documented one: ``align_optimal`` docstring and
``align.score``): sum of substitution scores of the paired columns, plus for
every sequence and every maximal run of gap columns in that sequence
``gap_open`` for the first and ``gap_ext`` for every further column; with
``terminal_penalty=False`` gap columns before the first and after the last
symbol of the sequence holding the gap are free.

"Adjacency restriction": with affine penalties the optimal aligner does not
consider alignments in which a gap in one sequence directly abuts a gap in the
other one (property statement of C08); ``forbid_adjacent=True`` selects that
search space.

Parts
-----
(i)   ``score_trace``           independent scoring function
(ii)  ``brute_force``           enumeration of *all* alignments (short inputs)
(iii) ``dp3``                   textbook three-state DP (optimum + number of optima)
(iv)  ``semiglobal_pair_opt``, ``banded_ref``, ``banded_brute``,
      ``extension_opt``, ``seed_ref``, ``seed_brute``, ``xdrop_ungapped``   for C09
"""

NEG = float("-inf")


# ----------------------------------------------------------------------------
# representation helpers
# ----------------------------------------------------------------------------
def validate_trace(trace, n, m, local):
    """Return a list of problems (empty = valid alignment of sequences of
    length n and m).

    valid: every column holds an index or -1, no all-gap column, the indices of
    each sequence are consecutive and increasing (contiguous, order
    preserving); unless ``local`` every symbol of both sequences occurs
    (end-to-end)."""
    problems = []
    for side, length in ((0, n), (1, m)):
        idx = [c[side] for c in trace if c[side] != -1]
        for v in idx:
            if not (0 <= v < length):
                problems.append(f"sequence {side}: index {v} outside 0..{length - 1}")
                break
        for a, b in zip(idx, idx[1:]):
            if b != a + 1:
                problems.append(f"sequence {side}: index {a} followed by {b}")
                break
        if not local:
            if idx != list(range(length)):
                problems.append(f"sequence {side}: not end to end ({len(idx)} of {length} symbols)")
    for k, c in enumerate(trace):
        if len(c) != 2:
            problems.append(f"column {k} has {len(c)} entries")
        elif c[0] == -1 and c[1] == -1:
            problems.append(f"column {k} is all gaps")
        elif c[0] < -1 or c[1] < -1:
            problems.append(f"column {k} holds {tuple(c)}")
    return problems


def trace_to_ops(trace):
    """Ops form of a *valid* trace."""
    i0 = j0 = None
    ops = []
    for a, b in trace:
        if a != -1 and i0 is None:
            i0 = a
        if b != -1 and j0 is None:
            j0 = b
        ops.append("M" if (a != -1 and b != -1) else ("X" if a == -1 else "Y"))
    # a sequence that only has gaps: the position is fixed by the other columns
    # only up to the start; the callers pass complete information via start()
    return (i0, j0, "".join(ops))


def ops_to_trace(i0, j0, ops):
    i, j = i0, j0
    out = []
    for o in ops:
        if o == "M":
            out.append((i, j))
            i += 1
            j += 1
        elif o == "X":
            out.append((-1, j))
            j += 1
        else:
            out.append((i, -1))
            i += 1
    return out


def has_adjacent_gaps(trace):
    """True if a gap column in one sequence directly follows a gap column in
    the other one."""
    prev = None
    for a, b in trace:
        cur = "M" if (a != -1 and b != -1) else ("X" if a == -1 else "Y")
        if prev is not None and cur != "M" and prev != "M" and cur != prev:
            return True
        prev = cur
    return False


def complete_trace(trace, n, m):
    """Complete the trace of a semi-global result (which leaves the unaligned
    sequence ends out) to an end-to-end alignment: the unaligned prefix /
    suffix of each sequence is written against gaps."""
    idx1 = [a for a, _ in trace if a != -1]
    idx2 = [b for _, b in trace if b != -1]
    # a sequence without any symbol in the trace: everything of it is put in front
    lo1 = idx1[0] if idx1 else n
    hi1 = idx1[-1] + 1 if idx1 else n
    lo2 = idx2[0] if idx2 else m
    hi2 = idx2[-1] + 1 if idx2 else m
    head = [(i, -1) for i in range(lo1)] + [(-1, j) for j in range(lo2)]
    tail = [(i, -1) for i in range(hi1, n)] + [(-1, j) for j in range(hi2, m)]
    return head + [tuple(c) for c in trace] + tail


# ----------------------------------------------------------------------------
# (i) scoring function
# ----------------------------------------------------------------------------
def score_trace(trace, c1, c2, mat, gap_open, gap_ext, terminal_penalty=True):
    """Score of an alignment from the documented model (see module docstring)."""
    s = 0
    for a, b in trace:
        if a != -1 and b != -1:
            s += mat[c1[a]][c2[b]]
    for side in (0, 1):
        col = [c[side] for c in trace]
        if terminal_penalty:
            lo, hi = 0, len(col)
        else:
            sym = [k for k, v in enumerate(col) if v != -1]
            if not sym:
                continue  # every gap of this sequence is terminal
            lo, hi = sym[0], sym[-1] + 1
        in_gap = False
        for k in range(lo, hi):
            if col[k] == -1:
                s += gap_ext if in_gap else gap_open
                in_gap = True
            else:
                in_gap = False
    return s


# ----------------------------------------------------------------------------
# (ii) brute force over all alignments
# ----------------------------------------------------------------------------
def count_alignments(n, m):
    """Delannoy number D(n, m) = number of global alignments (without the
    adjacency restriction)."""
    d = [[1] * (m + 1) for _ in range(n + 1)]
    for i in range(1, n + 1):
        for j in range(1, m + 1):
            d[i][j] = d[i - 1][j] + d[i][j - 1] + d[i - 1][j - 1]
    return d[n][m]


def brute_force(c1, c2, mat, gap_open, gap_ext, mode, forbid_adjacent, keep=20000, accept=None):
    """Enumerate ALL alignments of the given kind.

    mode: "global" (all gaps charged), "semiglobal" (terminal gaps free),
    "local" (all alignments of all pairs of contiguous sub-ranges, all gaps
    charged, plus the empty alignment with score 0).

    accept: optional predicate on ``(i0, j0, ops)`` restricting the search
    space further (used by the C09 references).

    Returns ``{"opt", "count", "optimal", "complete", "enumerated"}``:
    the optimum, the number of optimal alignments, the set of optimal
    alignments in ops form (at most ``keep`` of them, ``complete`` tells
    whether the set is complete) and the number of alignments enumerated.
    ``opt`` is None if no alignment was accepted.
    """
    n, m = len(c1), len(c2)
    free_ends = mode == "semiglobal"
    local = mode == "local"
    state = {"opt": None, "count": 0, "set": set(), "complete": True, "enum": 0}

    def candidate(i0, j0, ops, score):
        key = (i0, j0, "".join(ops))
        if local and not ops:
            key = (0, 0, "")
        if accept is not None and not accept(key):
            return
        state["enum"] += 1
        if state["opt"] is None or score > state["opt"]:
            state["opt"] = score
            state["count"] = 0
            state["set"] = set()
            state["complete"] = True
        if score == state["opt"]:
            if key in state["set"]:
                return
            state["count"] += 1
            if len(state["set"]) < keep:
                state["set"].add(key)
            else:
                state["complete"] = False

    def rec(i0, j0, i, j, last, score, ops):
        if local:
            if ops or (i0 == 0 and j0 == 0):
                candidate(i0, j0, ops, score)
        elif i == n and j == m:
            candidate(0, 0, ops, score)
            return
        # pair
        if i < n and j < m:
            ops.append("M")
            rec(i0, j0, i + 1, j + 1, "M", score + mat[c1[i]][c2[j]], ops)
            ops.pop()
        # gap in the first sequence
        if j < m and not (forbid_adjacent and last == "Y"):
            if free_ends and (i == 0 or i == n):
                cost = 0
            else:
                cost = gap_ext if last == "X" else gap_open
            ops.append("X")
            rec(i0, j0, i, j + 1, "X", score + cost, ops)
            ops.pop()
        # gap in the second sequence
        if i < n and not (forbid_adjacent and last == "X"):
            if free_ends and (j == 0 or j == m):
                cost = 0
            else:
                cost = gap_ext if last == "Y" else gap_open
            ops.append("Y")
            rec(i0, j0, i + 1, j, "Y", score + cost, ops)
            ops.pop()

    if local:
        for i0 in range(n + 1):
            for j0 in range(m + 1):
                rec(i0, j0, i0, j0, "S", 0, [])
    else:
        rec(0, 0, 0, 0, "S", 0, [])
    return {
        "opt": state["opt"],
        "count": state["count"],
        "optimal": state["set"],
        "complete": state["complete"],
        "enumerated": state["enum"],
    }


# ----------------------------------------------------------------------------
# (iii) textbook three-state DP
# ----------------------------------------------------------------------------
def dp3(c1, c2, mat, gap_open, gap_ext, mode, forbid_adjacent):
    """Optimal score and number of optimal alignments.

    State = type of the last column (M pair, X gap in the first, Y gap in the
    second sequence) at the cell (p, q) = numbers of consumed symbols.

    Returns ``(opt, count)``; for ``local`` the empty alignment (score 0)
    counts as one alignment.
    """
    n, m = len(c1), len(c2)
    free_ends = mode == "semiglobal"
    local = mode == "local"
    # score / count tables; index 0 = S (no column yet), 1 = M, 2 = X, 3 = Y
    sc = [[[NEG] * 4 for _ in range(m + 1)] for _ in range(n + 1)]
    ct = [[[0] * 4 for _ in range(m + 1)] for _ in range(n + 1)]
    for p in range(n + 1):
        for q in range(m + 1):
            if local or (p == 0 and q == 0):
                sc[p][q][0] = 0
                ct[p][q][0] = 1

    def best(cands):
        b = NEG
        c = 0
        for s, k in cands:
            if s == NEG:
                continue
            if s > b:
                b, c = s, k
            elif s == b:
                c += k
        return b, c

    for p in range(n + 1):
        for q in range(m + 1):
            cell = sc[p][q]
            cnt = ct[p][q]
            if p > 0 and q > 0:
                src, srcc = sc[p - 1][q - 1], ct[p - 1][q - 1]
                sim = mat[c1[p - 1]][c2[q - 1]]
                cell[1], cnt[1] = best([(src[k] + sim, srcc[k]) for k in range(4)])
            if q > 0:
                src, srcc = sc[p][q - 1], ct[p][q - 1]
                free = free_ends and (p == 0 or p == n)
                o = 0 if free else gap_open
                e = 0 if free else gap_ext
                cands = [(src[0] + o, srcc[0]), (src[1] + o, srcc[1]), (src[2] + e, srcc[2])]
                if not forbid_adjacent:
                    cands.append((src[3] + o, srcc[3]))
                cell[2], cnt[2] = best(cands)
            if p > 0:
                src, srcc = sc[p - 1][q], ct[p - 1][q]
                free = free_ends and (q == 0 or q == m)
                o = 0 if free else gap_open
                e = 0 if free else gap_ext
                cands = [(src[0] + o, srcc[0]), (src[1] + o, srcc[1]), (src[3] + e, srcc[3])]
                if not forbid_adjacent:
                    cands.append((src[2] + o, srcc[2]))
                cell[3], cnt[3] = best(cands)
    if local:
        cands = [(0, 1)]  # the empty alignment
        for p in range(n + 1):
            for q in range(m + 1):
                for k in (1, 2, 3):
                    cands.append((sc[p][q][k], ct[p][q][k]))
        return best(cands)
    return best([(sc[n][m][k], ct[n][m][k]) for k in range(4)])


# ----------------------------------------------------------------------------
# (iv) references for C09
# ----------------------------------------------------------------------------
def semiglobal_pair_opt(c1, c2, mat, gap_open, gap_ext, forbid_adjacent):
    """Best semi-global score over alignments that pair at least one position
    (NEG if there is none)."""
    n, m = len(c1), len(c2)
    # state index: 0 = S, 1 = M, 2 = X, 3 = Y; second index: has a pair (0/1)
    sc = [[[[NEG, NEG] for _ in range(4)] for _ in range(m + 1)] for _ in range(n + 1)]
    sc[0][0][0][0] = 0
    for p in range(n + 1):
        for q in range(m + 1):
            cell = sc[p][q]
            if p > 0 and q > 0:
                src = sc[p - 1][q - 1]
                sim = mat[c1[p - 1]][c2[q - 1]]
                cell[1][1] = max(max(src[k][0], src[k][1]) for k in range(4)) + sim
            if q > 0:
                src = sc[p][q - 1]
                free = p == 0 or p == n
                o = 0 if free else gap_open
                e = 0 if free else gap_ext
                for f in (0, 1):
                    cands = [src[0][f] + o, src[1][f] + o, src[2][f] + e]
                    if not forbid_adjacent:
                        cands.append(src[3][f] + o)
                    cell[2][f] = max(cands)
            if p > 0:
                src = sc[p - 1][q]
                free = q == 0 or q == m
                o = 0 if free else gap_open
                e = 0 if free else gap_ext
                for f in (0, 1):
                    cands = [src[0][f] + o, src[1][f] + o, src[3][f] + e]
                    if not forbid_adjacent:
                        cands.append(src[2][f] + o)
                    cell[3][f] = max(cands)
    return max(sc[n][m][k][1] for k in range(4))


def crop_band(n, m, lower, upper):
    """The band as the documentation of ``align_banded`` describes its use: at
    most the diagonals on which two symbols can be paired."""
    return max(lower, -(n - 1)), min(upper, m - 1)


def band_has_cell(n, m, lower, upper):
    """True if at least one pair (i, j) has lower <= j - i <= upper."""
    if n == 0 or m == 0:
        return False
    return lower <= m - 1 and upper >= -(n - 1) and lower <= upper


def banded_ref(c1, c2, mat, gap_open, gap_ext, forbid_adjacent, lower, upper, local):
    """Exact optimum of the band-restricted problem.

    Search space (semi-global): an alignment is a *core* - a non-empty run of
    columns - framed by the unaligned sequence ends, which are free terminal
    gaps.  The core starts at a cell (0, q) or (p, 0) (p, q = consumed
    symbols), ends at a cell with p == n or q == m, and every cell the core
    visits, the start cell included, lies on a diagonal lower <= q - p <= upper
    (band cropped to the diagonals that can hold a pair).  Every gap column of
    the core is charged; inside the core the adjacency restriction applies if
    ``forbid_adjacent``.

    Search space (local): a local alignment, all cells after a column inside
    the band; the empty alignment (0) is always available.

    Returns a dict: ``opt`` (None if the search space is empty), ``gapstart``
    (best score of a core whose FIRST column is a gap column, NEG if none),
    ``gapend`` (best score of a core whose LAST column is a gap column that
    is directly followed by unaligned symbols of the sequence holding the gap,
    i.e. a charged gap abutting a free terminal gap of the other sequence).
    """
    n, m = len(c1), len(c2)
    lo, hi = crop_band(n, m, lower, upper)

    def inband(p, q):
        return lo <= q - p <= hi

    # sc[p][q][state][flag]; state 0 = S, 1 = M, 2 = X, 3 = Y; flag 1 = first column was a gap
    sc = [[[[NEG, NEG] for _ in range(4)] for _ in range(m + 1)] for _ in range(n + 1)]
    if local:
        for p in range(n + 1):
            for q in range(m + 1):
                sc[p][q][0][0] = 0
    else:
        for q in range(0, m):
            if inband(0, q):
                sc[0][q][0][0] = 0
        for p in range(0, n):
            if inband(p, 0):
                sc[p][0][0][0] = 0
    for p in range(1, n + 1):
        for q in range(1, m + 1):
            if not inband(p, q):
                continue
            cell = sc[p][q]
            src = sc[p - 1][q - 1]
            sim = mat[c1[p - 1]][c2[q - 1]]
            for f in (0, 1):
                cell[1][f] = max(src[k][f] for k in range(4)) + sim
            src = sc[p][q - 1]
            # first column = gap: comes from S
            cell[2][1] = max(src[0][0] + gap_open, src[1][1] + gap_open, src[2][1] + gap_ext,
                             NEG if forbid_adjacent else src[3][1] + gap_open)
            cell[2][0] = max(src[1][0] + gap_open, src[2][0] + gap_ext,
                             NEG if forbid_adjacent else src[3][0] + gap_open)
            src = sc[p - 1][q]
            cell[3][1] = max(src[0][0] + gap_open, src[1][1] + gap_open, src[3][1] + gap_ext,
                             NEG if forbid_adjacent else src[2][1] + gap_open)
            cell[3][0] = max(src[1][0] + gap_open, src[3][0] + gap_ext,
                             NEG if forbid_adjacent else src[2][0] + gap_open)
    if local:
        best = 0
        for p in range(1, n + 1):
            for q in range(1, m + 1):
                for k in (1, 2, 3):
                    best = max(best, sc[p][q][k][0], sc[p][q][k][1])
        return {"opt": best, "gapstart": NEG, "gapend": NEG}
    opt = NEG
    gapstart = NEG
    gapend = NEG
    for p in range(1, n + 1):
        for q in range(1, m + 1):
            if not (p == n or q == m) or not inband(p, q):
                continue
            for k in (1, 2, 3):
                opt = max(opt, sc[p][q][k][0], sc[p][q][k][1])
                gapstart = max(gapstart, sc[p][q][k][1])
            # last column X (gap in the first sequence) while symbols of the first remain
            if p < n:
                gapend = max(gapend, sc[p][q][2][0], sc[p][q][2][1])
            if q < m:
                gapend = max(gapend, sc[p][q][3][0], sc[p][q][3][1])
    return {"opt": None if opt == NEG else opt, "gapstart": gapstart, "gapend": gapend}


def banded_brute(c1, c2, mat, gap_open, gap_ext, forbid_adjacent, lower, upper, local):
    """Brute-force counterpart of ``banded_ref`` (``opt`` only): enumerates
    every core / local alignment and scores it with ``score_trace``."""
    n, m = len(c1), len(c2)
    lo, hi = crop_band(n, m, lower, upper)
    best = [0 if local else None]

    def inband(p, q):
        return lo <= q - p <= hi

    def rec(p0, q0, p, q, last, ops):
        if ops and (local or p == n or q == m):
            tr = ops_to_trace(p0, q0, ops)
            if local:
                s = score_trace(tr, c1, c2, mat, gap_open, gap_ext, True)
            else:
                # the core is charged completely; the frame is free
                s = score_trace(tr, c1, c2, mat, gap_open, gap_ext, True)
            if best[0] is None or s > best[0]:
                best[0] = s
        if p < n and q < m and inband(p + 1, q + 1):
            ops.append("M")
            rec(p0, q0, p + 1, q + 1, "M", ops)
            ops.pop()
        if q < m and p >= 1 and inband(p, q + 1) and not (forbid_adjacent and last == "Y"):
            ops.append("X")
            rec(p0, q0, p, q + 1, "X", ops)
            ops.pop()
        if p < n and q >= 1 and inband(p + 1, q) and not (forbid_adjacent and last == "X"):
            ops.append("Y")
            rec(p0, q0, p + 1, q, "Y", ops)
            ops.pop()

    if local:
        for p0 in range(n + 1):
            for q0 in range(m + 1):
                rec(p0, q0, p0, q0, "S", [])
    else:
        for q0 in range(0, m):
            if inband(0, q0):
                rec(0, q0, 0, q0, "S", [])
        for p0 in range(1, n):
            if inband(p0, 0):
                rec(p0, 0, p0, 0, "S", [])
    return best[0]


def extension_opt(a, b, mat, gap_open, gap_ext, forbid_adjacent):
    """Best score of an alignment of a prefix of ``a`` with a prefix of ``b``
    (both prefixes may be empty: 0), all gaps charged."""
    n, m = len(a), len(b)
    sc = [[[NEG] * 4 for _ in range(m + 1)] for _ in range(n + 1)]
    sc[0][0][0] = 0
    best = 0
    for p in range(n + 1):
        for q in range(m + 1):
            cell = sc[p][q]
            if p > 0 and q > 0:
                cell[1] = max(sc[p - 1][q - 1]) + mat[a[p - 1]][b[q - 1]]
            if q > 0:
                src = sc[p][q - 1]
                cell[2] = max(src[0] + gap_open, src[1] + gap_open, src[2] + gap_ext,
                              NEG if forbid_adjacent else src[3] + gap_open)
            if p > 0:
                src = sc[p - 1][q]
                cell[3] = max(src[0] + gap_open, src[1] + gap_open, src[3] + gap_ext,
                              NEG if forbid_adjacent else src[2] + gap_open)
            best = max(best, cell[1], cell[2], cell[3])
    return best


def seed_ref(c1, c2, mat, gap_open, gap_ext, forbid_adjacent, seed, direction):
    """Best score of an alignment that contains the pair ``seed`` and extends
    only in the requested direction(s)."""
    s1, s2 = seed
    total = mat[c1[s1]][c2[s2]]
    if direction in ("both", "upstream"):
        total += extension_opt(c1[:s1][::-1], c2[:s2][::-1], mat, gap_open, gap_ext, forbid_adjacent)
    if direction in ("both", "downstream"):
        total += extension_opt(c1[s1 + 1:], c2[s2 + 1:], mat, gap_open, gap_ext, forbid_adjacent)
    return total


def contains_pair(key, pair):
    i, j, ops = key
    for o in ops:
        if o == "M":
            if (i, j) == tuple(pair):
                return True
            i += 1
            j += 1
        elif o == "X":
            j += 1
        else:
            i += 1
    return False


def seed_brute(c1, c2, mat, gap_open, gap_ext, forbid_adjacent, seed, direction):
    """Brute-force counterpart of ``seed_ref``: maximum over ALL local
    alignments that contain the seed pair (first column for 'downstream', last
    column for 'upstream')."""
    seed = tuple(seed)

    def accept(key):
        i0, j0, ops = key
        if not ops:
            return False
        if direction == "downstream":
            return ops[0] == "M" and (i0, j0) == seed
        if direction == "upstream":
            tr = ops_to_trace(i0, j0, ops)
            return tr[-1] == seed
        return contains_pair(key, seed)

    r = brute_force(c1, c2, mat, gap_open, gap_ext, "local", forbid_adjacent, keep=1, accept=accept)
    return r["opt"]


def xdrop_ungapped(a, b, mat, threshold):
    """Exact X-drop extension without gaps: walk along the diagonal, keep the
    maximum of the running score, stop as soon as the running score is more
    than ``threshold`` below the maximum.  Returns (max score, True if the
    running score was at some point exactly ``threshold`` below the maximum -
    the boundary of the stop rule)."""
    total = 0
    best = 0
    boundary = False
    for k in range(min(len(a), len(b))):
        total += mat[a[k]][b[k]]
        if total >= best:
            best = total
        elif best - total > threshold:
            break
        elif best - total == threshold:
            boundary = True
    return best, boundary


# ----------------------------------------------------------------------------
# self test:  python -m models.align_ref
# ----------------------------------------------------------------------------
def _selftest(rounds=300, seed=1):
    import random

    rnd = random.Random(seed)
    for r in range(rounds):
        k1, k2 = rnd.randint(1, 3), rnd.randint(1, 3)
        n, m = rnd.randint(0, 5), rnd.randint(0, 5)
        c1 = [rnd.randrange(k1) for _ in range(n)]
        c2 = [rnd.randrange(k2) for _ in range(m)]
        mat = [[rnd.randint(-6, 6) for _ in range(k2)] for _ in range(k1)]
        go, ge = rnd.randint(-4, 0), rnd.randint(-4, 0)
        affine = rnd.random() < 0.5
        if not affine:
            ge = go
        for mode in ("global", "semiglobal", "local"):
            # incremental scoring of the enumeration == score_trace on every alignment
            seen = []

            def acc(key, seen=seen):
                seen.append(key)
                return True

            bf = brute_force(c1, c2, mat, go, ge, mode, affine, accept=acc)
            for key in bf["optimal"]:
                tr = ops_to_trace(*key)
                s = score_trace(tr, c1, c2, mat, go, ge, mode != "semiglobal")
                assert s == bf["opt"], (mode, key, s, bf["opt"])
                assert not validate_trace(tr, n, m, mode == "local"), (mode, key)
            # no alignment scores higher under score_trace
            top = max(
                score_trace(ops_to_trace(*key), c1, c2, mat, go, ge, mode != "semiglobal") for key in seen
            )
            assert top == bf["opt"], (mode, top, bf["opt"])
            if mode == "global" and not affine:
                assert bf["enumerated"] == count_alignments(n, m)
            opt, cnt = dp3(c1, c2, mat, go, ge, mode, affine)
            assert opt == bf["opt"], (mode, c1, c2, mat, go, ge, affine, opt, bf["opt"])
            assert cnt == bf["count"], (mode, c1, c2, mat, go, ge, affine, cnt, bf["count"])
        # pair-flag DP
        sp = semiglobal_pair_opt(c1, c2, mat, go, ge, affine)
        bfp = brute_force(c1, c2, mat, go, ge, "semiglobal", affine, accept=lambda k: "M" in k[2])
        assert (bfp["opt"] is None and sp == NEG) or sp == bfp["opt"], (sp, bfp["opt"])
        # band
        lo, hi = sorted((rnd.randint(-7, 7), rnd.randint(-7, 7)))
        for local in (False, True):
            ref = banded_ref(c1, c2, mat, go, ge, affine, lo, hi, local)
            bb = banded_brute(c1, c2, mat, go, ge, affine, lo, hi, local)
            assert ref["opt"] == bb, ("band", c1, c2, mat, go, ge, affine, lo, hi, local, ref, bb)
        # seed
        if n and m:
            sd = (rnd.randrange(n), rnd.randrange(m))
            for d in ("both", "upstream", "downstream"):
                a = seed_ref(c1, c2, mat, go, ge, affine, sd, d)
                b = seed_brute(c1, c2, mat, go, ge, affine, sd, d)
                assert a == b, ("seed", c1, c2, mat, go, ge, affine, sd, d, a, b)
    return rounds


if __name__ == "__main__":
    print("selftest ok:", _selftest())
