"""
Reference functions used by property C09 only (``models/align_ref.py`` is shared
with C08 and is left alone).  Plain Python on plain data, nothing imported from
biotite.
"""

INT32_MAX = 2**31 - 1


def xdrop_ungapped_variants(a, b, mat, threshold):
    """Exact X-drop extension without gaps along one diagonal under the two
    readings of the documentation of ``align_local_ungapped``:

    * summary paragraph: "... until the total alignment score falls MORE THAN
      `threshold` below the maximum score found"   -> stop if drop >  threshold
    * parameter text: "If the current score falls THIS VALUE below the maximum
      score found, the alignment terminates"        -> stop if drop >= threshold

    Returns ``(best_more_than, best_at_least, boundary)``; ``boundary`` is True
    if the two walks ever take a different decision (the running score was
    exactly ``threshold`` below the maximum before either walk had stopped)."""
    out = []
    boundary = False
    for inclusive in (False, True):
        total = 0
        best = 0
        for k in range(min(len(a), len(b))):
            total += mat[a[k]][b[k]]
            if total >= best:
                best = total
                continue
            drop = best - total
            if drop == threshold:
                boundary = True
            if drop > threshold or (inclusive and drop >= threshold):
                break
        out.append(best)
    return out[0], out[1], boundary


def score_bound(c1, c2, mat):
    """An upper bound of the score of ANY alignment (and of any prefix of one) of
    any pair of sub-ranges of the two sequences: every pair scores at most the
    largest matrix entry, there are at most min(len1, len2) pairs, gaps score
    <= 0."""
    top = max([0] + [v for row in mat for v in row])
    return min(len(c1), len(c2)) * top


def largest_threshold_with_room(c1, c2, mat):
    """The largest X-drop threshold T for which 'T + 1 + score' fits into int32
    for every score an extension of these sequences can reach (the gapped X-drop
    tables of biotite hold 'threshold + 1 + score' in int32)."""
    return INT32_MAX - 1 - score_bound(c1, c2, mat)
