"""
Naive reference model for C10 (k-mer tables, similarity rule, selectors,
permutations).  Everything is plain Python on lists/tuples of symbol codes;
nothing here calls biotite.

k-mer identity is decided on the *symbols at the informative positions*, never
on k-mer codes.  Codes are only computed (documented radix formula) where the
public API takes or returns a code (``table[code]``, ``count``, ``get_kmers``).

Sensitivity hook (see notes/C10.md): when the environment variable
``VERIF_C10_BREAK_REFERENCE`` names one of the entries of ``BREAKS`` the
corresponding part of this reference is deliberately wrong.  The check then has
to go red; every outcome is labelled ``REFERENCE_BROKEN:<name>`` so that such a
run can never be mistaken for a real one.
"""

import os

BREAKS = (
    "drop_mask",          # ignore masks are not applied
    "mask_any_in_span",   # (only differs for spaced k-mers) every position of the span counts
    "window_edge",        # minimizer: last window forgotten
    "rightmost_min",      # minimizer/syncmer: rightmost instead of leftmost minimum
    "offset_sign",        # syncmer: negative offsets counted from the wrong end
    "threshold_le",       # mincode: <= instead of <
    "similar_gt",         # similarity: > instead of >=
    "no_cross_ref",       # a k-mer matches only the first reference that holds it
    "spacing_as_contig",  # spaced model ignored
    "code_radix",         # k-mer code with reversed significance
)
BREAK = os.environ.get("VERIF_C10_BREAK_REFERENCE", "")
if BREAK and BREAK not in BREAKS:
    raise RuntimeError(f"unknown VERIF_C10_BREAK_REFERENCE={BREAK!r}; known: {BREAKS}")

LETTERS = "ABCDEFGHIJKLMNOPQRSTUVWXYZ"


# --------------------------------------------------------------------------
# sequences and k-mers
# --------------------------------------------------------------------------
def sym_codes(text):
    return [ord(c) - 65 for c in text]


def offsets(k, spacing):
    """Informative offsets relative to the k-mer start."""
    if spacing is None or BREAK == "spacing_as_contig":
        return list(range(k))
    return sorted(spacing)


def span_of(offs):
    return offs[-1] + 1


def kmer_tuples(codes, offs):
    """All overlapping k-mers (tuples of symbol codes), index = k-mer position."""
    span = span_of(offs)
    return [tuple(codes[i + o] for o in offs) for i in range(len(codes) - span + 1)]


def kept_flags(n_kmers, mask, offs):
    """k-mer i is kept iff none of its informative positions is masked."""
    if mask is None or BREAK == "drop_mask":
        return [True] * n_kmers
    if BREAK == "mask_any_in_span":
        span = span_of(offs)
        return [not any(mask[i : i + span]) for i in range(n_kmers)]
    return [not any(mask[i + o] for o in offs) for i in range(n_kmers)]


def code_of(kmer, n):
    """Documented k-mer code: sum n^(k-i-1) * s_i."""
    if BREAK == "code_radix":
        kmer = tuple(reversed(kmer))
    c = 0
    for s in kmer:
        c = c * n + s
    return c


def split_code(code, n, k):
    out = []
    for _ in range(k):
        out.append(code % n)
        code //= n
    return tuple(reversed(out))


# --------------------------------------------------------------------------
# table content and matching
# --------------------------------------------------------------------------
class TableModel:
    """entries: list of (kmer tuple, ref id, position) in insertion order."""

    def __init__(self, n, k):
        self.n = n
        self.k = k
        self.entries = []
        self.by_kmer = {}  # kmer tuple -> list of (ref id, pos)

    def add(self, kmer, ref_id, pos):
        self.entries.append((kmer, ref_id, pos))
        self.by_kmer.setdefault(kmer, []).append((ref_id, pos))

    def add_sequence(self, codes, ref_id, mask, offs):
        kms = kmer_tuples(codes, offs)
        keep = kept_flags(len(kms), mask, offs)
        for i, km in enumerate(kms):
            if keep[i]:
                self.add(km, ref_id, i)

    def by_code(self):
        return {code_of(km, self.n): list(v) for km, v in self.by_kmer.items()}

    def copy_without_last(self):
        m = TableModel(self.n, self.k)
        for km, r, p in self.entries[:-1]:
            m.add(km, r, p)
        return m


def score(a, b, matrix):
    return sum(matrix[x][y] for x, y in zip(a, b))


def is_match(q, r, rule, identical_always=True):
    """identical, or similar under the rule (summed score >= threshold).
    identical_always=False: with a rule, an identical k-mer whose self-score is
    below the threshold does not count (the reading of finding C10-F2)."""
    if q == r and (identical_always or rule is None):
        return True
    if rule is None:
        return False
    s = score(q, r, rule["matrix"])
    if BREAK == "similar_gt":
        return s > rule["threshold"]
    return s >= rule["threshold"]


def _hits(q, model, rule, cache, identical_always=True):
    if rule is None:
        return [q] if q in model.by_kmer else []
    h = cache.get(q)
    if h is None:
        h = [r for r in model.by_kmer if is_match(q, r, rule, identical_always)]
        cache[q] = h
    return h


def _positions(model, r):
    pos = model.by_kmer[r]
    if BREAK == "no_cross_ref":
        first = pos[0][0]
        pos = [p for p in pos if p[0] == first]
    return pos


def match_sequence(model, q_kmers, q_keep, rule, identical_always=True):
    """list of (query pos, ref id, ref pos)"""
    out = []
    cache = {}
    for i, q in enumerate(q_kmers):
        if not q_keep[i]:
            continue
        for r in _hits(q, model, rule, cache, identical_always):
            for rid, pos in _positions(model, r):
                out.append((i, rid, pos))
    return out


def match_tables(model, other, rule, identical_always=True):
    """list of (other ref id, other pos, self ref id, self pos)"""
    out = []
    cache = {}
    for q, orid, opos in other.entries:
        for r in _hits(q, model, rule, cache, identical_always):
            for rid, pos in _positions(model, r):
                out.append((orid, opos, rid, pos))
    return out


def match_selection(model, selection):
    """selection: list of (position, k-mer tuple); exact matches only."""
    out = []
    for p, q in selection:
        if q in model.by_kmer:
            for rid, pos in _positions(model, q):
                out.append((p, rid, pos))
    return out


def similar_set(kmer, n, k, matrix, threshold):
    """All k-mers (tuples) with summed score >= threshold, by brute force."""
    out = []
    for code in range(n**k):
        b = split_code(code, n, k)
        s = score(kmer, b, matrix)
        if (s > threshold) if BREAK == "similar_gt" else (s >= threshold):
            out.append(b)
    return out


# --------------------------------------------------------------------------
# permutations
# --------------------------------------------------------------------------
LCG_A = 0xD1342543DE82EF95


def lcg(code):
    """order = (a * code + 1) mod 2^64, read as a signed 64 bit integer."""
    v = (LCG_A * code + 1) % (1 << 64)
    return v - (1 << 64) if v >= (1 << 63) else v


def frequency_ranks(counts):
    """Less frequent k-mers are smaller; ties keep the k-mer code order (stable)."""
    order = sorted(range(len(counts)), key=lambda c: (counts[c], c))
    rank = [0] * len(counts)
    for r, c in enumerate(order):
        rank[c] = r
    return rank


class PermModel:
    """kind: none | random | freq (ranks table) | table (arbitrary injective keys, held in ranks)."""

    def __init__(self, kind, size, ranks=None):
        self.kind = kind
        self.size = size
        self.ranks = ranks

    def key(self, code):
        if self.kind == "none":
            return code
        if self.kind == "random":
            return lcg(code)
        return self.ranks[code]

    @property
    def min(self):
        if self.kind == "random":
            return -(1 << 63)
        if self.kind == "table":
            return min(self.ranks)
        return 0

    @property
    def max(self):
        if self.kind == "random":
            return (1 << 63) - 1
        if self.kind == "table":
            return max(self.ranks)
        return self.size - 1


# --------------------------------------------------------------------------
# selectors
# --------------------------------------------------------------------------
def _argmin_leftmost(values):
    m = min(values)
    if BREAK == "rightmost_min":
        return len(values) - 1 - values[::-1].index(m)
    return values.index(m)


def minimizer_positions(keys, window):
    """Leftmost minimum of every window of `window` consecutive k-mers; each
    position reported once."""
    n = len(keys)
    last = n - window + 1
    if BREAK == "window_edge":
        last -= 1
    pos = set()
    for w in range(last):
        pos.add(w + _argmin_leftmost(keys[w : w + window]))
    return sorted(pos)


def syncmer_allowed(k, s, offset):
    n_smers = k - s + 1
    out = set()
    for o in offset:
        if o < 0:
            o = (-o - 1) if BREAK == "offset_sign" else n_smers + o
        out.add(o)
    return out


def is_syncmer(kmer, s, n, perm, allowed):
    """kmer: tuple of k symbol codes.  Syncmer iff the leftmost minimum s-mer
    sits at one of the allowed offsets."""
    k = len(kmer)
    keys = [perm.key(code_of_plain(kmer[j : j + s], n)) for j in range(k - s + 1)]
    return _argmin_leftmost(keys) in allowed


def code_of_plain(kmer, n):
    c = 0
    for x in kmer:
        c = c * n + x
    return c


def mincode_threshold(perm, compression):
    return perm.min + (perm.max - perm.min + 1) / compression


def mincode_selected(key, threshold):
    if BREAK == "threshold_le":
        return key <= threshold
    return key < threshold


# --------------------------------------------------------------------------
# small number theory for bucket counts
# --------------------------------------------------------------------------
def is_prime(x):
    if x < 2:
        return False
    if x % 2 == 0:
        return x == 2
    d = 3
    while d * d <= x:
        if x % d == 0:
            return False
        d += 2
    return True


def next_prime(x):
    x = max(x, 2)
    while not is_prime(x):
        x += 1
    return x


def prev_prime(x):
    x = max(x, 2)
    while not is_prime(x):
        x -= 1
    return x
