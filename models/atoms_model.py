"""
List-of-atoms reference model for C01 (AtomArray / AtomArrayStack).

Plain Python only (no numpy).  A container is

* ``kind``   "array" or "stack"
* ``cats``   ordered dict  annotation name -> kind char ("U", "i", "f", "b")
* ``ann``    list (one entry per atom) of dicts  name -> python value
* ``coord``  array: list (per atom) of (x, y, z) tuples
             stack: list (per model) of such lists
* ``box``    None | 3x3 nested tuple (array) | list (per model) of 3x3 (stack)
* ``bonds``  None | dict {(i, j) with i < j: bond type}   (positions)

Index descriptors are tagged tuples that were already reduced to the current
axis length by the interpreter:

    ("int", i) ("int0d", i, dtype) ("slice", a, b, c) ("mask", [bool, ...]) ("arr", [int, ...]) ("ell",)

Every operation either returns the new value / mutates ``self`` completely, or
raises ``Invalid(kind)`` *before* touching anything.
"""

import math

MANDATORY = (
    ("chain_id", "U"),
    ("res_id", "i"),
    ("ins_code", "U"),
    ("res_name", "U"),
    ("hetero", "b"),
    ("atom_name", "U"),
    ("element", "U"),
)
ZERO = {"U": "", "i": 0, "f": 0.0, "b": False}


class Invalid(Exception):
    """The model rejects the operation.  kind: index | notimpl | any

    ``alt``: for an input class whose treatment is documented nowhere (today:
    a duplicated atom index on a container with bonds) a callable that returns
    what the operation yields *if the implementation supports it*; the
    interpreter then accepts an exception or that result."""

    def __init__(self, kind, why="", alt=None, alt_exc=None, label=None):
        super().__init__(f"{kind}: {why}")
        self.kind = kind
        self.why = why
        self.alt = alt
        self.alt_exc = alt_exc  # exception types accepted instead of alt() (None: any Exception)
        self.label = label


def _as_any(fn, *args):
    """norm_int & co. with the unspecific rejection kind (exception type undocumented)."""
    try:
        return fn(*args)
    except Invalid as e:
        raise Invalid("any", e.why) from None


def same_value(a, b):
    """Equality of two annotation / coordinate values, NaN == NaN."""
    if isinstance(a, float) and isinstance(b, float):
        if math.isnan(a) and math.isnan(b):
            return True
    return a == b


def same_nested(a, b):
    if isinstance(a, (list, tuple)) and isinstance(b, (list, tuple)):
        return len(a) == len(b) and all(same_nested(x, y) for x, y in zip(a, b))
    if isinstance(a, (list, tuple)) or isinstance(b, (list, tuple)):
        return False
    return same_value(a, b)


def norm_int(i, length):
    if -length <= i < length:
        return i + length if i < 0 else i
    raise Invalid("index", f"{i} out of range for length {length}")


def select(d, length):
    """("int", pos) or ("list", [pos, ...]) - python list semantics."""
    tag = d[0]
    if tag in ("int", "int0d"):  # int0d: zero-dimensional integer array = integer index (NumPy)
        return "int", norm_int(d[1], length)
    if tag == "slice":
        return "list", list(range(length))[slice(d[1], d[2], d[3])]
    if tag == "mask":
        if len(d[1]) != length:
            raise Invalid("index", f"mask of length {len(d[1])} for axis of length {length}")
        return "list", [i for i, b in enumerate(d[1]) if b]
    if tag == "arr":
        return "list", [norm_int(i, length) for i in d[1]]
    if tag == "ell":
        return "list", list(range(length))
    raise AssertionError(f"unknown index descriptor {d!r}")


class MC:
    __slots__ = ("kind", "cats", "ann", "coord", "box", "bonds", "loose_bonds")

    def __init__(self, kind, cats, ann, coord, box=None, bonds=None, loose_bonds=False):
        self.kind = kind
        self.cats = dict(cats)
        self.ann = ann
        self.coord = coord
        self.box = box
        self.bonds = bonds
        # True: a BondList must exist and be coherent with n, its content is not specified
        # (result of a duplicated atom index); the checker adopts the observed bonds
        self.loose_bonds = loose_bonds

    # ------------------------------------------------------------------ basics
    @property
    def n(self):
        return len(self.ann)

    @property
    def m(self):
        assert self.kind == "stack"
        return len(self.coord)

    def clone(self):
        return MC(
            self.kind,
            self.cats,
            [dict(a) for a in self.ann],
            [c for c in self.coord] if self.kind == "array" else [list(mod) for mod in self.coord],
            _copy_box(self.kind, self.box),
            None if self.bonds is None else dict(self.bonds),
            loose_bonds=self.loose_bonds,
        )

    def has_nan(self):
        def nn(x):
            if isinstance(x, (list, tuple)):
                return any(nn(v) for v in x)
            return isinstance(x, float) and math.isnan(x)

        return nn(self.coord) or nn(self.box if self.box is not None else [])

    def same_annotations(self, other):
        if sorted(self.cats) != sorted(other.cats) or self.n != other.n:
            return False
        for a, b in zip(self.ann, other.ann):
            for name in self.cats:
                if not same_value(a[name], b[name]):
                    return False
        return True

    def equals(self, other):
        return (
            self.kind == other.kind
            and self.same_annotations(other)
            and same_nested(self.coord, other.coord)
            and (self.box is None) == (other.box is None)
            and (self.box is None or same_nested(self.box, other.box))
            and self.bonds == other.bonds
        )

    # ---------------------------------------------------------------- indexing
    def atom_at(self, pos):
        assert self.kind == "array"
        return {"ann": dict(self.ann[pos]), "coord": self.coord[pos]}

    def take_atoms(self, positions, dup_ok=False):
        dup = self.bonds is not None and len(set(positions)) != len(positions)
        if dup and not dup_ok:
            raise Invalid(
                "notimpl",
                "duplicate atom index on a container with bonds",
                alt=lambda: ("cont", self.take_atoms(positions, dup_ok=True)),
            )
        ann = [dict(self.ann[p]) for p in positions]
        if self.kind == "array":
            coord = [self.coord[p] for p in positions]
        else:
            coord = [[mod[p] for p in positions] for mod in self.coord]
        bonds = None
        if dup:
            bonds = {}
        elif self.bonds is not None:
            new_pos = {p: k for k, p in enumerate(positions)}
            bonds = {}
            for (i, j), t in self.bonds.items():
                if i in new_pos and j in new_pos:
                    a, b = new_pos[i], new_pos[j]
                    bonds[(min(a, b), max(a, b))] = t
        return MC(self.kind, self.cats, ann, coord, _copy_box(self.kind, self.box), bonds, loose_bonds=dup)

    def take_models(self, positions):
        assert self.kind == "stack"
        return MC(
            "stack",
            self.cats,
            [dict(a) for a in self.ann],
            [list(self.coord[p]) for p in positions],
            None if self.box is None else [self.box[p] for p in positions],
            None if self.bonds is None else dict(self.bonds),
            loose_bonds=self.loose_bonds,
        )

    def get_model(self, pos):
        assert self.kind == "stack"
        return MC(
            "array",
            self.cats,
            [dict(a) for a in self.ann],
            list(self.coord[pos]),
            None if self.box is None else self.box[pos],
            None if self.bonds is None else dict(self.bonds),
            loose_bonds=self.loose_bonds,
        )

    def index(self, d0, d1=None):
        """container[d0] or container[d0, d1]; ("tuple_ell", d) is (Ellipsis, d).

        Returns ("atom", atomdict) or ("cont", MC)."""
        if self.kind == "array":
            if d1 is not None:
                raise Invalid("index", "AtomArray does not accept two index dimensions")
            what, sel = select(d0, self.n)
            if what == "int":
                return "atom", self.atom_at(sel)
            return "cont", self.take_atoms(sel)
        # stack
        if d1 is None:
            what, sel = select(d0, self.m)
            if what == "int":
                return "cont", self.get_model(sel)
            return "cont", self.take_models(sel)
        # Both axes are judged independently; if several things are wrong any of
        # the corresponding errors is acceptable (Invalid.kind is then a tuple).
        problems = []
        what0 = what1 = sel0 = sel1 = None
        try:
            what0, sel0 = select(d0, self.m)
        except Invalid as e:
            problems.append(e.kind)
        try:
            what1, sel1 = select(d1, self.n)
            if what1 == "list" and self.bonds is not None and len(set(sel1)) != len(sel1):
                problems.append("notimpl")
        except Invalid as e:
            problems.append(e.kind)
        if problems:
            alt = None
            if problems == ["notimpl"]:
                alt = lambda: self._index2(what0, sel0, what1, sel1, True)  # noqa: E731
            raise Invalid(tuple(problems), "two-dimensional index", alt=alt)
        return self._index2(what0, sel0, what1, sel1, False)

    def _index2(self, what0, sel0, what1, sel1, dup_ok):
        if what0 == "int":
            arr = self.get_model(sel0)
            if what1 == "int":
                return "atom", arr.atom_at(sel1)
            return "cont", arr.take_atoms(sel1, dup_ok)
        sub = self.take_atoms([sel1] if what1 == "int" else sel1, dup_ok)
        return "cont", sub.take_models(sel0)

    # ------------------------------------------------------------ mutation
    def delete(self, i):
        """del array[i] (atom) / del stack[i] (model)."""
        if self.kind == "array":
            pos = _as_any(norm_int, i, self.n)
            keep = [p for p in range(self.n) if p != pos]
            new = self.take_atoms(keep)
            self.ann, self.coord, self.bonds = new.ann, new.coord, new.bonds
        else:
            pos = _as_any(norm_int, i, self.m)
            del self.coord[pos]
            if self.box is not None:
                del self.box[pos]

    def set_atoms(self, d, atom):
        """array[int or index array] = atom"""
        assert self.kind == "array"
        what, sel = _as_any(select, d, self.n)
        positions = [sel] if what == "int" else sel
        if sorted(atom["ann"]) != sorted(self.cats):
            raise Invalid("any", "atom has other annotation categories")
        for p in positions:
            self.ann[p] = dict(atom["ann"])
            self.coord[p] = tuple(atom["coord"])

    def set_model(self, i, arr):
        """stack[i] = array"""
        assert self.kind == "stack" and arr.kind == "array"
        if not self.same_annotations(arr):
            raise Invalid("any", "unequal annotations")
        if self.bonds != arr.bonds:
            raise Invalid("any", "unequal bonds")
        pos = _as_any(norm_int, i, self.m)
        self.coord[pos] = list(arr.coord)
        if self.box is not None:
            assert arr.box is not None, "outside the modelled domain"
            self.box[pos] = arr.box

    def set_annotation(self, name, kind, values):
        if len(values) != self.n:
            raise Invalid("any", "annotation of wrong length")
        assert self.cats.get(name, kind) == kind
        self.cats[name] = kind
        for a, v in zip(self.ann, values):
            a[name] = v

    def add_annotation(self, name, kind):
        if name in self.cats:
            assert self.cats[name] == kind
            return
        self.cats[name] = kind
        for a in self.ann:
            a[name] = ZERO[kind]

    def del_annotation(self, name):
        if name in self.cats:
            del self.cats[name]
            for a in self.ann:
                del a[name]

    def uid_bonds(self):
        """Bonds by atom identity: sorted list of (uid, uid, type)."""
        if self.bonds is None:
            return None
        out = []
        for (i, j), t in self.bonds.items():
            a, b = self.ann[i]["uid"], self.ann[j]["uid"]
            out.append((min(a, b), max(a, b), t))
        return sorted(out)


def _copy_box(kind, box):
    if box is None:
        return None
    return box if kind == "array" else list(box)


# ---------------------------------------------------------------- constructors
def concatenate(parts):
    kinds = {p.kind for p in parts}
    if len(kinds) != 1:
        raise Invalid("any", "AtomArray mixed with AtomArrayStack")
    kind = parts[0].kind
    if kind == "stack" and len({p.m for p in parts}) != 1:
        raise Invalid("any", "unequal stack depths")
    cats = {name: k for name, k in parts[0].cats.items() if all(name in p.cats for p in parts)}
    for p in parts:
        for name in cats:
            assert p.cats[name] == cats[name]
    ann = [{name: a[name] for name in cats} for p in parts for a in p.ann]
    if kind == "array":
        coord = [c for p in parts for c in p.coord]
    else:
        coord = [[c for p in parts for c in p.coord[j]] for j in range(parts[0].m)]
    box = None
    for p in parts:
        if p.box is not None:
            box = _copy_box(kind, p.box)
            break
    bonds = None
    if any(p.bonds is not None for p in parts):
        bonds = {}
        off = 0
        for p in parts:
            for (i, j), t in (p.bonds or {}).items():
                bonds[(i + off, j + off)] = t
            off += p.n
    return MC(kind, cats, ann, coord, box, bonds)


def stack(arrays):
    for a in arrays:
        assert a.kind == "array"
    ref = arrays[0]
    for a in arrays:
        if not a.same_annotations(ref):
            raise Invalid("any", "unequal annotations")
    box = None
    if all(a.box is not None for a in arrays):
        box = [a.box for a in arrays]
    return MC(
        "stack",
        ref.cats,
        [dict(a) for a in ref.ann],
        [list(a.coord) for a in arrays],
        box,
        None if ref.bonds is None else dict(ref.bonds),
    )


def repeat(src, coords):
    """coords[r] holds the coordinates of repeat r: array -> n tuples,
    stack -> m lists of n tuples."""
    k = len(coords)
    ann = [dict(a) for _ in range(k) for a in src.ann]
    if src.kind == "array":
        coord = [c for r in range(k) for c in coords[r]]
    else:
        coord = [[c for r in range(k) for c in coords[r][j]] for j in range(src.m)]
    bonds = None
    if src.bonds is not None:
        bonds = {}
        for r in range(k):
            for (i, j), t in src.bonds.items():
                bonds[(i + r * src.n, j + r * src.n)] = t
    return MC(src.kind, src.cats, ann, coord, _copy_box(src.kind, src.box), bonds)


def from_template(template, coords, boxes):
    """coords: l lists of n tuples; boxes None or l 3x3"""
    for c in coords:
        if len(c) != template.n:
            raise Invalid("any", "coordinates for another number of atoms")
    return MC(
        "stack",
        template.cats,
        [dict(a) for a in template.ann],
        [list(c) for c in coords],
        None if boxes is None else list(boxes),
        None if template.bonds is None else dict(template.bonds),
    )


def array(atoms, kinds):
    """atoms: non-empty list of atom dicts sharing the categories; kinds: name -> kind"""
    names = list(atoms[0]["ann"])
    for a in atoms:
        if sorted(a["ann"]) != sorted(names):
            raise Invalid("any", "atoms with different categories")
    return MC(
        "array",
        {name: kinds[name] for name in names},
        [dict(a["ann"]) for a in atoms],
        [tuple(a["coord"]) for a in atoms],
        None,
        None,
    )
