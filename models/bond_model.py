"""
Reference model of biotite.structure.BondList for property C02.

A bond list is an atom count ``n`` plus a mapping from *unordered* pairs of atom
indices (stored as ``(lo, hi)`` with ``lo <= hi``; ``lo == hi`` is a bond of an
atom with itself) to one bond type (an int 0..9).

Nothing in here imports biotite or numpy: plain Python dict/list semantics only.
The dict keeps insertion order, but no observable of the model depends on it.

Precedence rules taken from the documentation of BondList:
  * construction:  "If a bond appears multiple times with different bond types,
                    the first bond takes precedence."
  * add_bond:      "If the bond is already existent, only the bond type is updated."
  * merge:         "the BondType from the given bond_list takes precedence";
                    "the new atom count is the maximum of both bond lists".
  * concatenate/+: indices of later lists are increased by the atom counts of
                    all earlier lists.
  * indexing:      bonds with an atom not covered by the index are removed, the
                    others point to the same atoms at their new positions.
"""

# BondType values (written out, independent of the enum under test)
ANY, SINGLE, DOUBLE, TRIPLE, QUADRUPLE = 0, 1, 2, 3, 4
AROMATIC_SINGLE, AROMATIC_DOUBLE, AROMATIC_TRIPLE, COORDINATION, AROMATIC = 5, 6, 7, 8, 9
N_TYPES = 10
DEAROMATIZED = {
    AROMATIC_SINGLE: SINGLE,
    AROMATIC_DOUBLE: DOUBLE,
    AROMATIC_TRIPLE: TRIPLE,
    AROMATIC: ANY,
}
# remove_aromaticity() on a bond of type AROMATIC: the docstrings only state
# AROMATIC_{ORDER} -> {ORDER}; "order unknown" (ANY) or "left as it is" are both
# within the documentation, an invented order is not.
PLAIN_AROMATIC_TARGETS = (ANY, AROMATIC)


def norm_index(i, n):
    """Index in [-n, n) -> [0, n); anything else is an IndexError."""
    if not isinstance(i, int) or isinstance(i, bool):
        raise TypeError(i)
    if i < -n or i >= n:
        raise IndexError(f"index {i} outside [-{n}, {n})")
    return i + n if i < 0 else i


def key_of(i, j):
    return (i, j) if i <= j else (j, i)


class BondModel:
    def __init__(self, n, rows=()):
        """rows: iterable of (i, j) or (i, j, type); indices may be negative
        (in range).  First occurrence of an unordered pair wins."""
        if n < 0:
            raise ValueError(n)
        self.n = n
        self.b = {}
        self.ctor_collisions = 0  # how many rows repeated an earlier unordered pair
        self.ctor_type_conflicts = 0  # ... with a different type
        for row in rows:
            i = norm_index(row[0], n)
            j = norm_index(row[1], n)
            t = row[2] if len(row) > 2 else ANY
            if not 0 <= t < N_TYPES:
                raise ValueError(t)
            k = key_of(i, j)
            if k in self.b:
                self.ctor_collisions += 1
                if self.b[k] != t:
                    self.ctor_type_conflicts += 1
            else:
                self.b[k] = t

    # ------------------------------------------------------------------ helpers
    def copy(self):
        m = BondModel(self.n)
        m.b = dict(self.b)
        return m

    def snapshot(self):
        return (self.n, frozenset((a, b, t) for (a, b), t in self.b.items()))

    def triples(self):
        return {(a, b, t) for (a, b), t in self.b.items()}

    def rows(self):
        return [[a, b, t] for (a, b), t in self.b.items()]

    def keys(self):
        return list(self.b.keys())

    def has_self_bond(self):
        return any(a == b for a, b in self.b)

    def neighbours(self, i):
        """list of (other atom, type) for atom i (i in [-n, n)); a self bond
        lists the atom itself once."""
        i = norm_index(i, self.n)
        out = []
        for (a, b), t in self.b.items():
            if a == i:
                out.append((b, t))
            elif b == i:
                out.append((a, t))
        return out

    def degree_max(self):
        return max((len(self.neighbours(i)) for i in range(self.n)), default=0)

    def contains(self, i, j):
        return key_of(i, j) in self.b

    def adjacency(self):
        m = [[False] * self.n for _ in range(self.n)]
        for a, b in self.b:
            m[a][b] = True
            m[b][a] = True
        return m

    def type_matrix(self):
        m = [[-1] * self.n for _ in range(self.n)]
        for (a, b), t in self.b.items():
            m[a][b] = t
            m[b][a] = t
        return m

    # ------------------------------------------------------------- in-place ops
    def add(self, i, j, t=ANY):
        i = norm_index(i, self.n)
        j = norm_index(j, self.n)
        k = key_of(i, j)
        existed = k in self.b
        self.b[k] = t  # the new type wins
        return existed

    def remove(self, i, j):
        i = norm_index(i, self.n)
        j = norm_index(j, self.n)
        return self.b.pop(key_of(i, j), None) is not None

    def remove_to(self, i):
        i = norm_index(i, self.n)
        gone = [k for k in self.b if i in k]
        for k in gone:
            del self.b[k]
        return len(gone)

    def remove_bonds(self, other):
        """Only the pairs of ``other`` matter, not its types or atom count."""
        gone = [k for k in self.b if k in other.b]
        for k in gone:
            del self.b[k]
        return len(gone)

    def offset(self, k):
        if k < 0:
            raise ValueError(k)
        self.b = {(a + k, b + k): t for (a, b), t in self.b.items()}
        self.n += k

    def remove_aromaticity(self, plain_aromatic=None):
        """AROMATIC_{ORDER} -> {ORDER} (documented).  The target of plain AROMATIC
        (no formal order) is not documented: by default ANY (what biotite does);
        ``plain_aromatic`` (dict pair -> type) lets the caller state another
        outcome per bond, which is taken only if it is one of
        PLAIN_AROMATIC_TARGETS."""
        changed = 0
        for k, t in list(self.b.items()):
            if t == AROMATIC and plain_aromatic is not None:
                t2 = plain_aromatic.get(k)
                self.b[k] = t2 if t2 in PLAIN_AROMATIC_TARGETS else ANY
                changed += self.b[k] != t
            elif t in DEAROMATIZED:
                self.b[k] = DEAROMATIZED[t]
                changed += 1
        return changed

    def remove_bond_order(self):
        for k in self.b:
            self.b[k] = ANY

    # ----------------------------------------------------- ops with a new result
    def merge(self, arg):
        """self.merge(arg): the argument's type wins."""
        m = BondModel(max(self.n, arg.n))
        m.b = dict(self.b)
        m.b.update(arg.b)
        return m

    def merge_overlap(self, arg):
        """number of pairs present in both with different types"""
        return sum(1 for k, t in arg.b.items() if k in self.b and self.b[k] != t)

    @staticmethod
    def concatenate(models):
        out = BondModel(0)
        shift = 0
        for m in models:
            for (a, b), t in m.b.items():
                out.b[(a + shift, b + shift)] = t
            shift += m.n
        out.n = shift
        return out

    def select(self, old_indices):
        """old_indices: list of distinct non-negative atom indices, in the order
        in which they appear in the result (list semantics of lst[index])."""
        if len(set(old_indices)) != len(old_indices):
            raise ValueError("duplicate index")
        new_of = {}
        for new, old in enumerate(old_indices):
            if not 0 <= old < self.n:
                raise IndexError(old)
            new_of[old] = new
        m = BondModel(len(old_indices))
        for (a, b), t in self.b.items():
            if a in new_of and b in new_of:
                m.b[key_of(new_of[a], new_of[b])] = t
        return m
