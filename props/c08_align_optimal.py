"""
C08  Optimal pairwise alignment returns the true optimum.

Oracle: ``models/align_ref.py`` - an independent scoring function written from
the documented model, a brute force over ALL alignments (short sequences) and a
textbook three-state DP (sequences up to 40), the DP being compared with the
brute force on every small case.  The check decides, for every generated
(sequences, matrix, gap penalty, terminal_penalty, local, max_number):

* every reported score == optimum of the requested problem (global, semi-global
  = free end gaps, local; with an affine penalty the search space excludes
  alignments in which a gap in one sequence directly abuts a gap in the other);
* every returned trace is a valid alignment (contiguous, order preserving,
  end-to-end unless local) and its recomputed score == reported score
  (== ``align.score()``);
* non-empty traces are pairwise distinct, ``len(result) <= max_number``;
* (brute-force tier) every returned alignment is a member of the enumerated set
  of optimal alignments.

Whether *all* optimal alignments are returned when ``max_number`` does not bind
is not documented by biotite (the docstring only says that every returned
alignment has the maximum score), so it is only recorded as a label.

Outcomes that are accepted as alternatives (each shows up as a label):

* a sequence alphabet that the matrix alphabet does not extend: any exception
  (``rejected_with_<type>``; no exception type is documented), or a result that
  is the symbol-wise optimum;
* an empty sequence: a ``ValueError`` (``empty_seq_rejected``; nothing is
  documented for length 0) or a result that passes all clauses;
* a local alignment whose optimum is 0: an empty list
  (``local_zero_optimum_empty_list``) or alignments with score 0.

The affine optimum is the optimum of the adjacency-restricted space: that is
part of the property statement.  How often the unrestricted optimum is higher
is recorded as ``affine_unrestricted_optimum_higher``.
"""

import numpy as np
from hypothesis import strategies as st

from models import align_ref as R
from vlib import Outcome, Sub, findings

PROPERTY = "C08"
RULE = (
    "pairs of sequences (length 0..7 brute-force tier, 0..40 DP tier) over alphabets of 1..5 symbols or "
    "257..400 symbols (uint16 codes), independent alphabets per sequence, int32 matrices -20..20 (1 in 14: magnitudes 1e6..2e6, label "
    "large_matrix), linear and affine penalties -10..0, global / semi-global / local (local with both "
    "terminal_penalty settings), max_number 1..50 or the default 1000, arguments equal to their default "
    "passed or omitted; sub-check alphabet_fit: LetterAlphabet sequences of length 1..6; non-trivial = both "
    "sequences >= 2 symbols and (an optimal alignment contains a gap or there is more than one optimum)"
)

F1 = "C08-F1"


# --------------------------------------------------------------------------
# building biotite objects from a plain-data case
# --------------------------------------------------------------------------
def iscore(o, value, where=""):
    """The reported score as int; a non-integer score (e.g. None) is a violation, not a harness error."""
    if value is None or isinstance(value, (bool, str)) or not isinstance(value, (int, np.integer)):
        o.fail("reported_score_is_integer", f"{where}: reported score is {value!r}, not an integer")
        return None
    return int(value)


def sym_class(code, k):
    """Class of a symbol code: the small matrix is tiled over a large
    alphabet in a way that codes c and c & 255 get different classes."""
    return (code + code // 256) % k


def full_matrix(case):
    k1, k2 = len(case["mat"]), len(case["mat"][0])
    a1 = case["size1"] + case["extra1"]
    a2 = case["size2"] + case["extra2"]
    small = np.array(case["mat"], dtype=np.int32).reshape(k1, k2)
    r = np.array([sym_class(c, k1) for c in range(a1)])
    c = np.array([sym_class(c, k2) for c in range(a2)])
    return small[np.ix_(r, c)]


def build(case):
    import biotite.sequence as seq
    import biotite.sequence.align as align

    alph1 = seq.Alphabet(list(range(case["size1"])))
    alph2 = seq.Alphabet(list(range(case["size2"])))
    # the matrix alphabets may be longer than (extend) the sequence alphabets
    malph1 = seq.Alphabet(list(range(case["size1"] + case["extra1"])))
    malph2 = seq.Alphabet(list(range(case["size2"] + case["extra2"])))
    s1 = seq.GeneralSequence(alph1)
    s1.code = np.array(case["s1"], dtype=np.int64)
    s2 = seq.GeneralSequence(alph2)
    s2.code = np.array(case["s2"], dtype=np.int64)
    want = np.ascontiguousarray(full_matrix(case), dtype=np.int32)
    scores = want.copy()
    matrix = align.SubstitutionMatrix(malph1, malph2, scores)
    held_before = np.array_equal(np.asarray(matrix.score_matrix()), want)
    # the caller's array is a work buffer that is reused afterwards: a SubstitutionMatrix is
    # documented as immutable, so it must not alias it
    try:
        scores[...] = -777
    except ValueError:
        pass  # the constructor made the caller's array read-only: loud, not a wrong result
    # aliasing is a defect of the matrix class, not of the aligner: it gets its own clause
    # (a matrix that never held the given scores is left to the score clauses)
    aliased = held_before and not np.array_equal(np.asarray(matrix.score_matrix()), want)
    return s1, s2, matrix, aliased


def built_or_fail(o, case):
    s1, s2, matrix, aliased = build(case)
    if aliased:
        o.fail(
            "matrix_aliases_caller_array",
            "SubstitutionMatrix.score_matrix() changed when the array passed to the constructor was overwritten afterwards",
        )
        return None
    return s1, s2, matrix


def terminal_flag(case):
    """terminal_penalty as passed to align_optimal: fixed by the mode, free for local ("no effect")."""
    if case["mode"] == "local":
        return bool(case.get("tp", False))
    return case["mode"] == "global"


def align_kwargs(case):
    gap = gap_of(case)[0]
    kw = {
        "gap_penalty": gap,
        "terminal_penalty": terminal_flag(case),
        "local": case["mode"] == "local",
        "max_number": case.get("max_number", 5),
    }
    if case.get("omit_defaults"):
        # the documented defaults: gap_penalty=-10, terminal_penalty=True, local=False, max_number=1000
        defaults = {"gap_penalty": -10, "terminal_penalty": True, "local": False, "max_number": 1000}
        for name, dflt in defaults.items():
            if type(kw[name]) is type(dflt) and kw[name] == dflt:
                del kw[name]
    return kw


def call_align(o, case, s1, s2, matrix):
    """align_optimal() for the case; None if the call was rejected in an accepted way."""
    import biotite.sequence.align as align

    kw = align_kwargs(case)
    if len(kw) < 4:
        o.label("default_args_omitted")
    try:
        return align.align_optimal(s1, s2, matrix, **kw)
    except ValueError:
        if len(case["s1"]) == 0 or len(case["s2"]) == 0:
            # nothing is documented for sequences of length 0: a deliberate rejection is accepted
            o.label("empty_seq_rejected")
            return None
        raise


def model_inputs(case):
    """Sequences as class codes + the small matrix (what the model sees)."""
    k1, k2 = len(case["mat"]), len(case["mat"][0])
    c1 = [sym_class(c, k1) for c in case["s1"]]
    c2 = [sym_class(c, k2) for c in case["s2"]]
    return c1, c2, case["mat"]


def gap_of(case):
    g = case["gap"]
    if isinstance(g, (list, tuple)):
        return (int(g[0]), int(g[1])), int(g[0]), int(g[1]), True
    return int(g), int(g), int(g), False


# --------------------------------------------------------------------------
# strategies
# --------------------------------------------------------------------------
PEN = list(range(-10, 1))
SMALL_PEN = [-3, -2, -1, 0]


def st_matrix(k1, k2):
    n = k1 * k2

    def shaped(flat):
        return [list(flat[r * k2 : (r + 1) * k2]) for r in range(k1)]

    @st.composite
    def gen(draw):
        kind = draw(st.sampled_from(["rand"] * 4 + ["small"] * 2 + ["match"] * 4 + ["neg"] * 2 + ["zero", "large"]))
        if kind == "large":
            # magnitudes around 1e6 that are *almost* symmetric (differences of a few units):
            # any tolerance-based shortcut on the matrix would show
            base = draw(st.lists(st.integers(1_000_000, 2_000_000), min_size=n, max_size=n))
            signs = draw(st.lists(st.sampled_from([1, 1, -1]), min_size=n, max_size=n))
            base = [b * sg for b, sg in zip(base, signs)]
            delta = draw(st.lists(st.integers(-9, 9), min_size=n, max_size=n))
            rows = shaped(base)
            out = [[0] * k2 for _ in range(k1)]
            for r in range(k1):
                for c in range(k2):
                    sym = rows[min(r, c) % k1][max(r, c) % k2] if (min(r, c) < k1 and max(r, c) < k2) else rows[r][c]
                    out[r][c] = sym + (delta[r * k2 + c] if r > c else 0)
            return out
        if kind == "rand":
            return shaped(draw(st.lists(st.integers(-20, 20), min_size=n, max_size=n)))
        if kind == "small":
            return shaped(draw(st.lists(st.integers(-3, 3), min_size=n, max_size=n)))
        if kind == "neg":
            return shaped(draw(st.lists(st.integers(-20, -1), min_size=n, max_size=n)))
        if kind == "zero":
            return shaped([0] * n)
        hit = draw(st.integers(1, 20))
        miss = draw(st.integers(-20, 0))
        return [[hit if r == c else miss for c in range(k2)] for r in range(k1)]

    return gen()


def st_gap(strict=False):
    """Linear (int) or affine ([open, ext]) penalty, half and half; magnitudes
    spread evenly over -10..0 with a preference for cheap gaps."""
    pen = st.one_of(st.sampled_from(PEN), st.sampled_from(SMALL_PEN))
    if strict:
        pen = pen.map(lambda v: v if v < 0 else -1)

    @st.composite
    def gen(draw):
        # (Hypothesis prefers the first element: affine is listed first)
        if draw(st.sampled_from(["affine", "linear"])) == "affine":
            return [draw(pen), draw(pen)]
        return draw(pen)

    return gen()


def st_codes(size, k, length):
    if size > 256:
        elem = st.one_of(
            st.integers(0, size - 1),
            st.integers(256, size - 1),
            st.sampled_from([0, 255, 256, min(257, size - 1), size - 1]),
        )
    else:
        elem = st.integers(0, size - 1)
    return st.lists(elem, min_size=length, max_size=length)


def st_length(maxlen, min_len=0):
    """Lengths: a few empty/one-symbol sequences, the rest spread over the range."""
    parts = [st.sampled_from([min_len, min_len, max(min_len, 1)]), st.integers(min(2, maxlen), maxlen), st.integers(min(2, maxlen), maxlen)]
    if maxlen > 12:
        parts.append(st.integers(maxlen // 2, maxlen))
        parts.append(st.integers(2, 10))
    weights = st.integers(0, 19)

    @st.composite
    def gen(draw):
        # (Hypothesis over-represents 0: the rare class is keyed to another value)
        w = draw(weights)
        if w == 7:
            return draw(parts[0])
        return draw(parts[1 + w % (len(parts) - 1)])

    return gen()


def narrow(case):
    """Narrow open findings out of the generated domain by construction."""
    case["narrowed"] = []
    if findings.is_open(F1):
        if isinstance(case["gap"], list) and case["mode"] != "local" and (not case["s1"] or not case["s2"]):
            # affine + global + empty sequence is C08-F1: use the linear penalty instead
            case["gap"] = case["gap"][0]
            case["narrowed"].append(F1)
    return case


def st_case(maxlen_quick, maxlen_thorough, local_maxlen=None):
    def strategy(tier):
        maxlen = maxlen_quick if tier == "quick" else maxlen_thorough

        @st.composite
        def gen(draw):
            k1 = draw(st.integers(1, 5))
            k2 = draw(st.integers(1, 5))
            big1 = draw(st.integers(0, 7)) == 0
            big2 = draw(st.integers(0, 7)) == 0
            size1 = draw(st.integers(257, 400)) if big1 else k1
            size2 = draw(st.integers(257, 400)) if big2 else k2
            mode = draw(st.sampled_from(["global", "semiglobal", "local"]))
            ml = maxlen
            if mode == "local" and local_maxlen is not None:
                ml = min(ml, local_maxlen if tier == "quick" else local_maxlen + 1)
            # short alphabets make related sequences likely
            s1 = draw(st_codes(size1, k1, draw(st_length(ml))))
            s2 = draw(st_codes(size2, k2, draw(st_length(ml))))
            case = {
                "size1": size1,
                "size2": size2,
                "extra1": draw(st.sampled_from([0, 0, 0, 1, 3])),
                "extra2": draw(st.sampled_from([0, 0, 0, 1, 3])),
                "s1": s1,
                "s2": s2,
                "mat": draw(st_matrix(k1, k2)),
                "gap": draw(st_gap()),
                "mode": mode,
                "max_number": draw(st.one_of(st.just(1), st.integers(1, 5), st.integers(1, 50))),
                # only used for mode "local" ("If local is true, this parameter has no effect")
                "tp": draw(st.booleans()),
                "omit_defaults": draw(st.booleans()),
            }
            # (Hypothesis over-represents 0: the rare class is keyed to another value)
            if draw(st.integers(0, 9)) == 3:
                case["max_number"] = 1000  # the default
            return case

        return gen().map(narrow)

    return strategy


# --------------------------------------------------------------------------
# oracle
# --------------------------------------------------------------------------
def check_result(o, case, res, opt, c1, c2, mat, bf, matrix, use_score_fn=True):
    """All clauses of the property on the list returned by align_optimal."""
    import biotite.sequence.align as align

    gap, go, ge, affine = gap_of(case)
    mode = case["mode"]
    local = mode == "local"
    terminal = mode == "global"
    n, m = len(c1), len(c2)
    max_number = case.get("max_number", 5)

    if not isinstance(res, list):
        o.fail("returns_list", f"returned {type(res).__name__}")
        return False, set(), 0
    if len(res) == 0 and local and opt == 0:
        # "A list of alignments": the optimum of this local problem is the empty alignment
        o.label("local_zero_optimum_empty_list")
    else:
        o.check(len(res) >= 1, "reports_a_score", "empty result list: no score is reported")
    o.check(
        len(res) <= max_number,
        "at_most_max_number",
        lambda: f"{len(res)} alignments for max_number={max_number}",
    )
    if len(res) > 50:
        o.label(">50_returned")
    seen = set()
    n_empty = 0
    all_valid = True
    for k, ali in enumerate(res):
        raw = np.asarray(ali.trace)
        # (the shape of an empty trace is not documented: any array without elements is the empty trace)
        if raw.size != 0 and not (raw.ndim == 2 and raw.shape[1] == 2):
            all_valid = False
            o.fail("trace_valid", f"alignment {k}: trace shape {raw.shape}")
            continue
        trace = [] if raw.size == 0 else [tuple(int(v) for v in row) for row in raw.tolist()]
        rep = iscore(o, ali.score, f"alignment {k} ({mode}, gap={gap})")
        if rep is None:
            all_valid = False
            continue
        o.check_eq(rep, opt, "reported_score_is_optimum", f"alignment {k}: score ({mode}, gap={gap})")
        problems = R.validate_trace(trace, n, m, local)
        if problems:
            all_valid = False
            o.fail("trace_valid", f"alignment {k} ({mode}): {problems[:3]} trace={trace}")
            continue
        # recomputed score (terminal gaps of a local alignment do not exist: all gaps are charged)
        mine = R.score_trace(trace, c1, c2, mat, go, ge, terminal_penalty=(terminal or local))
        o.check_eq(mine, rep, "recomputed_score_equals_reported", f"alignment {k} trace={trace}")
        # biotite's own scoring function (the public model) must agree with the independent one
        # a sequence without any aligned symbol (also: the empty trace)
        allgap = any(all(c[s] == -1 for c in trace) for s in (0, 1))
        if (n == 0 or m == 0) and len(trace) > 0:
            # align.get_codes() (used by align.score()) indexes an empty code array with -1:
            # IndexError.  align.score() is the cross-check of the model here, not the
            # subject of this property (reported to the C11 builder / notes).
            o.label("score_fn_skipped_empty_seq")
        elif not (terminal or local) and allgap:
            # align.score(terminal_penalty=False) is not defined for a sequence without any
            # aligned symbol (find_terminal_gaps); not part of this property
            o.label("score_fn_skipped_allgap")
        elif not use_score_fn:
            pass
        else:
            theirs = align.score(ali, matrix, gap_penalty=gap, terminal_penalty=(terminal or local))
            o.check_eq(int(theirs), mine, "score_function_agrees_with_model", f"alignment {k} trace={trace}")
        if len(trace) == 0:
            n_empty += 1
        else:
            key = tuple(trace)
            o.check(key not in seen, "non_empty_results_distinct", lambda: f"alignment {k} repeated: {trace}")
            seen.add(key)
        if affine and R.has_adjacent_gaps(trace):
            o.label("returned_adjacent_gaps_affine")
        if local and trace and (-1 in trace[-1] or -1 in trace[0]):
            o.label("local_result_with_end_gap")
        if bf is not None and bf["complete"]:
            key = R.trace_to_ops(trace)
            if local and len(trace) == 0:
                key = (0, 0, "")
            if None not in key:
                o.check(
                    key in bf["optimal"],
                    "member_of_optimal_set",
                    lambda: f"alignment {k} {trace} (score {mine}) is not among the {bf['count']} optimal alignments",
                )
    if n_empty:
        o.label("empty_local_result")
    return all_valid, seen, n_empty


def labels_for(o, case, c1, c2, mat, affine, go, ge):
    n, m = len(c1), len(c2)
    o.label(case["mode"], "affine" if affine else "linear")
    if n == 0 or m == 0:
        o.label("empty_seq")
    if go == 0 or ge == 0:
        o.label("zero_penalty")
    if affine and abs(go) < abs(ge):
        o.label("|open|<|ext|")
    if case["size1"] > 256 or case["size2"] > 256:
        o.label("uint16")
        if (case["size1"] > 256) != (case["size2"] > 256):
            o.label("mixed_width")
    if case["extra1"] or case["extra2"]:
        o.label("matrix_alphabet_extends")
    flat = [v for row in mat for v in row]
    if all(v < 0 for v in flat):
        o.label("all_negative_matrix")
    if all(v == 0 for v in flat):
        o.label("zero_matrix")
    if any(abs(v) >= 1_000_000 for v in flat):
        o.label("large_matrix")
    if case["mode"] == "local" and terminal_flag(case):
        o.label("local+terminal_penalty")
    if case.get("max_number") == 1000:
        o.label("max_number_default_1000")
    if len(mat) != len(mat[0]) or any(mat[r][c] != mat[c][r] for r in range(len(mat)) for c in range(len(mat))):
        o.label("asymmetric_matrix")
    if case.get("narrowed"):
        for fid in case["narrowed"]:
            o.exclude(fid)


def label_restriction(o, c1, c2, mat, go, ge, mode, affine, opt):
    """The property fixes the adjacency-restricted optimum for affine penalties (``opt``);
    record how often the restriction matters."""
    if affine and R.dp3(c1, c2, mat, go, ge, mode, False)[0] > opt:
        o.label("affine_unrestricted_optimum_higher")


def run_bruteforce(case):
    import biotite.sequence.align as align

    o = Outcome()
    gap, go, ge, affine = gap_of(case)
    c1, c2, mat = model_inputs(case)
    mode = case["mode"]
    labels_for(o, case, c1, c2, mat, affine, go, ge)
    bf = R.brute_force(c1, c2, mat, go, ge, mode, forbid_adjacent=affine)
    opt = bf["opt"]
    # the DP reference must agree with the enumeration (harness self-check, not a violation)
    dp_opt, dp_count = R.dp3(c1, c2, mat, go, ge, mode, affine)
    assert dp_opt == opt and dp_count == bf["count"], f"reference DP {dp_opt, dp_count} != brute force {opt, bf['count']}"
    label_restriction(o, c1, c2, mat, go, ge, mode, affine, opt)
    for key in list(bf["optimal"])[:50]:
        s = R.score_trace(R.ops_to_trace(*key), c1, c2, mat, go, ge, terminal_penalty=(mode != "semiglobal"))
        assert s == opt, f"reference scoring {s} != enumeration {opt} for {key}"

    objs = built_or_fail(o, case)
    if objs is None:
        return o
    res = call_align(o, case, *objs)
    if res is None:
        return o
    all_valid, seen, n_empty = check_result(o, case, res, opt, c1, c2, mat, bf, objs[2])

    has_gap = any(("X" in k[2] or "Y" in k[2]) for k in bf["optimal"])
    ties = bf["count"] > 1
    if has_gap:
        o.label("bf_optimum_with_gap")
    if ties:
        o.label("ties")
    if bf["count"] > case["max_number"]:
        o.label("max_number_binding")
    elif all_valid and bf["complete"]:
        returned = len(seen) + (1 if n_empty else 0)
        o.label("returned_all_optimal" if returned >= bf["count"] else "returned_subset_of_optimal")
    o.mark_nontrivial(len(c1) >= 2 and len(c2) >= 2 and (has_gap or ties))
    return o


def run_dp(case):
    import biotite.sequence.align as align

    o = Outcome()
    gap, go, ge, affine = gap_of(case)
    c1, c2, mat = model_inputs(case)
    mode = case["mode"]
    labels_for(o, case, c1, c2, mat, affine, go, ge)
    opt, count = R.dp3(c1, c2, mat, go, ge, mode, affine)
    if len(c1) <= 4 and len(c2) <= 4:
        bf = R.brute_force(c1, c2, mat, go, ge, mode, forbid_adjacent=affine)
        assert (bf["opt"], bf["count"]) == (opt, count), f"reference DP {opt, count} != brute force {bf['opt'], bf['count']}"
        o.label("dp_checked_against_bruteforce")
    label_restriction(o, c1, c2, mat, go, ge, mode, affine, opt)
    objs = built_or_fail(o, case)
    if objs is None:
        return o
    res = call_align(o, case, *objs)
    if res is None:
        return o
    all_valid, seen, n_empty = check_result(o, case, res, opt, c1, c2, mat, None, objs[2])
    has_gap = any(-1 in col for tr in seen for col in tr)
    ties = count > 1
    if has_gap:
        o.label("returned_optimum_with_gap")
    if ties:
        o.label("ties")
    if count > case["max_number"]:
        o.label("max_number_binding")
    o.label("len>=20" if max(len(c1), len(c2)) >= 20 else "len<20")
    o.mark_nontrivial(len(c1) >= 2 and len(c2) >= 2 and (has_gap or ties))
    return o


# --------------------------------------------------------------------------
# sequences whose alphabet differs from the matrix alphabet
# --------------------------------------------------------------------------
FIT_LETTERS = "ACGTNRYKMSWB"
FIT_KINDS = ["same", "prefix", "prefix", "infix", "infix", "suffix", "perm", "superset"]


def _derive_alphabet(draw, malph, kind):
    k = len(malph)
    if kind == "same":
        return malph
    if kind == "prefix":
        return malph[: draw(st.integers(1, k))]
    if kind == "infix":
        i = draw(st.integers(1, k - 1))
        j = draw(st.integers(i + 1, k))
        return malph[i:j]
    if kind == "suffix":
        return malph[draw(st.integers(1, k - 1)) :]
    if kind == "perm":
        return "".join(draw(st.permutations(list(malph))))
    # superset: the matrix alphabet plus one more letter
    extra = [c for c in FIT_LETTERS if c not in malph]
    return malph + draw(st.sampled_from(extra))


def st_alphabet_fit(tier):
    @st.composite
    def gen(draw):
        k = draw(st.integers(2, 6))
        malph = "".join(draw(st.lists(st.sampled_from(FIT_LETTERS), min_size=k, max_size=k, unique=True)))
        kinds = [draw(st.sampled_from(FIT_KINDS)), draw(st.sampled_from(FIT_KINDS))]
        alphs = [_derive_alphabet(draw, malph, kind) for kind in kinds]
        seqs = [draw(st.text(a, min_size=1, max_size=6)) for a in alphs]
        flat = draw(st.lists(st.integers(-9, 9), min_size=k * k, max_size=k * k))
        return {
            "malph": malph,
            "kinds": kinds,
            "alph1": alphs[0],
            "alph2": alphs[1],
            "s1": seqs[0],
            "s2": seqs[1],
            "mat": [flat[r * k : (r + 1) * k] for r in range(k)],
            "gap": draw(st_gap()),
            "mode": draw(st.sampled_from(["global", "semiglobal", "local"])),
            "max_number": draw(st.one_of(st.just(5), st.integers(1, 50), st.just(1000))),
            "tp": draw(st.booleans()),
            "omit_defaults": draw(st.booleans()),
            "share_malph": draw(st.booleans()),
        }

    return gen()


def _fit_once(o, case, matrix, a1, a2, tag=""):
    """One call of align_optimal() with sequences over the alphabet objects a1 / a2, judged.
    Everything built here is local, i.e. released on return."""
    import biotite.sequence as seq

    gap, go, ge, affine = gap_of(case)
    malph = case["malph"]
    mode = case["mode"]
    s1 = seq.GeneralSequence(a1, case["s1"])
    s2 = seq.GeneralSequence(a2, case["s2"])
    fits = malph.startswith(case["alph1"]) and malph.startswith(case["alph2"])
    in_matrix = all(ch in malph for ch in case["s1"] + case["s2"])

    if fits:
        res = call_align(o, case, s1, s2, matrix)
    else:
        try:
            res = call_align(o, case, s1, s2, matrix)
        except Exception as e:  # noqa: BLE001 - "the only requirement is that the alphabets extend": any loud rejection
            o.label(tag + "rejected_with_" + type(e).__name__)
            return None
        o.label(tag + "accepted_although_not_extending")
        if not in_matrix:
            o.fail("alphabet_mismatch_rejected", f"{tag}symbols outside the matrix alphabet {malph!r} were aligned: {case['s1']!r} {case['s2']!r}")
            return None
    if res is None:
        return None
    # symbol-wise reference
    c1 = [malph.index(ch) for ch in case["s1"]]
    c2 = [malph.index(ch) for ch in case["s2"]]
    bf = R.brute_force(c1, c2, case["mat"], go, ge, mode, forbid_adjacent=affine)
    if not tag:
        label_restriction(o, c1, c2, case["mat"], go, ge, mode, affine, bf["opt"])
    # align.score() is only defined for sequences the matrix alphabets extend
    check_result(o, case, res, bf["opt"], c1, c2, case["mat"], bf, matrix, use_score_fn=fits)
    return {"count": bf["count"]}


def run_alphabet_fit(case):
    """align_optimal() with sequences over an alphabet that is not the matrix alphabet: if the
    matrix alphabet extends it (same symbols in the same leading positions) the result must
    satisfy all clauses under symbol-wise scoring; otherwise a loud rejection (today: ValueError
    "alphabets do not fit the matrix"; no exception type is documented, any is accepted) - or,
    at least, never a result scored with the wrong matrix rows.

    The verdict on a pair of sequences must not depend on earlier calls: every case is preceded
    by a call ("prelude") with the same matrix object but short-lived sequence alphabets of the
    opposite kind (fitting before a non-fitting case and vice versa), which are released before
    the alphabet objects of the case proper are created."""
    import biotite.sequence as seq
    import biotite.sequence.align as align

    o = Outcome()
    gap, go, ge, affine = gap_of(case)
    malph = case["malph"]
    mode = case["mode"]
    fits1, fits2 = malph.startswith(case["alph1"]), malph.startswith(case["alph2"])
    fits = fits1 and fits2
    o.label("fits" if fits else "does_not_fit", *[f"kind={k}" for k in case["kinds"]])
    o.label(mode, "affine" if affine else "linear")
    if mode == "local" and terminal_flag(case):
        o.label("local+terminal_penalty")
    if case.get("max_number") == 1000:
        o.label("max_number_default_1000")

    m1 = seq.LetterAlphabet(malph)
    m2 = m1 if case.get("share_malph") else seq.LetterAlphabet(malph)
    matrix = align.SubstitutionMatrix(m1, m2, np.array(case["mat"], dtype=np.int32))

    # prelude: the opposite kind (reversed alphabet = same letters, k >= 2 distinct ones: does not fit)
    other = malph[::-1] if fits else malph
    prelude = dict(case, alph1=other, alph2=other, s1=other[0], s2=other[-1])
    p1 = seq.LetterAlphabet(other)
    p2 = seq.LetterAlphabet(other)
    _fit_once(o, prelude, matrix, p1, p2, tag="prelude_")
    old = (id(p1), id(p2))
    # the alphabet object that decides the case is created first, right after the prelude's
    # alphabet for the same sequence position was released
    if fits1 and not fits2:
        del p1, p2
        a2 = seq.LetterAlphabet(case["alph2"])
        a1 = seq.LetterAlphabet(case["alph1"])
    else:
        del p2, p1
        a1 = seq.LetterAlphabet(case["alph1"])
        a2 = seq.LetterAlphabet(case["alph2"])
    if id(a1) in old or id(a2) in old:
        o.label("alphabet_address_reused")

    info = _fit_once(o, case, matrix, a1, a2)
    if info is not None:
        if info["count"] > 1:
            o.label("ties")
        if info["count"] > case.get("max_number", 5):
            o.label("max_number_binding")
    o.mark_nontrivial(not fits or case["alph1"] != malph or case["alph2"] != malph)
    return o


SUBS = [
    Sub(
        "bruteforce",
        st_case(7, 7, local_maxlen=6),
        run_bruteforce,
        quick=4800,
        thorough=200000,
        rule="both sequences >= 2 symbols and (an optimal alignment has a gap or > 1 optimal alignment), optimum from enumeration of all alignments",
        clauses="score == optimum; traces valid; recomputed score == reported == align.score(); distinct; <= max_number; member of the optimal set",
    ),
    Sub(
        "dp",
        st_case(40, 40),
        run_dp,
        quick=1600,
        thorough=60000,
        rule="both sequences >= 2 symbols and (a returned optimal alignment has a gap or > 1 optimal alignment), optimum from the reference DP",
        clauses="score == optimum; traces valid; recomputed score == reported == align.score(); distinct; <= max_number",
    ),
    Sub(
        "alphabet_fit",
        st_alphabet_fit,
        run_alphabet_fit,
        quick=1600,
        thorough=50000,
        rule="a sequence alphabet that is not the matrix alphabet itself (prefix, infix, suffix, permutation, superset)",
        clauses="different alphabets per sequence: all clauses of bruteforce under symbol-wise scoring when the matrix alphabet extends them, an exception otherwise",
    ),
]


def _f1(sub, case, clause, message):
    return (
        clause == "unexpected_exception"
        and "IndexError" in message
        and isinstance(case["gap"], list)
        and case["mode"] != "local"
        and (len(case["s1"]) == 0 or len(case["s2"]) == 0)
    )


FINDINGS = {"affine_global_empty_sequence": _f1}
