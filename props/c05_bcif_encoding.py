"""
C05  BinaryCIF encodings are invertible; compression stays within tolerance;
     unrepresentable values are rejected or kept losslessly; serialisation
     round trips.

Case format shared by the encoding sub-checks ("chain cases"):

    {"kind": "int"|"float"|"str", "dtype": "int8".."uint64"|"float32"|"float64"|"U",
     "segs": [["lit", [v, ...]], ["run", v, k], ["ramp", start, step, k]],
     "chain": [[name, params], ...],          # name: bytes fixed interval rle delta pack strings
     "explicit": "inferred"|"copy",           # copy: second pass with every inferred parameter given explicitly
     "narrowed": ["C05-F1", ...]}             # open findings whose input class was narrowed away

Oracle.  `classify()` decides from the *input alone* (values, dtype, explicit
parameters of the first encoding) whether the chain is able to represent the
input.  If it is ("must"), encode->decode has to succeed and return the input
(exactly; FixedPoint within half a step, IntervalQuantization by the interval
rules).  If it is not ("may"), the only accepted outcomes are an exception (of any
type) or an exact round trip of the offending values.  "may" also covers what the
documentation leaves open: an explicit type that is not the dtype of the array, a
Delta step beyond int32, values outside the interval of an IntervalQuantization -
there the result, if one is returned, is judged by the same rules as for "must".

Optional key "layout": "plain" (default) | "strided" | "readonly" | "be" (big-endian copy) |
"f16" (float16 copy of float32 data whose values are float16 numbers): the memory layout /
byte order of the array that is handed to encode(); the values are the same.
"""

import io
import json
import math
import warnings

import numpy as np
from hypothesis import strategies as st

from vlib import Enum, Outcome, Sub, findings

PROPERTY = "C05"
RULE = (
    "arrays are built from segments (literals, runs, ramps) over boundary values of every integer "
    "width/sign, strings with duplicates/empty/non-ASCII, floats with chosen fixed-point images; chains "
    "follow the BinaryCIF type flow.  Non-trivial = length >= 3 with >= 2 distinct values and a chain of "
    ">= 2 encodings, or an element at a type boundary / a non-finite element / an unrepresentable element"
)

# --------------------------------------------------------------------------
# constants
# --------------------------------------------------------------------------
INT_TYPES = ["int8", "int16", "int32", "int64", "uint8", "uint16", "uint32", "uint64"]
FLOAT_TYPES = ["float32", "float64"]
RANGE = {t: (int(np.iinfo(t).min), int(np.iinfo(t).max)) for t in INT_TYPES}
CAP = {t: t for t in INT_TYPES}
CAP["int64"] = "int32"
CAP["uint64"] = "uint32"
I32_MIN, I32_MAX = RANGE["int32"]
F32_MAX = float(np.finfo(np.float32).max)
EPS = {"float32": float(np.finfo(np.float32).eps), "float64": float(np.finfo(np.float64).eps)}
LIMITS = [
    0, 1, -1, 2, 126, 127, 128, 129, -127, -128, -129, 254, 255, 256, 257,
    32766, 32767, 32768, -32767, -32768, -32769, 65534, 65535, 65536,
    2**31 - 2, 2**31 - 1, 2**31, -(2**31) + 1, -(2**31), -(2**31) - 1,
    2**32 - 2, 2**32 - 1, 2**32, 2**63 - 1, -(2**63), 2**64 - 1,
]  # fmt: skip
BOUNDARY_SET = frozenset(LIMITS) - {0, 1, -1, 2}
# "rejected" is all the property promises for input a representation cannot hold: every
# exception type counts (the type that occurred is recorded as a label)
UNREP = "unrepresentable_rejected_or_lossless"
STRING_POOL = ["", "a", "b", "ab", "A", " ", "a b", "é", "ü", "ß", "汉字", "😀", "αβγ", "x" * 17, "0", "-1", ".", "?", "a'b", 'q"', "\t", "é"]


def setup():
    # NaN -> int32 casts etc. emit RuntimeWarning; a warning is not a rejection
    warnings.simplefilter("ignore")


# --------------------------------------------------------------------------
# plain data -> arrays and encodings
# --------------------------------------------------------------------------
def expand(segs):
    out = []
    for s in segs:
        if s[0] == "lit":
            out.extend(s[1])
        elif s[0] == "run":
            out.extend([s[1]] * s[2])
        elif s[0] == "ramp":
            out.extend(s[1] + s[2] * i for i in range(s[3]))
        elif s[0] == "randint":  # [_, seed, n, lo, hi]
            out.extend(int(v) for v in np.random.default_rng(s[1]).integers(s[3], s[4], size=s[2], endpoint=True))
        elif s[0] == "randwalk":  # [_, seed, n, start, maxstep]
            steps = np.random.default_rng(s[1]).integers(-s[4], s[4], size=s[2], endpoint=True)
            out.extend(int(v) for v in s[3] + np.cumsum(steps))
        elif s[0] == "randcoord":  # [_, seed, n, span, decimals]
            vals = np.random.default_rng(s[1]).uniform(-s[3], s[3], size=s[2])
            out.extend(float(v) for v in np.round(vals, s[4]))
        else:
            raise ValueError(f"unknown segment {s[0]}")
    return out


def mk_array(kind, dtype, segs, rows=None):
    vals = expand(segs)
    if rows is not None:
        if not vals:
            vals = [{"int": 0, "float": 0.0, "str": ""}[kind]]
        vals = (vals * (rows // len(vals) + 1))[:rows]
    if kind == "int":
        lo, hi = RANGE[dtype]
        vals = [min(max(int(v), lo), hi) for v in vals]
        return np.array(vals, dtype=dtype)
    if kind == "float":
        return np.array([float(v) for v in vals], dtype=dtype)
    if kind == "str":
        if not vals:
            return np.array([], dtype="U1")
        return np.array(vals, dtype="U")
    raise ValueError(kind)


LAYOUTS = ("plain", "strided", "readonly", "be", "f16")


def apply_layout(x, layout):
    """The same values in another memory layout / byte order (what is handed to biotite)."""
    if layout in (None, "plain"):
        return x
    if layout == "strided":
        buf = np.empty(2 * len(x) + 1, dtype=x.dtype)
        if x.dtype.kind == "U":
            buf[:] = ""
        else:
            buf[:] = 0
        view = buf[1::2]
        view[:] = x
        return view
    if layout == "readonly":
        y = x.copy()
        y.flags.writeable = False
        return y
    if layout == "be":
        return x.astype(x.dtype.newbyteorder(">"))
    if layout == "f16":
        return x.astype(np.float16)
    raise ValueError(layout)


def layout_allowed(layout, kind, dtype):
    if layout in (None, "plain", "strided", "readonly"):
        return True
    if layout == "be":
        # 8-byte integers in non-native byte order: candidate finding (KeyError from TypeCode.from_dtype),
        # see notes/audit/C05_applied.md - kept out of the generators
        return kind in ("int", "float") and dtype not in ("int64", "uint64")
    if layout == "f16":
        return kind == "float" and dtype == "float32"
    return False


def st_layout(kind, dtype, f16=False, be=True):
    opts = ["plain"] * 12 + ["strided", "strided", "readonly", "readonly"]
    if be and layout_allowed("be", kind, dtype):
        opts += ["be", "be"]
    if f16 and layout_allowed("f16", kind, dtype):
        opts += ["f16"] * 5
    return st.sampled_from(opts)


def mk_enc(spec):
    from biotite.structure.io.pdbx import (
        ByteArrayEncoding,
        DeltaEncoding,
        FixedPointEncoding,
        IntegerPackingEncoding,
        IntervalQuantizationEncoding,
        RunLengthEncoding,
        StringArrayEncoding,
    )

    name, p = spec
    if name == "bytes":
        return ByteArrayEncoding(type=p.get("type"))
    if name == "fixed":
        return FixedPointEncoding(p["factor"], src_type=p.get("src_type"))
    if name == "interval":
        return IntervalQuantizationEncoding(p["min"], p["max"], p["num_steps"], src_type=p.get("src_type"))
    if name == "rle":
        return RunLengthEncoding(src_size=p.get("src_size"), src_type=p.get("src_type"))
    if name == "delta":
        return DeltaEncoding(src_type=p.get("src_type"), origin=p.get("origin"))
    if name == "pack":
        return IntegerPackingEncoding(p["byte_count"], src_size=p.get("src_size"), is_unsigned=p.get("is_unsigned"))
    if name == "strings":
        strings = p.get("strings")
        if strings is not None:
            strings = np.array(strings, dtype="U") if strings else np.array([], dtype="U1")
        return StringArrayEncoding(
            strings=strings,
            data_encoding=[mk_enc(s) for s in p["data"]],
            offset_encoding=[mk_enc(s) for s in p["offset"]],
        )
    raise ValueError(name)


def clone_explicit(e):
    """A new encoding object in which every parameter the first pass inferred is
    passed explicitly (type codes as NumPy dtypes, to go through from_dtype)."""
    from biotite.structure.io.pdbx import (
        ByteArrayEncoding,
        DeltaEncoding,
        FixedPointEncoding,
        IntegerPackingEncoding,
        IntervalQuantizationEncoding,
        RunLengthEncoding,
        StringArrayEncoding,
    )

    def as_dtype(tc):
        return None if tc is None else np.dtype(tc.to_dtype())

    def as_int(v):
        return None if v is None else int(v)

    if isinstance(e, ByteArrayEncoding):
        return ByteArrayEncoding(type=as_dtype(e.type))
    if isinstance(e, FixedPointEncoding):
        return FixedPointEncoding(e.factor, src_type=as_dtype(e.src_type))
    if isinstance(e, IntervalQuantizationEncoding):
        return IntervalQuantizationEncoding(e.min, e.max, e.num_steps, src_type=as_int(e.src_type))
    if isinstance(e, RunLengthEncoding):
        return RunLengthEncoding(src_size=as_int(e.src_size), src_type=as_int(e.src_type))
    if isinstance(e, DeltaEncoding):
        return DeltaEncoding(src_type=as_dtype(e.src_type), origin=as_int(e.origin))
    if isinstance(e, IntegerPackingEncoding):
        return IntegerPackingEncoding(
            e.byte_count, src_size=as_int(e.src_size), is_unsigned=None if e.is_unsigned is None else bool(e.is_unsigned)
        )
    if isinstance(e, StringArrayEncoding):
        return StringArrayEncoding(
            strings=None if e.strings is None else e.strings.copy(),
            data_encoding=[clone_explicit(x) for x in e.data_encoding],
            offset_encoding=[clone_explicit(x) for x in e.offset_encoding],
        )
    raise TypeError(type(e))


def chain_sig(chain):
    parts = []
    for name, p in chain:
        if name == "pack":
            parts.append(f"pack{p['byte_count']}")
        elif name == "strings":
            parts.append("strings[" + chain_sig(p["data"]) + "|" + chain_sig(p["offset"]) + "]")
        else:
            parts.append(name)
    return "+".join(parts) if parts else "none"


def _np_default(item):
    if isinstance(item, np.generic):
        return item.item()
    raise TypeError(f"cannot pack {type(item).__name__}")


def _msgpack_roundtrip(obj):
    import msgpack

    return msgpack.unpackb(msgpack.packb(obj, use_bin_type=True, default=_np_default), use_list=True, raw=False)


# --------------------------------------------------------------------------
# which inputs can the first encoding of a chain hold?
# --------------------------------------------------------------------------
def _decreasing(vals, origin=None):
    """A step that is negative or beyond int32 (class of C05-F6 for uint64 input)."""
    seq = ([origin] if origin is not None else []) + list(vals)
    return any(not (0 <= b - a <= I32_MAX) for a, b in zip(seq, seq[1:]))


def _step_outside_int32(vals, origin=None, margin=0):
    """A Delta step (the first one is taken against the origin) that no int32 can hold.  biotite
    lets such steps wrap modulo 2**32 (exact today); refusing them is just as legitimate."""
    if not vals:
        return False
    seq = [vals[0] if origin is None else origin] + list(vals)
    return any(not (I32_MIN + margin <= b - a <= I32_MAX - margin) for a, b in zip(seq, seq[1:]))


def _fits(vals, tname):
    lo, hi = RANGE[tname]
    return all(lo <= v <= hi for v in vals)


def _fixed_classes(x, factor, src_type):
    """Per element: 1 = representable for sure, -1 = unrepresentable for sure, 0 = too
    close to the int32 limits to tell (float32 arithmetic of the encoder)."""
    xs = x.astype(np.float64)
    eps = EPS["float32"] if (x.dtype == np.float32 or src_type == "float32") else EPS["float64"]
    with np.errstate(all="ignore"):
        img = np.abs(xs * float(factor))
        margin = 0.51 + img * 4 * eps
        cls = np.zeros(len(xs), dtype=int)
        cls[np.isfinite(xs) & (img <= I32_MAX - margin)] = 1
        cls[~np.isfinite(xs) | (img >= I32_MAX + 1 + margin)] = -1
    return cls


def classify(case, x):
    """-> {"status": "must"|"may", "finding": id|None, "why": str, "elem": per-element class or None}"""
    kind, chain = case["kind"], case["chain"]
    n = len(x)
    res = {"status": "must", "finding": None, "why": "", "elem": None}

    def may(why, finding=None):
        if res["status"] == "must" or (finding and not res["finding"]):
            res["why"] = why
        res["status"] = "may"
        if finding and not res["finding"]:
            res["finding"] = finding

    if not chain:
        return res
    first, p = chain[0]
    names = [c[0] for c in chain]
    if first == "strings":
        data_names = [c[0] for c in p["data"]]
    else:
        data_names = names
    if n == 0 and any(nm in ("rle", "delta", "pack") for nm in data_names):
        may("empty_input")

    if kind == "int":
        vals = [int(v) for v in x.tolist()]
        T = case["dtype"]
        S = CAP[T]
        if first == "bytes":
            U = p.get("type") or S
            if U in FLOAT_TYPES:
                may("float_type_on_int")
            elif not _fits(vals, U):
                may("bytes_out_of_range")
            elif np.dtype(U) != np.dtype(S):
                # `type` is documented as "the data type of the array to be encoded": a different
                # type is outside the documented contract, even if the values happen to fit
                may("explicit_type_is_not_data_type")
        elif first == "rle":
            U = p.get("src_type") or S
            if not _fits(vals, U):
                may("rle_out_of_range")
            elif np.dtype(U) != np.dtype(S):
                may("explicit_type_is_not_data_type")
            if p.get("src_size") is not None and p["src_size"] != n:
                may("wrong_src_size")
        elif first == "delta":
            U = p.get("src_type") or S
            if not _fits(vals, U):
                may("delta_out_of_range", "C05-F2")
            elif np.dtype(U) != np.dtype(S):
                # src_type is documented as "the data type of the array to be encoded"; unlike
                # RunLength/ByteArray, Delta neither casts nor validates the data against it
                may("delta_src_type_is_not_data_type", "C05-F2")
            elif T == "uint64" and _decreasing(vals, p.get("origin")):
                res["finding"] = "C05-F6"
            origin = p.get("origin")
            if origin is not None and not (RANGE[T][0] <= origin <= RANGE[T][1]):
                may("origin_out_of_range")
            if _step_outside_int32(vals, origin):
                # a difference the int32 output cannot hold: wrap-around (exact) or refusal
                may("delta_step_outside_int32")
        elif first == "pack":
            if not _fits(vals, "int32"):
                may("pack_out_of_int32", "C05-F3")
            if p.get("is_unsigned") is True and vals and min(vals) < 0:
                may("pack_unsigned_negative")
            if p.get("src_size") is not None and p["src_size"] != n:
                may("wrong_src_size")
            if p["byte_count"] not in (1, 2):
                may("bad_byte_count")
        else:
            may("wrong_kind_for_" + first)
    elif kind == "float":
        if first in ("fixed", "interval") and p.get("src_type") not in (None, case["dtype"]):
            # src_type: "the data type of the array to be encoded"
            may("explicit_type_is_not_data_type")
        if first == "fixed":
            cls = _fixed_classes(x, p["factor"], p.get("src_type"))
            res["elem"] = cls
            if np.any(cls == -1):
                may("fixed_point_unrepresentable", "C05-F1")
            elif np.any(cls == 0):
                may("fixed_point_borderline")
            if len(chain) > 1 and chain[1][0] == "delta":
                with np.errstate(all="ignore"):
                    img = np.round(x.astype(np.float64) * float(p["factor"]))
                img = [int(v) for v in img[np.isfinite(img)].tolist()]
                # (margin: the encoder may compute the image in float32)
                if _step_outside_int32(img, margin=1024):
                    may("delta_step_outside_int32")
        elif first == "interval":
            # 2 = outside [min, max] (or infinite): the docstring does not say what happens to such
            # values - clamping (BinaryCIF), refusing and keeping them are all accepted
            with np.errstate(all="ignore"):
                outside = (x < p["min"]) | (x > p["max"]) | np.isinf(x)
            cls = np.where(np.isnan(x), -1, np.where(outside, 2, 1))
            res["elem"] = cls
            if np.any(cls == -1):
                may("interval_nan", "C05-F4")
            if np.any(cls == 2):
                may("interval_outside_range")
        elif first == "bytes":
            U = p.get("type") or case["dtype"]
            if U in INT_TYPES:
                may("int_type_on_float")
            elif U == "float32" and case["dtype"] == "float64":
                with np.errstate(all="ignore"):
                    over = np.isfinite(x) & np.isinf(x.astype(np.float32))
                res["elem"] = np.where(over, -1, 1)
                if np.any(over):
                    may("float32_overflow", "C05-F5")
                may("explicit_type_is_not_data_type")
            elif U != case["dtype"]:
                res["elem"] = np.ones(n, dtype=int)
                may("explicit_type_is_not_data_type")
        else:
            may("wrong_kind_for_" + first)
    elif kind == "str":
        if first == "strings":
            strings = p.get("strings")
            if strings is not None and not set(x.tolist()) <= set(strings):
                may("strings_missing")
            if strings is not None and len(set(strings)) != len(strings):
                may("strings_not_unique")
        else:
            may("wrong_kind_for_" + first)
    if case.get("layout") in ("be", "f16") and layout_allowed(case["layout"], kind, case["dtype"]):
        # non-native byte order and float16 are handled by TypeCode.from_dtype, but no docstring promises
        # them: a refusal is accepted, a returned array is judged as usual
        may("input_form_" + case["layout"])
    return res


def finding_of(case):
    x = mk_array(case["kind"], case["dtype"], case["segs"])
    return classify(case, x)["finding"]


def _is_chain_case(case):
    return isinstance(case, dict) and "chain" in case and "segs" in case


def _pred(fid, *want_clauses):
    want_clauses = want_clauses or (UNREP,)

    def pred(sub, case, clause, message):
        return clause in want_clauses and _is_chain_case(case) and finding_of(case) == fid

    return pred


FINDINGS = {
    "fixedpoint_image_outside_int32": _pred("C05-F1"),
    "delta_input_outside_src_type": _pred("C05-F2"),
    "packing_input_outside_int32": _pred("C05-F3"),
    "interval_quantization_nan": _pred("C05-F4"),
    "bytearray_float64_to_float32_overflow": _pred("C05-F5"),
    # (a uint64 array that also holds a step beyond int32 is of class "may": the same defect then
    # shows under the clause of that class)
    "delta_uint64_decreasing": _pred("C05-F6", "int_roundtrip_exact", UNREP),
}


# --------------------------------------------------------------------------
# comparison helpers
# --------------------------------------------------------------------------
def _bits(a):
    a = np.ascontiguousarray(a)
    if not a.dtype.isnative:
        a = a.astype(a.dtype.newbyteorder("="))
    return a.view({2: np.uint16, 4: np.uint32, 8: np.uint64}[a.dtype.itemsize])


def _same_float_bits(a, b):
    """Bit identical (NaN payloads aside: any NaN equals any NaN)."""
    a = np.asarray(a)
    b = np.asarray(b)
    if a.shape != b.shape or a.dtype.itemsize != b.dtype.itemsize or a.dtype.kind != "f" or b.dtype.kind != "f":
        return False
    nan = np.isnan(a) & np.isnan(b)
    return bool(np.all(nan | (_bits(a) == _bits(b))))


def _expected_int_dtype(case):
    first, p = case["chain"][0]
    S = CAP[case["dtype"]]
    if first == "bytes":
        return p.get("type") or S
    if first in ("rle", "delta"):
        return p.get("src_type") or S
    return "int32"


def _compare_int(o, case, x, y, clause):
    ok = o.check(
        isinstance(y, np.ndarray) and y.shape == x.shape and [int(v) for v in y.tolist()] == [int(v) for v in x.tolist()],
        clause,
        lambda: f"{chain_sig(case['chain'])} on {case['dtype']} {x.tolist()!r:.300} -> {np.asarray(y).tolist()!r:.300}",
    )
    if ok and case["chain"][0][0] == "pack":
        # IntegerPacking works on "32-bit integers" (docstring); signed or unsigned is not stated
        o.check(y.dtype.kind in "iu" and y.dtype.itemsize == 4, clause, lambda: f"decoded dtype {y.dtype}, IntegerPacking is documented for 32-bit integers")
        o.label("decoded=" + ("int32" if y.dtype.kind == "i" else "uint32"))
    elif ok:
        want = np.dtype(_expected_int_dtype(case))
        o.check(
            y.dtype.kind == want.kind and y.dtype.itemsize == want.itemsize,
            clause,
            lambda: f"decoded dtype {y.dtype} but the first encoding's source type is {want}",
        )
    return ok


def _str_values(y):
    """The strings held by an array of any NumPy string representation ('U', StringDType, object)."""
    y = np.asarray(y)
    if y.dtype.kind not in "UTO":
        return None
    vals = y.tolist()
    return vals if all(isinstance(v, str) for v in vals) else None


def _compare_str(o, case, x, y, clause):
    return o.check(
        isinstance(y, np.ndarray) and y.shape == x.shape and _str_values(y) == x.tolist(),
        clause,
        lambda: f"{chain_sig(case['chain'])} on {x.tolist()!r:.300} -> {np.asarray(y).tolist()!r:.300}",
    )


def _compare_float(o, case, x, y, cls):
    """Element-wise oracle for float chains; `cls` from classify (None: all representable)."""
    first, p = case["chain"][0]
    if not o.check(isinstance(y, np.ndarray) and y.shape == x.shape and y.dtype.kind == "f", "float_roundtrip_shape", f"got {y!r:.200}"):
        return
    elem = cls if cls is not None else np.ones(len(x), dtype=int)
    xs = x.astype(np.float64)
    ys = y.astype(np.float64)
    src = p.get("src_type") if first in ("fixed", "interval") else None
    want_dtype = np.dtype(src or (p.get("type") if first == "bytes" and p.get("type") else case["dtype"]))
    o.check(y.dtype.itemsize == want_dtype.itemsize, "float_roundtrip_dtype", f"decoded dtype {y.dtype}, source type {want_dtype}")
    eps = EPS["float32"] if (case["dtype"] == "float32" or want_dtype.itemsize == 4) else EPS["float64"]
    tiny = float(np.finfo(np.float32).smallest_subnormal) if eps == EPS["float32"] else 0.0

    # unrepresentable elements: must come back unchanged
    for i in np.nonzero(elem == -1)[0]:
        same = (math.isnan(xs[i]) and math.isnan(ys[i])) or xs[i] == ys[i]
        o.check(same, UNREP, lambda i=i: f"{chain_sig(case['chain'])} {p}: element {xs[i]!r} came back as {ys[i]!r}")
    o.ambiguous += int(np.sum(elem == 0))
    rep = np.nonzero((elem == 1) | (elem == 2))[0]
    if first == "fixed":
        f = float(p["factor"])
        tol = 0.5 / f + 4 * eps * (np.abs(xs) + 0.5 / f) + tiny
        bad = [i for i in rep if not abs(ys[i] - xs[i]) <= tol[i]]
        o.check(
            not bad,
            "fixed_point_half_step",
            lambda: f"factor {p['factor']}: {xs[bad[0]]!r} -> {ys[bad[0]]!r} (error {abs(ys[bad[0]] - xs[bad[0]])!r} > {tol[bad[0]]!r})",
        )
    elif first == "interval":
        mn, mx, k = float(p["min"]), float(p["max"]), int(p["num_steps"])
        step = (mx - mn) / (k - 1)
        ulp = 16 * eps * (abs(mn) + abs(mx) + step) + tiny
        for i in rep:
            xi, yi = xs[i], ys[i]
            if elem[i] == 2 and xi == yi:
                continue  # a value outside the interval that was kept as it is
            if xi < mn:
                good = abs(yi - mn) <= ulp
                rule = f"below min -> min ({mn})"
            elif xi > mx:
                # BinaryCIF clamps to max; biotite answers max + one step.  The property does not
                # decide which (see notes/C05.md), both are accepted.
                good = mx - ulp <= yi <= mx + step + ulp
                rule = f"above max -> clamped to [{mx}, {mx + step}]"
            else:
                good = abs(yi - xi) <= step + ulp and mn - ulp <= yi <= mx + step + ulp
                rule = f"inside -> moves by at most one step ({step})"
            if not good:
                o.fail("interval_quantization_step", f"{p}: {xi!r} -> {yi!r}; rule: {rule}")
                break
    elif first == "bytes":
        if want_dtype.itemsize == np.dtype(case["dtype"]).itemsize:
            o.check(_same_float_bits(x, y), "float_bytes_bit_identical", lambda: f"{x.tolist()!r:.300} -> {y.tolist()!r:.300}")
        elif want_dtype.itemsize == 4:
            with np.errstate(all="ignore"):
                ref = x.astype(np.float32)
            good = all(
                (math.isnan(ref[i]) and math.isnan(y[i])) or ref[i] == y[i] for i in rep
            )
            o.check(good, "float_bytes_float32_precision", lambda: f"{x.tolist()!r:.300} -> {y.tolist()!r:.300}")
        else:
            o.check(_same_float_bits(x, y.astype(np.float32)), "float_bytes_bit_identical", lambda: f"{x.tolist()!r:.300} -> {y.tolist()!r:.300}")


# --------------------------------------------------------------------------
# run: one array through one chain
# --------------------------------------------------------------------------
def _is_boundary_case(case, x):
    if case["kind"] == "int":
        lo, hi = RANGE[case["dtype"]]
        return any(int(v) in BOUNDARY_SET or int(v) in (lo, hi) for v in x.tolist())
    if case["kind"] == "float":
        return bool(np.any(~np.isfinite(x)))
    return False


def _encode_chain(data, encs):
    # (public Encoding.encode / .decode only; biotite's own stepwise helpers are not exported)
    for e in encs:
        data = e.encode(data)
    return data


def _decode_chain(data, encs):
    for e in reversed(encs):
        data = e.decode(data)
    return data


def _same_values(x, y):
    """Numerically equal element by element (any NaN equals any NaN), whatever the dtypes."""
    x = np.asarray(x)
    y = np.asarray(y)
    if x.shape != y.shape or y.dtype.kind not in "fiu":
        return False
    with np.errstate(all="ignore"):
        xs = x.astype(np.float64)
        ys = y.astype(np.float64)
    return bool(np.all((np.isnan(xs) & np.isnan(ys)) | (xs == ys)))


def _compare_decoded(o, case, cls, x0, y, sig):
    """The oracle for one decoded array; True if nothing was violated."""
    kind = case["kind"]
    clause_exact = {"int": "int_roundtrip_exact", "str": "string_roundtrip_exact"}.get(kind)
    if cls["status"] == "may" and kind != "float":
        clause_exact = UNREP
    if kind == "int":
        return _compare_int(o, case, x0, y, clause_exact)
    if kind == "str":
        return _compare_str(o, case, x0, y, clause_exact)
    before = len(o.violations)
    if case["chain"][0][0] in ("fixed", "interval", "bytes") and not (cls["status"] == "may" and cls["elem"] is None):
        _compare_float(o, case, x0, y, cls["elem"])
    else:
        # a representation of the wrong kind accepted the data: only the very same values are allowed
        # (in whatever dtype they come back)
        o.check(
            isinstance(y, np.ndarray) and _same_values(x0, y),
            UNREP,
            lambda: f"{sig} on {x0.tolist()!r:.300} -> {np.asarray(y).tolist()!r:.300}",
        )
    return len(o.violations) == before


def run_chain(case):
    from biotite.structure.io.pdbx import BinaryCIFData

    o = Outcome()
    for fid in case.get("narrowed", []):
        o.exclude(fid)
    kind = case["kind"]
    layout = case.get("layout") or "plain"
    if not layout_allowed(layout, kind, case["dtype"]):
        layout = "plain"
    x0 = mk_array(kind, case["dtype"], case["segs"])
    if layout == "f16":
        with np.errstate(all="ignore"):
            x0 = x0.astype(np.float16).astype(np.float32)
    # x0: the values (native, contiguous, never handed out); x: what biotite gets
    x = apply_layout(x0.copy(), layout)
    cls = classify(case, x0)
    sig = chain_sig(case["chain"])
    o.label(f"kind={kind}", f"dtype={case['dtype']}", f"chain={sig}", f"class={cls['status']}", f"layout={layout}")
    o.label("len=0" if len(x0) == 0 else "len=1" if len(x0) == 1 else "len=2-9" if len(x0) < 10 else "len>=10")
    if cls["status"] == "may":
        o.label("why=" + cls["why"])
    boundary = _is_boundary_case(case, x0)
    if boundary:
        o.label("boundary_or_nonfinite")
    distinct = len(set(x0.tolist())) if kind != "float" else len(set(map(repr, x0.tolist())))
    n_enc = len(case["chain"]) + (
        len(case["chain"][0][1]["data"]) + len(case["chain"][0][1]["offset"]) if case["chain"] and case["chain"][0][0] == "strings" else 0
    )
    o.mark_nontrivial((len(x0) >= 3 and distinct >= 2 and n_enc >= 2) or boundary or cls["status"] == "may")

    def roundtrip(es):
        enc = _encode_chain(x, es)
        return enc, _decode_chain(enc, es)

    if cls["status"] == "may":
        # "rejected" = any exception, raised by the constructor of the encoding, by encode() or by decode()
        try:
            encs = [mk_enc(s) for s in case["chain"]]
            enc, y = roundtrip(encs)
        except Exception as e:  # noqa: BLE001
            o.label("outcome=rejected:" + type(e).__name__)
            return o
        o.label("outcome=accepted")
    else:
        encs = [mk_enc(s) for s in case["chain"]]
        enc, y = roundtrip(encs)
        o.label("outcome=ok")

    # (not a clause of C05, recorded only: did encode() write into the array it was given?)
    if layout != "readonly":
        with np.errstate(all="ignore"):
            xv = np.asarray(x).astype(x0.dtype)
        same_in = _same_float_bits(xv, x0) if kind == "float" else xv.tolist() == x0.tolist()
        if not same_in:
            o.label("input_array_modified_by_encode")

    if not _compare_decoded(o, case, cls, x0, y, sig):
        return o

    # ---- explicit parameters: the same chain with every inferred parameter spelled out decodes to
    # ---- the input by the same rules (equal bytes / equal Encoding objects are recorded, not demanded)
    if case.get("explicit") == "copy":
        encs2 = [clone_explicit(e) for e in encs]
        try:
            enc2, y2 = roundtrip(encs2)
        except Exception as e:  # noqa: BLE001
            if cls["status"] != "may":
                raise
            o.label("explicit=rejected:" + type(e).__name__)
        else:
            same_enc = enc2 == enc if isinstance(enc, bytes) else (isinstance(enc2, np.ndarray) and np.array_equal(enc2, enc))
            o.label("explicit=copy", "explicit_same_encoded_data" if same_enc and encs2 == encs else "explicit_other_encoded_data")
            o2 = Outcome()
            _compare_decoded(o2, case, cls, x0, y2, sig)
            o.ambiguous += o2.ambiguous
            for clause, msg in o2.violations:
                o.fail(clause, "with explicit copies of the inferred parameters: " + msg)

    # ---- serialisation of the encodings (needs a chain that ends in bytes)
    if isinstance(enc, bytes):
        for e in encs:
            back = type(e).deserialize(e.serialize())
            o.check(back == e, "encoding_serialize_roundtrip", lambda e=e, back=back: f"{e!r:.300} -> {back!r:.300}")
        data = BinaryCIFData(x, encs)
        content = _msgpack_roundtrip(data.serialize())
        back = BinaryCIFData.deserialize(content)
        o.check(back.encoding == encs, "encoding_serialize_roundtrip", lambda: f"via msgpack: {encs!r:.300} -> {back.encoding!r:.300}")
        if kind == "float" and np.asarray(y).dtype.kind == "f":
            o.check(_same_float_bits(np.asarray(back.array), np.asarray(y)), "data_serialize_roundtrip", "array decoded from msgpack differs from decode(encode(x))")
        else:
            o.check(np.asarray(back.array).tolist() == np.asarray(y).tolist(), "data_serialize_roundtrip", "array decoded from msgpack differs from decode(encode(x))")
        o.label("serialized")
    return o


# --------------------------------------------------------------------------
# strategies: values
# --------------------------------------------------------------------------
def _weighted(pairs):
    """pairs: [(weight, strategy)] -> strategy choosing an alternative with the given weights
    (sampled_from is uniform; integers() favours its end points)."""
    pairs = sorted(pairs, key=lambda t: -t[0])  # the "simplest" choice is the most common one
    idx = [i for i, (w, _) in enumerate(pairs) for _ in range(w)]
    return st.sampled_from(idx).flatmap(lambda i: pairs[i][1])


def st_int_elem(dtype, wide, small_only=False):
    """wide=False: values the 32-bit capped type can hold."""
    lo, hi = RANGE[dtype if wide else CAP[dtype]]
    lo, hi = max(lo, RANGE[dtype][0]), min(hi, RANGE[dtype][1])
    if small_only:
        lo, hi = max(lo, -70000), min(hi, 70000)
    bounds = sorted({v for v in LIMITS + [lo, hi, lo + 1, hi - 1] if lo <= v <= hi})
    small = st.integers(max(lo, -6), min(hi, 6))
    return _weighted([(5, st.sampled_from(bounds)), (3, small), (2, st.integers(lo, hi))])


def st_int_segs(dtype, tier, wide=False, small_only=False, allow_short=True):
    maxrun = 12 if tier == "quick" else 60
    maxsegs = 4 if tier == "quick" else 8
    elem = st_int_elem(dtype, wide, small_only)
    lo, hi = RANGE[dtype if wide else CAP[dtype]]
    lo, hi = max(lo, RANGE[dtype][0]), min(hi, RANGE[dtype][1])

    def ramp(t):
        # keep the whole ramp inside the range the elements are drawn from
        start, step, k = t
        if not lo <= start + step * (k - 1) <= hi:
            step = -step
        if not lo <= start + step * (k - 1) <= hi:
            step = 0
        return ["ramp", start, step, k]

    seg = st.one_of(
        st.lists(elem, min_size=1, max_size=5).map(lambda l: ["lit", l]),
        st.tuples(elem, st.integers(2, maxrun)).map(lambda t: ["run", t[0], t[1]]),
        st.tuples(elem, st.sampled_from([1, -1, 2, -3, 7, 100, 0]), st.integers(2, maxrun)).map(ramp),
    )
    general = st.lists(seg, min_size=1, max_size=maxsegs)
    if not allow_short:
        return general
    return _weighted([(2, st.just([])), (3, elem.map(lambda v: [["lit", [v]]])), (25, general)])


def st_int_chain(final_bytes=True, min_len=1):
    def build(t):
        delta, rle, pack, fin = t
        chain = []
        if delta:
            chain.append(["delta", {}])
        if rle:
            chain.append(["rle", {}])
        if pack:
            chain.append(["pack", {"byte_count": pack}])
        if fin or final_bytes or not chain:
            chain.append(["bytes", {}])
        return chain

    return st.tuples(st.booleans(), st.booleans(), st.sampled_from([None, None, 1, 2]), st.integers(0, 9).map(lambda k: k < 8)).map(build)


def _has_pack1(chain):
    return any(n == "pack" and p["byte_count"] == 1 for n, p in chain)


def _cap_extremes(segs, keep=0, limit=1 << 21):
    """At most `keep` values beyond +-limit (IntegerPacking(1) needs |v|/127 bytes per value)."""
    out = []
    for s in segs:
        s = list(s)
        if s[0] == "lit":
            vals = []
            for v in s[1]:
                if abs(v) > limit:
                    if keep > 0:
                        keep -= 1
                    else:
                        v = v % 1000
                vals.append(v)
            s[1] = vals
        elif abs(s[1]) > limit:
            if keep > 0 and s[0] == "run":
                keep -= 1
                s = ["lit", [s[1]]]
            else:
                s[1] = s[1] % 1000
        out.append(s)
    return out


def _narrow_f6(dtype, chain, segs, narrowed):
    """C05-F6: DeltaEncoding directly on a uint64 array with a decreasing step."""
    if dtype != "uint64" or not chain or chain[0][0] != "delta" or not findings.is_open("C05-F6"):
        return segs
    lo, hi = RANGE[dtype]
    flat = [min(max(v, lo), hi) for v in expand(segs)]
    if _decreasing(flat):
        narrowed.append("C05-F6")
        return [["lit", sorted(v % (I32_MAX + 1) for v in flat)]]
    return segs


def st_int_chain_case(tier):
    @st.composite
    def gen(draw):
        dtype = draw(st.sampled_from(INT_TYPES))
        chain = draw(st_int_chain(final_bytes=False))
        narrowed = []
        wide = dtype in ("int64", "uint64") and draw(st.integers(0, 9)) == 0
        first = chain[0][0]
        if wide and first == "delta" and findings.is_open("C05-F2"):
            wide = False
            narrowed.append("C05-F2")
        if wide and first == "pack" and findings.is_open("C05-F3"):
            wide = False
            narrowed.append("C05-F3")
        segs = draw(st_int_segs(dtype, tier, wide=wide))
        if first == "pack" and dtype in ("uint32", "uint64") and findings.is_open("C05-F3"):
            # uint32 values >= 2**31 fed directly into IntegerPacking belong to the finding's class
            flat = expand(segs)
            if any(min(max(v, 0), RANGE[dtype][1]) > I32_MAX for v in flat):
                narrowed.append("C05-F3")
                segs = [["lit", [min(max(v, 0), RANGE[dtype][1]) % (I32_MAX + 1) for v in flat]]]
        if _has_pack1(chain):
            # |v| / 127 bytes per value: the int32 extremes only now and then
            segs = _cap_extremes(segs, keep=1 if draw(st.integers(0, 9)) == 0 else 0)
        segs = _narrow_f6(dtype, chain, segs, narrowed)
        return {
            "kind": "int",
            "dtype": dtype,
            "segs": segs,
            "chain": chain,
            "explicit": draw(st.sampled_from(["inferred", "inferred", "copy"])),
            "narrowed": narrowed,
            "layout": draw(st_layout("int", dtype)),
        }

    return gen()


FACTORS = [1, 10, 100, 1000, 10000, 10**6, 10**9, 0.1, 0.001, 2, 16, 0.25, 3.7, 1e3, 123.456]


def st_fixed_values(dtype, factor, tier, allow_unrep):
    """Floats chosen through their fixed-point image k + frac, so that the whole int32
    image range (and, if allowed, what lies beyond it) is reached for every factor."""
    guard = 4096 if dtype == "float32" else 2
    lim = I32_MAX - guard
    ks = [0, 1, -1, 127, 128, -128, 255, 256, 32767, 32768, -32768, 65535, 65536, lim, -lim, lim - 1, 10**6, -(10**6)]
    k = _weighted([(4, st.sampled_from(ks)), (3, st.integers(-1000, 1000)), (3, st.integers(-lim, lim))])
    frac = st.one_of(st.sampled_from([0.0, 0.5, -0.5, 0.49, 0.51, -0.49, 0.25]), st.floats(-0.5, 0.5, allow_nan=False))
    rep = st.tuples(k, frac).map(lambda t: (t[0] + t[1]) / factor)
    if not allow_unrep:
        elem = _weighted([(9, rep), (1, st.sampled_from([0.0, -0.0]))])
    else:
        huge = st.tuples(st.sampled_from([1, -1]), st.integers(I32_MAX + 1 + guard, 2**40)).map(lambda t: t[0] * t[1] / factor)
        nonfinite = st.sampled_from([math.nan, math.inf, -math.inf])
        elem = _weighted([(6, rep), (1, st.sampled_from([0.0, -0.0])), (2, nonfinite), (1, huge)])
    maxrun = 8 if tier == "quick" else 40
    seg = st.one_of(
        st.lists(elem, min_size=1, max_size=6).map(lambda l: ["lit", l]),
        st.tuples(elem, st.integers(2, maxrun)).map(lambda t: ["run", t[0], t[1]]),
    )
    return _weighted([(1, st.just([])), (2, elem.map(lambda v: [["lit", [v]]])), (27, st.lists(seg, min_size=1, max_size=4))])


def st_interval_values(mn, mx, k, tier, allow_nan, allow_outside=True):
    step = (mx - mn) / (k - 1)
    inside = st.floats(mn, mx, allow_nan=False)
    on_step = st.integers(0, k - 1).map(lambda j: mn + j * step)
    outside = st.one_of(st.floats(mn - 10 * (mx - mn) - 1, mn, allow_nan=False), st.floats(mx, mx + 10 * (mx - mn) + 1, allow_nan=False))
    special = [mn, mx, math.inf, -math.inf, mn - step, mx + step, mx + 3 * step]
    pairs = [(4, inside), (2, on_step), (2, outside), (2, st.sampled_from(special))]
    if not allow_outside:
        pairs = [(4, inside), (2, on_step), (1, st.sampled_from([mn, mx]))]
    if allow_nan:
        pairs.append((1, st.just(math.nan)))
    elem = _weighted(pairs)
    maxrun = 8 if tier == "quick" else 40
    seg = st.one_of(
        st.lists(elem, min_size=1, max_size=6).map(lambda l: ["lit", l]),
        st.tuples(elem, st.integers(2, maxrun)).map(lambda t: ["run", t[0], t[1]]),
    )
    return _weighted([(1, st.just([])), (2, elem.map(lambda v: [["lit", [v]]])), (27, st.lists(seg, min_size=1, max_size=4))])


def st_float_bits(dtype, allow_overflow32=False):
    width = 32 if dtype == "float32" else 64
    pairs = [
        (4, st.floats(width=width, allow_nan=False, allow_infinity=False)),
        (3, st.floats(-1000, 1000, width=width)),
        (2, st.sampled_from([0.0, -0.0, math.nan, math.inf, -math.inf, 1.0, -1.5])),
    ]
    if dtype == "float32":
        pairs.append((1, st.sampled_from([F32_MAX, -F32_MAX, 1e-45, 1.1754944e-38])))
    else:
        pairs.append((1, st.sampled_from([1.7976931348623157e308, 5e-324, 2.2250738585072014e-308, F32_MAX, 0.1])))
    return _weighted(pairs)


def st_float_chain_case(tier):
    @st.composite
    def gen(draw):
        dtype = draw(st.sampled_from(FLOAT_TYPES))
        head = draw(st.sampled_from(["fixed", "fixed", "fixed", "interval", "interval", "bytes"]))
        narrowed = []
        tail = draw(st_int_chain(final_bytes=False))
        if head == "fixed":
            factor = draw(st.sampled_from(FACTORS))
            src = draw(st.sampled_from([None, None, None, "float32", "float64"]))
            want_unrep = draw(st.integers(0, 9)) < 2
            if want_unrep and findings.is_open("C05-F1"):
                want_unrep = False
                narrowed.append("C05-F1")
            segs = draw(st_fixed_values(dtype, factor, tier, want_unrep))
            chain = [["fixed", {"factor": factor, "src_type": src}]] + tail
        elif head == "interval":
            mn = draw(st.one_of(st.sampled_from([0.0, -1.0, 10.0, -180.0]), st.floats(-1000, 1000, allow_nan=False).map(lambda v: round(v, 3))))
            width = draw(st.one_of(st.sampled_from([1.0, 10.0, 360.0, 0.001]), st.floats(0.001, 2000).map(lambda v: round(v, 3))))
            k = draw(st.one_of(st.sampled_from([2, 3, 11, 101, 256, 1001]), st.integers(2, 2000)))
            src = draw(st.sampled_from([None, None, None, "float32", "float64"]))
            want_nan = draw(st.integers(0, 9)) < 2
            if want_nan and findings.is_open("C05-F4"):
                want_nan = False
                narrowed.append("C05-F4")
            segs = draw(st_interval_values(mn, mn + width, k, tier, want_nan, allow_outside=draw(st.booleans())))
            chain = [["interval", {"min": mn, "max": mn + width, "num_steps": k, "src_type": src}]] + tail
        else:
            typ = draw(st.sampled_from([None, None, "float32", "float64"]))
            elem = st_float_bits(dtype)
            segs = draw(st.lists(st.lists(elem, min_size=1, max_size=5).map(lambda l: ["lit", l]), max_size=3))
            chain = [["bytes", {"type": typ}]]
            if typ == "float32" and dtype == "float64" and findings.is_open("C05-F5"):
                flat = expand(segs)
                if any(math.isfinite(v) and abs(v) > F32_MAX for v in flat):
                    narrowed.append("C05-F5")
                    segs = [["lit", [math.copysign(F32_MAX, v) if math.isfinite(v) and abs(v) > F32_MAX else v for v in flat]]]
        if _has_pack1(chain) and head == "fixed":
            # keep the number of huge images small: |image| / 127 bytes each
            flat = expand(segs)
            big = [i for i, v in enumerate(flat) if math.isfinite(v) and abs(v * factor) > 1 << 21]
            for i in big[1 if draw(st.integers(0, 9)) == 0 else 0 :]:
                flat[i] = math.fmod(flat[i] * factor, 1000.0) / factor
            segs = [["lit", flat]] if flat else []
        return {
            "kind": "float",
            "dtype": dtype,
            "segs": segs,
            "chain": chain,
            "explicit": draw(st.sampled_from(["inferred", "inferred", "copy"])),
            "narrowed": narrowed,
            "layout": draw(st_layout("float", dtype, f16=head == "bytes")),
        }

    return gen()


def st_string_elem():
    text = st.text(st.characters(blacklist_categories=("Cs",), blacklist_characters="\x00"), max_size=5)
    return _weighted([(7, st.sampled_from(STRING_POOL)), (3, text)])


def st_string_segs(tier, allow_short=True):
    maxrun = 8 if tier == "quick" else 40
    elem = st_string_elem()
    seg = st.one_of(
        st.lists(elem, min_size=1, max_size=6).map(lambda l: ["lit", l]),
        st.tuples(elem, st.integers(2, maxrun)).map(lambda t: ["run", t[0], t[1]]),
    )
    general = st.lists(seg, min_size=1, max_size=4 if tier == "quick" else 8)
    if not allow_short:
        return general
    return _weighted([(1, st.just([])), (2, elem.map(lambda v: [["lit", [v]]])), (27, general)])


def st_string_chain_case(tier):
    @st.composite
    def gen(draw):
        segs = draw(st_string_segs(tier))
        params = {"strings": None, "data": draw(st_int_chain()), "offset": draw(st_int_chain())}
        if draw(st.integers(0, 3)) == 0:
            uniq = list(dict.fromkeys(expand(segs)))
            extra = [s for s in draw(st.lists(st_string_elem(), max_size=3)) if s not in uniq]
            strings = list(dict.fromkeys(uniq + extra))
            strings = draw(st.permutations(strings))
            if strings and draw(st.sampled_from([False, False, False, True])):
                # a table that lists a string twice (class "strings_not_unique": refusal or exact round trip)
                k = draw(st.integers(0, len(strings) - 1))
                strings = list(strings)
                strings.insert(draw(st.integers(0, len(strings))), strings[k])
            params["strings"] = list(strings)
        return {
            "kind": "str",
            "dtype": "U",
            "segs": segs,
            "chain": [["strings", params]],
            "explicit": draw(st.sampled_from(["inferred", "inferred", "copy"])),
            "narrowed": [],
            "layout": draw(st_layout("str", "U")),
        }

    return gen()


# --------------------------------------------------------------------------
# strategy: inputs the representation cannot hold
# --------------------------------------------------------------------------
UNREP_KINDS = [
    "bytes_narrow_int", "bytes_int_type_on_float", "wide64", "fixed_unrep", "interval_nan", "bytes_f32_overflow",
    "rle_narrow_src", "delta_narrow_src", "pack_unsigned_negative", "wrong_src_size", "strings_missing",
    "strings_on_int", "pack_uint32_high", "delta_origin_out_of_range", "pack_signed_on_uint32", "pack_bad_byte_count",
]  # fmt: skip


def st_unrepresentable_case(tier):
    @st.composite
    def gen(draw):
        what = draw(st.sampled_from(UNREP_KINDS))
        narrowed = []
        case = {"kind": "int", "dtype": "int32", "segs": [], "chain": [], "explicit": "inferred", "narrowed": narrowed, "what": what}

        def is_open(fid):
            if findings.is_open(fid):
                narrowed.append(fid)
                return True
            return False

        if what == "bytes_narrow_int":
            T = draw(st.sampled_from(INT_TYPES))
            U = draw(st.sampled_from([t for t in INT_TYPES[:3] + INT_TYPES[4:7] if t != CAP[T]]))
            case.update(dtype=T, segs=draw(st_int_segs(T, tier, wide=True, allow_short=False)), chain=[["bytes", {"type": U}]])
        elif what == "bytes_int_type_on_float":
            dtype = draw(st.sampled_from(FLOAT_TYPES))
            vals = draw(st.lists(st.one_of(st.integers(-5, 5).map(float), st.floats(-100, 100, width=32)), min_size=1, max_size=5))
            case.update(kind="float", dtype=dtype, segs=[["lit", vals]], chain=[["bytes", {"type": draw(st.sampled_from(INT_TYPES[:3] + INT_TYPES[4:7]))}]])
        elif what == "wide64":
            T = draw(st.sampled_from(["int64", "uint64"]))
            chain = draw(st_int_chain())
            first = chain[0][0]
            wide = True
            if first == "delta" and is_open("C05-F2"):
                wide = False
            if first == "pack" and is_open("C05-F3"):
                wide = False
            segs = draw(st_int_segs(T, tier, wide=wide, allow_short=False))
            if wide:
                lo, hi = RANGE[T]
                segs = segs + [["lit", [draw(st.sampled_from([hi, hi - 1, 2**32, 2**40 + 5] + ([lo, -(2**31) - 1, -(2**40)] if lo < 0 else [])))]]]
            if _has_pack1(chain):
                segs = [[s[0], s[1] % 100000] + list(s[2:]) if s[0] != "lit" else ["lit", [v % 100000 for v in s[1]]] for s in segs] if not wide else segs
                if wide:
                    chain = [c if c[0] != "pack" else ["pack", {"byte_count": 2}] for c in chain]
            if not wide:
                segs = _narrow_f6(T, chain, segs, narrowed)
            case.update(dtype=T, segs=segs, chain=chain)
        elif what == "fixed_unrep":
            dtype = draw(st.sampled_from(FLOAT_TYPES))
            factor = draw(st.sampled_from(FACTORS))
            allow = not is_open("C05-F1")
            segs = draw(st_fixed_values(dtype, factor, tier, allow))
            if allow:
                segs = segs + [["lit", [draw(st.sampled_from([math.nan, math.inf, -math.inf, 3e9 / factor, -3e9 / factor, 1e30, -1e30]))]]]
            case.update(kind="float", dtype=dtype, segs=segs, chain=[["fixed", {"factor": factor, "src_type": None}], ["bytes", {}]])
        elif what == "interval_nan":
            dtype = draw(st.sampled_from(FLOAT_TYPES))
            allow = not is_open("C05-F4")
            segs = draw(st_interval_values(0.0, 10.0, 11, tier, allow))
            if allow:
                segs = segs + [["lit", [math.nan]]]
            case.update(kind="float", dtype=dtype, segs=segs, chain=[["interval", {"min": 0.0, "max": 10.0, "num_steps": 11, "src_type": None}], ["bytes", {}]])
        elif what == "bytes_f32_overflow":
            allow = not is_open("C05-F5")
            vals = draw(st.lists(st.floats(-1e30, 1e30, allow_nan=False), min_size=1, max_size=4))
            if allow:
                vals = vals + [draw(st.sampled_from([1e300, -1e39, 3.5e38, 1.7976931348623157e308]))]
            case.update(kind="float", dtype="float64", segs=[["lit", vals]], chain=[["bytes", {"type": "float32"}]])
        elif what in ("rle_narrow_src", "delta_narrow_src"):
            T = draw(st.sampled_from(["int16", "int32", "uint16", "uint32", "int64", "uint64"]))
            narrower = [t for t in INT_TYPES[:3] + INT_TYPES[4:7] if np.dtype(t).itemsize < np.dtype(CAP[T]).itemsize or t[0] != CAP[T][0]]
            U = draw(st.sampled_from(narrower))
            name = "rle" if what == "rle_narrow_src" else "delta"
            if name == "delta" and is_open("C05-F2"):
                U = CAP[T]  # the finding covers every src_type that is not the data type
            segs = draw(st_int_segs(T, tier, wide=False, allow_short=False))
            segs = _narrow_f6(T, [[name, {}]], segs, narrowed)
            case.update(dtype=T, segs=segs, chain=[[name, {"src_type": U}], ["bytes", {}]])
        elif what == "pack_unsigned_negative":
            T = draw(st.sampled_from(["int8", "int16", "int32", "int64"]))
            segs = draw(st_int_segs(T, tier, wide=False, small_only=True, allow_short=False))
            segs = segs + [["lit", [draw(st.sampled_from([-1, -128, -129, -5]))]]]
            case.update(dtype=T, segs=segs, chain=[["pack", {"byte_count": draw(st.sampled_from([1, 2])), "is_unsigned": True}], ["bytes", {}]])
        elif what == "wrong_src_size":
            T = draw(st.sampled_from(INT_TYPES[:3] + INT_TYPES[4:6]))
            segs = draw(st_int_segs(T, tier, wide=False, small_only=True, allow_short=False))
            n = len(expand(segs))
            size = max(0, n + draw(st.sampled_from([-1, 1, 2, -2, 5, 0])))
            name = draw(st.sampled_from(["rle", "pack"]))
            params = {"src_size": size}
            if name == "pack":
                params["byte_count"] = draw(st.sampled_from([1, 2]))
            case.update(dtype=T, segs=segs, chain=[[name, params], ["bytes", {}]])
        elif what == "strings_missing":
            segs = draw(st_string_segs(tier, allow_short=False))
            uniq = list(dict.fromkeys(expand(segs)))
            drop = draw(st.integers(0, len(uniq) - 1))
            strings = uniq[:drop] + uniq[drop + 1 :] if draw(st.integers(0, 4)) else uniq
            strings = draw(st.permutations(strings))
            case.update(kind="str", dtype="U", segs=segs, chain=[["strings", {"strings": strings, "data": [["bytes", {}]], "offset": [["bytes", {}]]}]])
        elif what == "strings_on_int":
            T = draw(st.sampled_from(INT_TYPES))
            case.update(dtype=T, segs=draw(st_int_segs(T, tier, wide=False, small_only=True, allow_short=False)), chain=[["strings", {"strings": None, "data": [["bytes", {}]], "offset": [["bytes", {}]]}]])
        elif what in ("pack_uint32_high", "pack_signed_on_uint32"):
            T = draw(st.sampled_from(["uint32", "uint64"]))
            allow = not is_open("C05-F3")
            vals = draw(st.lists(st.integers(0, 70000), min_size=1, max_size=5))
            if allow:
                vals = vals + [draw(st.sampled_from([2**31, 2**31 + 5, 2**32 - 1]))]
            unsigned = False if what == "pack_signed_on_uint32" else draw(st.sampled_from([None, True]))
            case.update(dtype=T, segs=[["lit", vals]], chain=[["pack", {"byte_count": 2, "is_unsigned": unsigned}], ["bytes", {}]])
        elif what == "pack_bad_byte_count":
            T = draw(st.sampled_from(["int8", "int16", "int32", "uint8", "uint16"]))
            segs = draw(st_int_segs(T, tier, wide=False, small_only=True, allow_short=False))
            case.update(dtype=T, segs=segs, chain=[["pack", {"byte_count": draw(st.sampled_from([0, 3, 4, 8, -1]))}], ["bytes", {}]])
        elif what == "delta_origin_out_of_range":
            T = draw(st.sampled_from(INT_TYPES[:3] + INT_TYPES[4:7]))
            lo, hi = RANGE[T]
            origin = draw(st.sampled_from([hi + 1, lo - 1, hi + 1000, lo - 2**40, lo, hi, 0]))
            segs = draw(st_int_segs(T, tier, wide=False, allow_short=False))
            case.update(dtype=T, segs=segs, chain=[["delta", {"origin": origin}], ["bytes", {}]])
        return case

    return gen()


# --------------------------------------------------------------------------
# enumeration: every integer type x every chain shape x boundary arrays
# --------------------------------------------------------------------------
def _boundary_arrays(dtype):
    lo, hi = RANGE[CAP[dtype]]
    lo, hi = max(lo, RANGE[dtype][0]), min(hi, RANGE[dtype][1])
    inner = sorted(v for v in BOUNDARY_SET if lo <= v <= hi)
    arrays = [
        [["lit", [lo]]],
        [["lit", [hi]]],
        [["lit", [lo, hi]]],
        [["lit", [hi, lo, 0 if lo <= 0 else lo]]],
        [["run", lo, 3], ["run", hi, 2], ["run", lo, 1]],
        [["ramp", hi, -1, 4], ["ramp", lo, 1, 4]],
        [["lit", inner]],
        [["lit", list(reversed(inner))], ["run", 0 if lo <= 0 else lo, 5]],
        [],
    ]
    return arrays


def enum_int_boundaries(tier):
    for dtype in INT_TYPES:
        for delta in (False, True):
            for rle in (False, True):
                for pack in (None, 1, 2):
                    chain = []
                    if delta:
                        chain.append(["delta", {}])
                    if rle:
                        chain.append(["rle", {}])
                    if pack:
                        chain.append(["pack", {"byte_count": pack}])
                    chain.append(["bytes", {}])
                    for segs in _boundary_arrays(dtype):
                        narrowed = []
                        if pack and not delta and not rle and dtype in ("uint32", "uint64") and findings.is_open("C05-F3"):
                            # IntegerPacking directly on uint32 values >= 2**31: class of C05-F3
                            flat = expand(segs)
                            if any(v > I32_MAX for v in flat):
                                narrowed.append("C05-F3")
                                segs = [["lit", [min(v, I32_MAX) for v in flat]]]
                        if pack == 1:
                            # the int32 extremes themselves only for the plain chain and single values
                            plain = not delta and not rle and len(expand(segs)) == 1
                            segs = _cap_extremes(segs, keep=1 if plain else 0)
                        segs = _narrow_f6(dtype, chain, segs, narrowed)
                        yield {"kind": "int", "dtype": dtype, "segs": segs, "chain": chain, "explicit": "copy", "narrowed": narrowed}


# --------------------------------------------------------------------------
# compress()
# --------------------------------------------------------------------------
def _col_array(col, rows):
    return mk_array(col["kind"], col["dtype"], col["segs"], rows)


def _col_layout(col):
    layout = col.get("layout") or "plain"
    return layout if layout in ("strided", "readonly") else "plain"


def _mask_array(col, n):
    if col.get("mask") is None:
        return None
    vals = expand(col["mask"])
    if not vals:
        vals = [0]
    vals = (vals * (n // len(vals) + 1))[:n]
    return np.array(vals, dtype=np.uint8)


def _targets(case):
    """(block name, category name) of every category the component holds (levels block / file may
    hold a second category and a second block with the same columns)."""
    level, extra = case["level"], case.get("extra")
    out = [("blk", "cat")]
    if level in ("block", "file") and extra in ("cat2", "both"):
        out.append(("blk", "cat2"))
    if level == "file" and extra in ("blk2", "both"):
        out.append(("blk2", "cat"))
    return out


def _build_component(case):
    """-> (component, [(column name, data array (native copy, never handed to biotite), mask array or None)])"""
    from biotite.structure.io.pdbx import BinaryCIFBlock, BinaryCIFCategory, BinaryCIFColumn, BinaryCIFData, BinaryCIFFile

    level = case["level"]
    rows = case.get("rows")
    cols = case["columns"]
    arrays = []
    for c in cols:
        a = _col_array(c, rows)
        arrays.append((c["name"], a, _mask_array(c, len(a))))

    def given(c, a):
        return apply_layout(a.copy(), _col_layout(c))

    def column(c, a, m):
        return BinaryCIFColumn(BinaryCIFData(given(c, a)), None if m is None else BinaryCIFData(m.copy()))

    if level == "data":
        name, a, _ = arrays[0]
        return BinaryCIFData(given(cols[0], a)), [(name, a, None)]
    if level == "column":
        name, a, m = arrays[0]
        return column(cols[0], a, m), [(name, a, m)]

    def category():
        return BinaryCIFCategory({name: column(c, a, m) for c, (name, a, m) in zip(cols, arrays)})

    if level == "category":
        return category(), arrays
    blocks = {}
    for blk, cat in _targets(case):
        blocks.setdefault(blk, {})[cat] = category()
    if level == "block":
        return BinaryCIFBlock(blocks["blk"]), arrays
    return BinaryCIFFile({blk: BinaryCIFBlock(cats) for blk, cats in blocks.items()}), arrays


def _pack_component(comp):
    """Every component is written through BinaryCIFFile.write (wrapped into the missing
    outer levels), so that a failure to serialise is raised by biotite itself."""
    from biotite.structure.io.pdbx import BinaryCIFBlock, BinaryCIFCategory, BinaryCIFColumn, BinaryCIFData, BinaryCIFFile

    if isinstance(comp, BinaryCIFData):
        comp = BinaryCIFColumn(comp)
    if isinstance(comp, BinaryCIFColumn):
        comp = BinaryCIFCategory({"c0": comp})
    if isinstance(comp, BinaryCIFCategory):
        comp = BinaryCIFBlock({"cat": comp})
    if isinstance(comp, BinaryCIFBlock):
        comp = BinaryCIFFile({"blk": comp})
    buf = io.BytesIO()
    comp.write(buf)
    return buf.getvalue()


def _unpack_component(level, blob):
    from biotite.structure.io.pdbx import BinaryCIFFile

    f = BinaryCIFFile.read(io.BytesIO(blob))
    if level == "file":
        return f
    if level == "block":
        return f["blk"]
    if level == "category":
        return f["blk"]["cat"]
    if level == "column":
        return f["blk"]["cat"]["c0"]
    return f["blk"]["cat"]["c0"].data


def _component_keys(level, comp):
    """The names of the blocks / categories a block or file holds: {block: [categories]}"""
    if level == "block":
        return {"blk": sorted(comp.keys())}
    if level == "file":
        return {blk: sorted(comp[blk].keys()) for blk in sorted(comp.keys())}
    return {}


def _columns_of(level, comp, names, target=("blk", "cat")):
    """-> {name: (data BinaryCIFData, mask BinaryCIFData|None)}"""
    if level == "data":
        return {names[0]: (comp, None)}
    if level == "column":
        return {names[0]: (comp.data, comp.mask)}
    cat = comp if level == "category" else comp[target[1]] if level == "block" else comp[target[0]][target[1]]
    return {n: (cat[n].data, cat[n].mask) for n in names}


def _default_tolerance():
    """The default of compress(..., float_tolerance=) as the signature (and with it the docstring) states it."""
    import inspect

    from biotite.structure.io.pdbx import compress

    try:
        d = inspect.signature(compress).parameters["float_tolerance"].default
    except (KeyError, TypeError, ValueError):
        return None
    return float(d) if isinstance(d, (int, float)) and not isinstance(d, bool) and 0 < d < 1 else None


def _case_tolerance(case):
    if case.get("tol_form") == "default":
        d = _default_tolerance()
        if d is not None:
            return d
    return 10.0 ** -case["tol_exp"]


def _tol_form(case):
    form = case.get("tol_form") or "positional"
    if form == "default" and _default_tolerance() is None:
        form = "positional"  # no default to be found in the signature: pass the tolerance
    return form


def _compress_payload(case):
    """Runs inside the worker or inside the sandbox child.  Returns picklable data."""
    from biotite.structure.io.pdbx import compress

    comp, _ = _build_component(case)
    if case.get("reread"):
        # the realistic route: a file that was read (lazily kept children, parameterised encodings)
        comp = _unpack_component(case["level"], _pack_component(comp))
    form = _tol_form(case)
    if form == "default":
        out = compress(comp)
    elif form == "keyword":
        out = compress(comp, float_tolerance=_case_tolerance(case))
    else:
        out = compress(comp, _case_tolerance(case))
    blob = _pack_component(out)
    return {"blob": blob, "type": type(out).__name__, "in_type": type(comp).__name__}


def _float_risky(a, tol):
    """True if `_get_decimal_places` may fail to terminate on this array (see notes/C05.md):
    the call then runs in a sacrificial subprocess with a timeout."""
    nz = np.abs(a[np.isfinite(a) & (a != 0)].astype(np.float64))
    if len(nz) == 0:
        return False
    if a.dtype == np.float32:
        return bool(nz.min() < 1e-10 or nz.max() > 1e10 or tol < 1e-6 * 0.99)
    return bool(nz.min() < 1e-100 or nz.max() > 1e100)


def _enc_names(encoding):
    out = []
    for e in encoding:
        nm = type(e).__name__.replace("Encoding", "")
        if nm == "IntegerPacking":
            nm += str(e.byte_count)
        out.append(nm)
    return "+".join(out)


COMPRESS_TIMEOUT_S = 8.0
COMPRESS_RETRY_TIMEOUT_S = 90.0


def run_compress(case):
    from vlib.sandbox import run_sandboxed

    o = Outcome()
    for fid in case.get("narrowed", []):
        o.exclude(fid)
    level = case["level"]
    tol = _case_tolerance(case)
    comp, arrays = _build_component(case)
    names = [n for n, _, _ in arrays]
    targets = _targets(case)
    o.label(f"level={level}", f"tol={tol:.0e}", "tol_form=" + _tol_form(case))
    o.label(f"categories={len(targets)}" if level in ("block", "file") else "categories=1")
    if case.get("reread"):
        o.label("compress_after_read")

    # may the call refuse?  only if an integer column holds values no 32-bit type can hold
    unrep = False
    for c, (_, a, _) in zip(case["columns"], arrays):
        if c["kind"] == "int" and not _fits([int(v) for v in a.tolist()], CAP[c["dtype"]]):
            unrep = True
    risky = any(a.dtype.kind == "f" and _float_risky(a, tol) for _, a, _ in arrays)
    if risky:
        o.label("sandboxed")
        status, value = run_sandboxed(_compress_payload, case, timeout=COMPRESS_TIMEOUT_S)
        if status == "timeout":
            # a slow machine is not a hang: once more with a bound far beyond any load factor seen
            # (the call itself needs well below a second)
            o.label("sandbox_retry_after_timeout")
            status, value = run_sandboxed(_compress_payload, case, timeout=COMPRESS_RETRY_TIMEOUT_S)
        if status == "timeout":
            o.fail("compress_terminates", f"compress() did not return within {COMPRESS_TIMEOUT_S:.0f} s and, tried again, not within {COMPRESS_RETRY_TIMEOUT_S:.0f} s")
            return o
        if status == "exc":
            if unrep:
                o.label("outcome=rejected:" + value[0])
                o.mark_nontrivial()
                return o
            o.fail("unexpected_exception", f"{value[0]}: {value[1]}")
            return o
        if status != "ok":
            o.fail("compress_terminates", f"compress() ended the process: {status} {value}")
            return o
        res = value
    elif unrep:
        # "rejected" = any exception
        try:
            res = _compress_payload(case)
        except Exception as e:  # noqa: BLE001
            o.label("outcome=rejected:" + type(e).__name__)
            o.mark_nontrivial()
            return o
    else:
        res = _compress_payload(case)
    o.check_eq(res["type"], res["in_type"], "compress_returns_same_type", "type of compress() result")

    back = _unpack_component(level, res["blob"])
    plain_comp = None
    if not unrep:
        plain_comp = _unpack_component(level, _pack_component(comp))
    if level in ("block", "file"):
        want_keys = {}
        for blk, cat in targets:
            want_keys.setdefault(blk, []).append(cat)
        want_keys = {blk: sorted(cats) for blk, cats in want_keys.items()}
        if level == "block":
            want_keys = {"blk": want_keys["blk"]}
        if not o.check_eq(_component_keys(level, back), want_keys, "compress_keeps_all_components", "blocks/categories of the compressed component"):
            return o

    nontrivial = False
    for ti, target in enumerate(targets):
        got = _columns_of(level, back, names, target)
        plain = None if plain_comp is None else _columns_of(level, plain_comp, names, target)
        where = "" if ti == 0 else f" (in {target[0]}/{target[1]})"
        for c, (name, a, m) in zip(case["columns"], arrays):
            data, mask = got[name]
            y = data.array
            sig = _enc_names(data.encoding)
            if ti == 0:
                o.label(f"col={c['kind']}:{c['dtype']}", f"chosen[{c['kind']}]={sig}", "col_layout=" + _col_layout(c))
            n_enc = len(data.encoding)
            if c["kind"] == "str":
                se = data.encoding[0]
                n_enc += len(getattr(se, "data_encoding", None) or []) + len(getattr(se, "offset_encoding", None) or [])
                if ti == 0 and hasattr(se, "data_encoding"):
                    o.label("chosen[str.data]=" + _enc_names(se.data_encoding), "chosen[str.offset]=" + _enc_names(se.offset_encoding))
                o.check(y.shape == a.shape and _str_values(y) == a.tolist(), "compress_str_exact", lambda: f"{a.tolist()!r:.300} -> {y.tolist()!r:.300} via {data.encoding!r:.300}{where}")
                distinct = len(set(a.tolist()))
            elif c["kind"] == "int":
                clause = UNREP if unrep else "compress_int_exact"
                o.check(
                    y.dtype.kind in "iu" and [int(v) for v in y.tolist()] == [int(v) for v in a.tolist()],
                    clause,
                    lambda: f"{c['dtype']} {a.tolist()!r:.300} -> {y.tolist()!r:.300} via {sig}{where}",
                )
                distinct = len(set(a.tolist()))
                lo, hi = RANGE[c["dtype"]]
                if any(int(v) in BOUNDARY_SET or int(v) in (lo, hi) for v in a.tolist()):
                    nontrivial = True
                    if ti == 0:
                        o.label("int_boundary")
            else:
                distinct = len(set(map(repr, a.tolist())))
                if not o.check(y.shape == a.shape and y.dtype.kind == "f", "compress_within_tolerance", f"shape/dtype {y.shape} {y.dtype}{where}"):
                    continue
                xs = a.astype(np.float64)
                ys = y.astype(np.float64)
                fin = np.isfinite(xs)
                if not fin.all():
                    if ti == 0:
                        o.label("float_nonfinite")
                    nontrivial = True
                    bad = [i for i in np.nonzero(~fin)[0] if not ((math.isnan(xs[i]) and math.isnan(ys[i])) or xs[i] == ys[i])]
                    o.check(
                        not bad,
                        "compress_nonfinite_lossless_or_rejected",
                        lambda: f"{a.tolist()!r:.300} -> {y.tolist()!r:.300} via {sig}{where}",
                    )
                eps = EPS["float32"] if a.dtype == np.float32 else EPS["float64"]
                bound = tol * np.abs(xs) + 4 * eps * np.abs(xs)
                with np.errstate(all="ignore"):
                    err = np.abs(ys - xs)
                bad = [i for i in np.nonzero(fin)[0] if not err[i] <= bound[i]]
                o.check(
                    not bad,
                    "compress_within_tolerance",
                    lambda: f"tol {tol}: {xs[bad[0]]!r} -> {ys[bad[0]]!r} (rel. error {err[bad[0]] / abs(xs[bad[0]]) if xs[bad[0]] else err[bad[0]]!r}) via {sig}{where}; array {a.tolist()!r:.200}",
                )
                # (whether a column that is not stored as fixed point comes back bit-identical is
                # recorded only: the property promises the tolerance, nothing more)
                if ti == 0:
                    o.label("float_fixed_point" if "FixedPoint" in sig else "float_kept_as_bytes")
                    o.label("float_bit_identical" if _same_float_bits(a, y) else "float_within_tolerance_only")
            if len(a) >= 3 and distinct >= 2 and n_enc >= 2:
                nontrivial = True
            # mask
            if m is not None:
                if o.check(mask is not None, "compress_mask_exact", "mask lost by compress()" + where):
                    o.check(np.asarray(mask.array).tolist() == m.tolist(), "compress_mask_exact", lambda: f"mask {m.tolist()!r:.200} -> {mask.array.tolist()!r:.200}{where}")
                    if ti == 0:
                        o.label("masked", "chosen[mask]=" + _enc_names(mask.encoding))
            else:
                o.check(mask is None, "compress_mask_exact", "mask appeared" + where)
            # the uncompressed component decodes to the same arrays
            if plain is not None:
                pd = plain[name][0].array
                if c["kind"] == "float":
                    o.check(_same_float_bits(pd, a), "uncompressed_roundtrip_exact", lambda: f"{a.tolist()!r:.200} -> {pd.tolist()!r:.200}{where}")
                else:
                    o.check(np.asarray(pd).tolist() == a.tolist(), "uncompressed_roundtrip_exact", lambda: f"{a.tolist()!r:.200} -> {pd.tolist()!r:.200}{where}")
    if unrep:
        o.label("outcome=accepted_unrepresentable")
    o.mark_nontrivial(nontrivial)
    return o


def st_compress_float_segs(dtype, tier, allow_nonfinite):
    width = 32 if dtype == "float32" else 64
    coords = st.integers(-99999, 99999).map(lambda k: k / 1000.0)
    cents = st.integers(0, 10000).map(lambda k: k / 100.0)

    def sci(lo, hi):
        return st.tuples(st.integers(-9999999, 9999999), st.integers(lo, hi)).map(lambda t: float(f"{t[0]}e{t[1] - 6}"))

    generic = sci(-8, 8)
    wide = sci(-30, 30)
    special = st.sampled_from([0.0, -0.0, 1.0, -1.0, 0.5, 1e-5, 1e5, 2147.483647, 21474836.47, 1e-30, 1e30, 123456.789])
    nonfinite = st.sampled_from([math.nan, math.inf, -math.inf])
    # needs more than 18 decimals: the fixed-point factor leaves the 64-bit integer range
    tiny = st.tuples(st.integers(1, 999), st.integers(19, 30)).map(lambda t: float(f"{t[0]}e-{t[1]}"))
    # fixed-point images at the int32 limits (the partner values force 0..3 decimals)
    edge = st.sampled_from(
        [2147483648.0, 2147483647.0, -2147483648.0, -2147483649.0, 2147483.648, 2147483.647, -2147483.648, 21474836.47, 21474836.48, 1.0, 3.0, 0.5, 0.25, 0.001]
    )
    # the ends of the dynamic range of the type (subnormals, the largest finite values)
    if dtype == "float32":
        extreme = st.one_of(sci(-44, 38), st.sampled_from([F32_MAX, -F32_MAX, 1e-45, 1.1754944e-38, 1e38, -1e-38, 1.0]))
    else:
        extreme = st.one_of(
            sci(-320, 308).filter(math.isfinite),
            st.sampled_from([1.7976931348623157e308, -1.7976931348623157e308, 5e-324, 2.2250738585072014e-308, 1e300, -1e-300, F32_MAX, 1.0]),
        )
    flavour = st.sampled_from(["coords", "coords", "cents", "generic", "generic", "wide", "mixed", "tiny", "edge", "extreme", "precise"])
    # "precise": one number of decimals (5..9) for the whole column, all of them significant, image within
    # int32 - fixed point is possible only with that many decimals, i.e. only if the tolerance is honoured
    precise_d = st.integers(5, 9)

    def segs_for(fl, d=None):
        if fl == "precise" and d is None:
            return precise_d.flatmap(lambda dd: segs_for("precise", dd))
        if fl == "precise":
            pairs = [(9, st.integers(-2 * 10**9, 2 * 10**9).map(lambda k: k / 10.0**d)), (1, st.integers(-99, 99).map(float))]
        elif fl == "coords":
            pairs = [(9, coords), (1, special)]
        elif fl == "cents":
            pairs = [(9, cents), (1, special)]
        elif fl == "generic":
            pairs = [(8, generic), (2, special)]
        elif fl == "wide":
            pairs = [(7, wide), (2, special), (1, generic)]
        elif fl == "tiny":
            pairs = [(9, tiny), (1, st.just(0.0))]
        elif fl == "edge":
            pairs = [(9, edge), (1, coords)]
        elif fl == "extreme":
            pairs = [(8, extreme), (1, special), (1, coords)]
        else:
            pairs = [(3, coords), (3, generic), (2, wide), (2, special)]
        if allow_nonfinite:
            pairs.append((2, nonfinite))
        elem = _weighted(pairs)
        maxrun = 10 if tier == "quick" else 50
        maxlit = 12 if tier == "quick" else 40
        big = 120 if tier == "quick" else 1000
        seg = st.one_of(
            st.lists(elem, min_size=1, max_size=maxlit).map(lambda l: ["lit", l]),
            st.tuples(elem, st.integers(2, maxrun)).map(lambda t: ["run", t[0], t[1]]),
            st.tuples(coords, st.sampled_from([0.001, 0.5, 1.0, -0.25, 3.8]), st.integers(2, big)).map(lambda t: ["ramp", t[0], t[1], t[2]]),
            st.tuples(st.integers(0, 2**32 - 1), st.integers(3, big), st.sampled_from([1.0, 50.0, 999.0, 1e-3, 1e5]), st.sampled_from([0, 1, 2, 3, 3, 5])).map(
                lambda t: ["randcoord", t[0], t[1], t[2], t[3]]
            ),
        )
        return _weighted([(1, st.just([])), (2, elem.map(lambda v: [["lit", [v]]])), (27, st.lists(seg, min_size=1, max_size=4))])

    return flavour.flatmap(segs_for)


def st_compress_int_segs(dtype, tier):
    lo, hi = RANGE[CAP[dtype]]
    lo, hi = max(lo, RANGE[dtype][0]), min(hi, RANGE[dtype][1])
    big = 300 if tier == "quick" else 1500
    seed = st.integers(0, 2**32 - 1)
    n = st.integers(3, big)
    small_hi = min(hi, 20)
    # large start values: a ramp inside uint8 is never worth a chain
    start = st.sampled_from([v for v in (0, 1, -5, 1000, 30000, 10**6, 10**6, hi - big * 3, lo, -70000) if lo <= v <= hi - big * 3] or [lo])
    seg = st.one_of(
        st.tuples(start, st.sampled_from([1, 1, 2, 3]), n).map(lambda t: ["ramp", t[0], t[1], t[2]]),
        st.tuples(st.integers(max(lo, -3), small_hi), n).map(lambda t: ["run", t[0], t[1]]),
        st.tuples(seed, n).map(lambda t: ["randint", t[0], t[1], max(lo, 0), small_hi]),
        st.tuples(seed, n, st.sampled_from([1, 3, 200])).map(lambda t: ["randwalk", t[0], t[1], (lo + hi) // 2, min(t[2], (hi - lo) // (4 * big) or 0)]),
        st.tuples(seed, st.integers(3, 30)).map(lambda t: ["randint", t[0], t[1], lo, hi]),
    )
    spikes = [v for v in (127, 128, 255, 256, 300, 32767, 32768, 65535, 65536, 10**6, hi, -129, -32769, lo) if lo <= v <= hi]
    spike = st.one_of(st.just([]), st.lists(st.sampled_from(spikes), min_size=1, max_size=3).map(lambda l: [["lit", l]]))
    return st.tuples(st.lists(seg, min_size=1, max_size=3), spike).map(lambda t: t[0] + t[1])


def st_mask(tier):
    elem = st.sampled_from([0, 0, 0, 1, 2])
    seg = st.one_of(
        st.lists(elem, min_size=1, max_size=6).map(lambda l: ["lit", l]),
        st.tuples(elem, st.integers(2, 12)).map(lambda t: ["run", t[0], t[1]]),
    )
    return st.one_of(st.none(), st.lists(seg, min_size=1, max_size=3))


def st_compress_column(tier, name, allow_wide_int=True):
    @st.composite
    def gen(draw):
        kind = draw(st.sampled_from(["int", "int", "float", "float", "float", "str"]))
        col = {"name": name, "kind": kind, "mask": None}
        if kind == "int":
            dtype = draw(st.sampled_from(INT_TYPES))
            wide = allow_wide_int and dtype in ("int64", "uint64") and draw(st.integers(0, 7)) == 0
            if not wide and draw(st.booleans()):
                col.update(dtype=dtype, segs=draw(st_compress_int_segs(dtype, tier)))
            else:
                col.update(dtype=dtype, segs=draw(st_int_segs(dtype, tier, wide=wide)))
            if dtype == "uint32" and draw(st.integers(0, 11)) == 0:
                # long array with one value >= 2**31: integer packing is tried on the raw uint32 array
                col["segs"] = [["lit", [draw(st.sampled_from([2**31, 2**31 + 5, 2**32 - 1]))]], ["run", draw(st.integers(0, 3)), draw(st.sampled_from([33000, 40000, 70000]))]]
                col["long"] = True
        elif kind == "float":
            dtype = draw(st.sampled_from(FLOAT_TYPES))
            col.update(dtype=dtype, segs=draw(st_compress_float_segs(dtype, tier, draw(st.integers(0, 2)) == 0)))
        else:
            col.update(dtype="U", segs=draw(st_string_segs(tier)))
        col["layout"] = draw(st_layout(kind, col["dtype"], be=False))
        return col

    return gen()


def st_compress_case(tier):
    @st.composite
    def gen(draw):
        level = draw(st.sampled_from(["data", "data", "column", "column", "category", "block", "file"]))
        case = {"level": level, "tol_exp": draw(st.sampled_from([1, 2, 3, 4, 5, 6, 6, 6, 7, 8, 9])), "rows": None, "narrowed": []}
        # how the tolerance is passed: positional, as keyword, or not at all (the documented default 1e-6)
        case["tol_form"] = draw(st.sampled_from(["positional"] * 6 + ["keyword"] * 3 + ["default"]))
        if case["tol_form"] == "default":
            case["tol_exp"] = 6
        # compress() of a component that was written and read again (1 in 5)
        case["reread"] = draw(st.sampled_from([False] * 4 + [True]))
        # a second category / a second block with the same columns (levels block and file)
        case["extra"] = draw(st.sampled_from([None, None, None, "cat2", "blk2", "both"])) if level in ("block", "file") else None
        if level in ("data", "column"):
            col = draw(st_compress_column(tier, "c0"))
            if level == "column":
                col["mask"] = draw(st_mask(tier))
            case["columns"] = [col]
        else:
            ncol = draw(st.integers(1, 4))
            cols = [draw(st_compress_column(tier, f"c{i}")) for i in range(ncol)]
            for c in cols:
                c["mask"] = draw(st_mask(tier))
            case["columns"] = cols
            long = [len(expand(c["segs"])) for c in cols if c.get("long")]
            case["rows"] = long[0] if long else draw(st.one_of(st.integers(0, 3), st.integers(4, 40), st.integers(41, 200 if tier == "quick" else 2000)))
        return case

    return gen()


# --------------------------------------------------------------------------
# serialisation of components and files
# --------------------------------------------------------------------------
def st_ser_column(tier, name):
    @st.composite
    def gen(draw):
        kind = draw(st.sampled_from(["int", "int", "float", "str"]))
        col = {"name": name, "kind": kind}
        if kind == "int":
            dtype = draw(st.sampled_from(INT_TYPES))
            chain = draw(st_int_chain())
            segs = draw(st_int_segs(dtype, tier, wide=False, allow_short=False))
            if _has_pack1(chain):
                segs = _cap_extremes(segs, keep=0, limit=1 << 16)
            if chain[0][0] == "delta":
                flat = [min(max(v, RANGE[dtype][0]), RANGE[dtype][1]) for v in expand(segs)]
                if flat and _step_outside_int32(flat + flat[:1]):
                    # (rows are filled by repeating the values) a step no int32 holds may be refused: tested elsewhere
                    segs = [["lit", [v % 100000 for v in flat]]]
            if chain[0][0] == "delta" and dtype == "uint64":
                chain = chain[1:]  # keep clear of C05-F6 (tested elsewhere)
            if chain[0][0] == "pack" and dtype in ("uint32", "uint64"):
                chain = [["rle", {}]] + chain  # keep clear of C05-F3 (tested elsewhere)
            col.update(dtype=dtype, segs=segs, chain=chain)
        elif kind == "float":
            dtype = draw(st.sampled_from(FLOAT_TYPES))
            if draw(st.booleans()):
                # lossless fixed point: values k / 2**j with factor 2**j
                j = draw(st.integers(0, 6))
                ks = draw(st.lists(st.integers(-(2**20), 2**20), min_size=1, max_size=8))
                col.update(dtype=dtype, segs=[["lit", [k / 2**j for k in ks]]], chain=[["fixed", {"factor": 2**j, "src_type": None}]] + draw(st_int_chain()))
                if _has_pack1(col["chain"]):
                    col["segs"] = [["lit", [(k % 5000) / 2**j for k in ks]]]
            else:
                elem = st_float_bits(dtype)
                col.update(dtype=dtype, segs=[["lit", draw(st.lists(elem, min_size=1, max_size=8))]], chain=[["bytes", {}]])
        else:
            col.update(dtype="U", segs=draw(st_string_segs(tier, allow_short=False)), chain=[["strings", {"strings": None, "data": draw(st_int_chain()), "offset": draw(st_int_chain())}]])
        mask = draw(st_mask(tier))
        col["mask"] = None if mask is None else {"segs": mask, "chain": draw(st.sampled_from([None, [["bytes", {}]], [["rle", {}], ["bytes", {}]], [["delta", {}], ["rle", {}], ["pack", {"byte_count": 1}], ["bytes", {}]]]))}
        return col

    return gen()


NAME_POOL = ["a", "atom_site", "x1", "B", "entity", "Cartn_x", "label_é", "n.m", "with space", "1abc", "struct_conf", "q_r_s"]


def st_serialize_case(tier):
    @st.composite
    def gen(draw):
        blocks = []
        nblocks = draw(st.integers(1, 2))
        bnames = draw(st.lists(st.sampled_from(NAME_POOL + ["1L2Y", "", "_lead"]), min_size=nblocks, max_size=nblocks, unique=True))
        for bn in bnames:
            ncat = draw(st.integers(0, 3))
            cnames = draw(st.lists(st.sampled_from(NAME_POOL), min_size=ncat, max_size=ncat, unique=True))
            cats = []
            for cn in cnames:
                ncol = draw(st.integers(1, 4))
                colnames = draw(st.lists(st.sampled_from(NAME_POOL + ["_u", ""]), min_size=ncol, max_size=ncol, unique=True))
                rows = draw(st.one_of(st.integers(1, 3), st.integers(4, 30 if tier == "quick" else 200)))
                cats.append({"name": cn, "rows": rows, "columns": [draw(st_ser_column(tier, n)) for n in colnames]})
            blocks.append({"name": bn, "categories": cats})
        return {"blocks": blocks}

    return gen()


def _build_file(case):
    from biotite.structure.io.pdbx import BinaryCIFBlock, BinaryCIFCategory, BinaryCIFColumn, BinaryCIFData, BinaryCIFFile

    truth = {}
    blocks = {}
    for b in case["blocks"]:
        cats = {}
        for c in b["categories"]:
            cols = {}
            for col in c["columns"]:
                a = mk_array(col["kind"], col["dtype"], col["segs"], c["rows"])
                data = BinaryCIFData(a, [mk_enc(s) for s in col["chain"]])
                mask = None
                m = None
                if col["mask"] is not None:
                    vals = expand(col["mask"]["segs"])
                    vals = (vals * (c["rows"] // len(vals) + 1))[: c["rows"]]
                    m = np.array(vals, dtype=np.uint8)
                    mask = BinaryCIFData(m, None if col["mask"]["chain"] is None else [mk_enc(s) for s in col["mask"]["chain"]])
                cols[col["name"]] = BinaryCIFColumn(data, mask)
                truth[(b["name"], c["name"], col["name"])] = (a, m, col["kind"])
            cats[c["name"]] = BinaryCIFCategory(cols)
        blocks[b["name"]] = BinaryCIFBlock(cats)
    return BinaryCIFFile(blocks), truth


def run_serialize(case):
    from biotite.structure.io.pdbx import BinaryCIFBlock, BinaryCIFCategory, BinaryCIFColumn, BinaryCIFData, BinaryCIFFile

    o = Outcome()
    f, truth = _build_file(case)
    has_nan = any(kind == "float" and bool(np.isnan(a).any()) for a, _, kind in truth.values())
    buf = io.BytesIO()
    f.write(buf)
    blob = buf.getvalue()
    g = BinaryCIFFile.read(io.BytesIO(blob))
    ncols = len(truth)
    o.label(f"blocks={len(case['blocks'])}", "columns=0" if ncols == 0 else "columns=1-3" if ncols < 4 else "columns>=4")
    if has_nan:
        o.label("has_nan")

    o.check_eq(sorted(g.keys()), sorted(b["name"] for b in case["blocks"]), "file_roundtrip_equal", "block names")
    masked = lossy_chain = False
    for b in case["blocks"]:
        gb = g[b["name"]]
        o.check_eq(sorted(gb.keys()), sorted(c["name"] for c in b["categories"]), "file_roundtrip_equal", f"category names of block {b['name']!r}")
        for c in b["categories"]:
            gc = gb[c["name"]]
            o.check_eq(sorted(gc.keys()), sorted(col["name"] for col in c["columns"]), "file_roundtrip_equal", f"column names of {c['name']!r}")
            o.check_eq(gc.row_count, c["rows"], "file_roundtrip_equal", "row_count")
            for col in c["columns"]:
                a, m, kind = truth[(b["name"], c["name"], col["name"])]
                gcol = gc[col["name"]]
                y = gcol.data.array
                o.label("col_chain=" + chain_sig(col["chain"]).split("[")[0])
                if len(col["chain"]) >= 2:
                    lossy_chain = True
                if kind == "float":
                    o.check(_same_float_bits(a, y.astype(a.dtype)) and y.dtype.kind == "f", "column_array_roundtrip", lambda: f"{col['name']!r}: {a.tolist()!r:.200} -> {y.tolist()!r:.200}")
                elif kind == "int":
                    o.check(y.dtype.kind in "iu" and [int(v) for v in y.tolist()] == [int(v) for v in a.tolist()], "column_array_roundtrip", lambda: f"{col['name']!r}: {a.tolist()!r:.200} -> {y.tolist()!r:.200}")
                else:
                    o.check(y.shape == a.shape and _str_values(y) == a.tolist(), "column_array_roundtrip", lambda: f"{col['name']!r}: {a.tolist()!r:.200} -> {y.tolist()!r:.200}")
                if m is None:
                    o.check(gcol.mask is None, "mask_roundtrip", f"{col['name']!r}: mask appeared")
                else:
                    masked = True
                    if o.check(gcol.mask is not None, "mask_roundtrip", f"{col['name']!r}: mask lost"):
                        o.check_eq(gcol.mask.array.tolist(), m.tolist(), "mask_roundtrip", f"mask of {col['name']!r}")
                        o.label("mask_values=" + "".join(str(v) for v in sorted(set(m.tolist()))))
                # encodings read back equal to the (now parameterised) encodings that were written
                fcol = f[b["name"]][c["name"]][col["name"]]
                o.check(gcol.data.encoding == fcol.data.encoding, "encoding_serialize_roundtrip", lambda: f"{fcol.data.encoding!r:.300} -> {gcol.data.encoding!r:.300}")
                col_nan = kind == "float" and bool(np.isnan(a).any())
                if not col_nan:
                    o.check(gcol == fcol, "component_equal_after_roundtrip", f"column {col['name']!r} != written column")
                    # component level, through msgpack, without the file
                    d2 = BinaryCIFData.deserialize(_msgpack_roundtrip(fcol.data.serialize()))
                    o.check(d2 == fcol.data, "component_equal_after_roundtrip", f"BinaryCIFData of {col['name']!r}")
                    c2 = BinaryCIFColumn.deserialize(_msgpack_roundtrip(fcol.serialize()))
                    o.check(c2 == fcol, "component_equal_after_roundtrip", f"BinaryCIFColumn {col['name']!r}")
                    o.check((c2.mask is None) == (m is None), "mask_roundtrip", "column-level serialisation changed mask presence")
            if not has_nan:
                fc = f[b["name"]][c["name"]]
                cat2 = BinaryCIFCategory.deserialize(_msgpack_roundtrip(fc.serialize()))
                o.check(cat2 == fc, "component_equal_after_roundtrip", f"BinaryCIFCategory {c['name']!r}")
                o.check_eq(cat2.row_count, c["rows"], "component_equal_after_roundtrip", "row_count of deserialised category")
        if not has_nan:
            fb = f[b["name"]]
            b2 = BinaryCIFBlock.deserialize(_msgpack_roundtrip(fb.serialize()))
            o.check(b2 == fb, "component_equal_after_roundtrip", f"BinaryCIFBlock {b['name']!r}")
    if not has_nan:
        o.check(g == f, "file_roundtrip_equal", "BinaryCIFFile.read(write(f)) != f")
        o.check(f == g, "file_roundtrip_equal", "f != BinaryCIFFile.read(write(f))")
        # a file that was read (now fully deserialised) and written again still reads back equal
        buf2 = io.BytesIO()
        g.write(buf2)
        h = BinaryCIFFile.read(io.BytesIO(buf2.getvalue()))
        o.check(h == f, "file_roundtrip_equal", "second write/read generation differs")
    # a freshly read, untouched (lazily kept) file is written back to the same content
    buf3 = io.BytesIO()
    BinaryCIFFile.read(io.BytesIO(blob)).write(buf3)
    k = BinaryCIFFile.read(io.BytesIO(buf3.getvalue()))
    if not has_nan:
        o.check(k == f, "file_roundtrip_equal", "lazy rewrite differs")
    # as_array() of a masked column with a replacement value: masked rows carry it, the others the data,
    # and the column itself is left as it was (checked through a second write/read of the same object)
    probed = 0
    for b in case["blocks"]:
        for c in b["categories"]:
            for col in c["columns"]:
                a, m, kind = truth[(b["name"], c["name"], col["name"])]
                if m is None or kind == "str" or len(a) == 0:
                    continue
                fcol = f[b["name"]][c["name"]][col["name"]]
                fill = 77 if kind == "int" and np.can_cast(np.min_scalar_type(77), a.dtype) else (0.5 if kind == "float" else 1)
                for dt in (None, a.dtype):
                    got = fcol.as_array(masked_value=fill) if dt is None else fcol.as_array(dt, masked_value=fill)
                    want = np.where(np.asarray(m) != 0, np.array(fill, dtype=a.dtype), a)
                    okv = _same_float_bits(want, np.asarray(got).astype(a.dtype)) if kind == "float" else np.asarray(got).tolist() == want.tolist()
                    o.check(okv, "as_array_masked_value", lambda: f"as_array(masked_value={fill}) of {col['name']!r}: {np.asarray(got).tolist()!r:.200}, want {want.tolist()!r:.200}")
                stored = fcol.data.array
                okd = _same_float_bits(a, stored.astype(a.dtype)) if kind == "float" else stored.tolist() == a.tolist()
                o.check(okd, "column_array_roundtrip", lambda: f"as_array(masked_value=...) changed the stored data of {col['name']!r}: {stored.tolist()!r:.200}, was {a.tolist()!r:.200}")
                probed += 1
    if probed:
        o.label("as_array_with_masked_value")
    # the written object is edited in place (rows reversed: same value set, so every encoding
    # parameter stays valid) and written again: the second file holds what the object shows at that
    # time.  Whether `.array` hands out the live buffer is not documented: a column counts as edited
    # only if the object, asked again, shows the new rows (otherwise: label edit_not_accepted).
    truth = {key: (np.array(a, copy=True), None if m is None else np.array(m, copy=True), kind) for key, (a, m, kind) in truth.items()}

    def same_rows(kind, got, want):
        got = np.asarray(got)
        if got.shape != want.shape:
            return False
        if kind == "float":
            return got.dtype.kind == "f" and _same_float_bits(want, got.astype(want.dtype))
        if kind == "int":
            return got.dtype.kind in "iu" and [int(v) for v in got.tolist()] == [int(v) for v in want.tolist()]
        return _str_values(got) == want.tolist()

    def reverse_in_place(arr):
        try:
            arr[:] = arr[::-1].copy()
        except (ValueError, TypeError):  # read-only or otherwise immutable representation
            pass

    expect = {}  # key -> (rows the data must show in the second file, rows of the mask or None)
    for b in case["blocks"]:
        for c in b["categories"]:
            for col in c["columns"]:
                key = (b["name"], c["name"], col["name"])
                a, m, kind = truth[key]
                # element-wise encodings keep their (already resolved) parameters valid for the
                # reversed rows; a Delta step does not (other differences) - such columns stay as they are
                chains = [col["chain"]] + ([col["mask"]["chain"]] if col.get("mask") and col["mask"].get("chain") else [])
                has_delta = '"delta"' in json.dumps(chains)  # also inside the nested chains of a StringArray
                if has_delta or len(a) < 2:
                    continue
                fcol = f[b["name"]][c["name"]][col["name"]]
                arr = fcol.data.array
                if isinstance(arr, np.ndarray) and arr.flags.writeable:
                    reverse_in_place(arr)
                if m is not None and fcol.mask is not None and isinstance(fcol.mask.array, np.ndarray) and fcol.mask.array.flags.writeable:
                    reverse_in_place(fcol.mask.array)
                # what does the object hold now?
                fcol = f[b["name"]][c["name"]][col["name"]]
                if same_rows(kind, fcol.data.array, a[::-1]):
                    want_a = a[::-1]
                elif same_rows(kind, fcol.data.array, a):
                    want_a = a
                else:
                    o.fail("column_array_roundtrip", f"{col['name']!r}: after reversing the rows of .array in place the column shows neither the old nor the new rows: {np.asarray(fcol.data.array).tolist()!r:.200}")
                    continue
                want_m = None
                if m is not None and fcol.mask is not None:
                    if same_rows("int", fcol.mask.array, m[::-1]):
                        want_m = m[::-1]
                    elif same_rows("int", fcol.mask.array, m):
                        want_m = m
                expect[key] = (want_a, want_m)
                changed = (want_a is not a and not same_rows(kind, a, a[::-1])) or (want_m is not None and want_m is not m and m.tolist() != m[::-1].tolist())
                o.label("edit_shown_by_object" if changed else "edit_not_accepted_or_palindrome")
    if expect:
        o.label("rewritten_after_in_place_edit")
        buf5 = io.BytesIO()
        f.write(buf5)
        g5 = BinaryCIFFile.read(io.BytesIO(buf5.getvalue()))
        for (bn, cn, coln), (want_a, want_m) in expect.items():
            kind = truth[(bn, cn, coln)][2]
            y = g5[bn][cn][coln]
            o.check(
                same_rows(kind, y.data.array, want_a),
                "file_roundtrip_equal",
                lambda: f"{coln!r} written again after an in-place edit: read {np.asarray(y.data.array).tolist()!r:.200}, the written object showed {want_a.tolist()!r:.200}",
            )
            if want_m is not None and y.mask is not None:
                o.check_eq(np.asarray(y.mask.array).tolist(), want_m.tolist(), "mask_roundtrip", f"mask of {coln!r} after an in-place edit")
    if masked:
        o.label("masked")
    o.mark_nontrivial(ncols >= 2 and (masked or lossy_chain))
    return o


# --------------------------------------------------------------------------
SUBS = [
    Sub(
        "int_chain",
        st_int_chain_case,
        run_chain,
        quick=2000,
        thorough=100000,
        rule="length >= 3, >= 2 distinct values and >= 2 encodings, or an element at a type boundary",
        clauses="decode(encode(x)) == x exactly for every integer chain (inferred and explicit parameters; contiguous, strided, read-only and big-endian input); encodings survive serialisation",
    ),
    Sub(
        "float_chain",
        st_float_chain_case,
        run_chain,
        quick=1500,
        thorough=70000,
        rule="as int_chain; non-finite elements count as boundary",
        clauses="FixedPoint within half a step, IntervalQuantization within one step inside [min, max] (outside: refused, clamped or kept), ByteArray bit-identical; then any integer chain",
    ),
    Sub(
        "string_chain",
        st_string_chain_case,
        run_chain,
        quick=800,
        thorough=40000,
        rule="length >= 3, >= 2 distinct strings, nested data/offset chains",
        clauses="StringArray with nested chains returns the strings exactly",
    ),
    Sub(
        "unrepresentable",
        st_unrepresentable_case,
        run_chain,
        quick=1000,
        thorough=50000,
        rule="the first encoding cannot hold a value or parameter of the input",
        clauses="values the target representation cannot hold are rejected or kept losslessly, never silently altered",
    ),
    Sub(
        "compress",
        st_compress_case,
        run_compress,
        quick=1000,
        thorough=40000,
        rule="a column of length >= 3 with >= 2 distinct values for which a chain of >= 2 encodings was chosen, or boundary/non-finite elements",
        clauses="compress() of data/column/category/block/file (one or several blocks/categories, fresh or read from a file, tolerance positional/keyword/default): ints, strings, masks exact; finite floats within the relative tolerance; non-finite lossless or rejected; terminates",
    ),
    Sub(
        "serialize",
        st_serialize_case,
        run_serialize,
        quick=400,
        thorough=15000,
        rule=">= 2 columns with a mask or a chain of >= 2 encodings",
        clauses="Data/Column(mask)/Category/Block/File written to msgpack and read back compare equal, arrays and masks equal",
    ),
]

# --------------------------------------------------------------------------
# input forms of BinaryCIFData: list / tuple / ndarray with values around the integer widths
# --------------------------------------------------------------------------
_FORM_VALUES = [
    [0, 1], [127, -128], [255, 0], [32767, -32768], [65535, 1], [2**31 - 1, -(2**31)], [2**31, 0], [2**32 - 1, 5],
    [3_000_000_000, 1], [2**40 + 7, 2], [-(2**31) - 1, 3], [2**63 - 1, 0], [-(2**63), 0], [7],
]


def enum_input_forms(tier):
    for vals in _FORM_VALUES:
        for form in ("list", "tuple", "ndarray", "ndarray_object_free"):
            yield {"values": vals, "form": form}


def run_input_forms(case):
    from biotite.structure.io.pdbx import BinaryCIFData

    o = Outcome()
    vals = case["values"]
    form = case["form"]
    if form == "list":
        arg = list(vals)
    elif form == "tuple":
        arg = tuple(vals)
    else:
        arg = np.array(vals, dtype=np.int64 if min(vals) < 0 or max(vals) < 2**63 else np.uint64)
    # the values arrive as 64-bit integers, whose documented BinaryCIF type is INT32 (UINT32 for uint64):
    # whatever lies within int32 has to be accepted
    holdable = min(vals) >= -(2**31) and max(vals) < 2**31
    o.label("form=" + form, "beyond_32bit" if (max(vals) >= 2**31 or min(vals) < -(2**31)) else "within_32bit", "holdable" if holdable else "not_holdable")
    # otherwise the only accepted outcomes: an exception (of any type), or the given values exactly
    # (never wrapped ones)
    try:
        data = BinaryCIFData(arg)
        held = [int(v) for v in np.asarray(data.array).tolist()]
    except Exception as e:  # noqa: BLE001
        if holdable:
            raise
        o.label("rejected_at_construction:" + type(e).__name__)
        o.mark_nontrivial()
        return o
    o.check_eq(held, [int(v) for v in vals], "unrepresentable_rejected_or_lossless", f"BinaryCIFData({form} {vals}).array")
    try:
        back = BinaryCIFData.deserialize(_msgpack_roundtrip(data.serialize()))
    except Exception as e:  # noqa: BLE001 - any refusal is fine, a wrong value is not
        if holdable:
            raise
        o.label("rejected_at_serialisation:" + type(e).__name__)
        o.mark_nontrivial()
        return o
    o.check_eq([int(v) for v in np.asarray(back.array).tolist()], [int(v) for v in vals], "unrepresentable_rejected_or_lossless", f"serialise/deserialise of BinaryCIFData({form} {vals})")
    o.mark_nontrivial()
    return o


# --------------------------------------------------------------------------
# string tables with many distinct strings (index widths 8 / 16 / 32 bit)
# --------------------------------------------------------------------------
_STRING_TABLE_SIZES = [255, 256, 257, 32767, 32768, 32769, 65535, 65536, 65537, 70000]


def enum_string_tables(tier):
    for n in _STRING_TABLE_SIZES:
        for how in ("default", "explicit_int32", "compress", "file"):
            yield {"distinct": n, "how": how}


def run_string_table(case):
    import io as _io

    from biotite.structure.io import pdbx
    from biotite.structure.io.pdbx import BinaryCIFData, ByteArrayEncoding, StringArrayEncoding

    o = Outcome()
    n, how = case["distinct"], case["how"]
    rng = np.random.default_rng(n)
    # distinct strings in an order that is neither sorted nor grouped; some repeated, '' included
    strings = np.array([f"id_{i}" for i in range(n - 1)] + [""])
    x = strings[rng.permutation(n)]
    x = np.concatenate([x, x[: min(50, n)]])
    want = x.tolist()
    o.label(f"distinct={n}", how)
    o.mark_nontrivial()
    if how == "default":
        enc = StringArrayEncoding()
        y = enc.decode(enc.encode(x))
    elif how == "explicit_int32":
        enc = StringArrayEncoding(data_encoding=[ByteArrayEncoding()], offset_encoding=[ByteArrayEncoding()])
        y = enc.decode(enc.encode(x))
    elif how == "compress":
        data = pdbx.compress(BinaryCIFData(x))
        y = BinaryCIFData.deserialize(_msgpack_roundtrip(data.serialize())).array
    else:
        f = pdbx.BinaryCIFFile()
        f["b"] = pdbx.BinaryCIFBlock()
        f["b"]["c"] = pdbx.BinaryCIFCategory({"v": x})
        bio = _io.BytesIO()
        f.write(bio)
        bio.seek(0)
        y = pdbx.BinaryCIFFile.read(bio)["b"]["c"]["v"].as_array(str)
    o.check_eq(np.asarray(y).tolist(), want, "string_roundtrip_exact", f"{n} distinct strings ({how})")
    return o


# --------------------------------------------------------------------------
# long arrays: run lengths and element counts around 2**15 / 2**16 (RunLength output that
# IntegerPacking has to split, offsets beyond 16 bit)
# --------------------------------------------------------------------------
def enum_large_arrays(tier):
    def chain_case(dtype, segs, chain):
        return {"kind": "int", "dtype": dtype, "segs": segs, "chain": chain, "explicit": "copy", "narrowed": [], "layout": "plain"}

    B, R, D = ["bytes", {}], ["rle", {}], ["delta", {}]

    def P(k):
        return ["pack", {"byte_count": k}]

    for k in (32767, 32768, 32769, 65535, 65536, 70000):
        for dtype, v in (("int32", 5), ("int16", -3), ("uint8", 200)):
            segs = [["run", v, k], ["lit", [7, 7, 9]]]
            for chain in ([R, P(2), B], [R, P(1), B], [R, B], [D, R, P(2), B]):
                yield chain_case(dtype, segs, chain)
    for n in (32769, 65537, 70000):
        for chain in ([D, R, P(2), B], [D, P(1), B], [P(2), B], [D, R, B]):
            yield chain_case("int32", [["ramp", 0, 1, n]], chain)
            yield chain_case("uint32", [["ramp", 3, 2, n]], chain)

    def compress_case(kind, dtype, segs, tol_exp=3, level="data"):
        return {
            "level": level, "tol_exp": tol_exp, "rows": None, "narrowed": [], "tol_form": "positional", "reread": False, "extra": None,
            "columns": [{"name": "c0", "kind": kind, "dtype": dtype, "segs": segs, "mask": None, "layout": "plain"}],
        }  # fmt: skip

    for k in (32768, 65536, 70000):
        yield compress_case("int", "int32", [["run", 5, k], ["lit", [7, 7, 9]]])
        yield compress_case("int", "int64", [["ramp", -40000, 1, k]])
        yield compress_case("int", "uint16", [["randint", 11, k, 0, 3]])
        yield compress_case("float", "float32", [["randcoord", 12, k, 50.0, 3]], tol_exp=4)
        yield compress_case("float", "float64", [["run", 1.5, k], ["lit", [0.25]]], tol_exp=6)
        yield compress_case("str", "U", [["run", "ALA", k], ["lit", ["GLY", "", "é"]]], level="column")


# --------------------------------------------------------------------------
# every way of passing the tolerance x every component level, on columns whose digits are all significant
# --------------------------------------------------------------------------
def enum_tolerance_forms(tier):
    cols = [
        {"name": "c0", "kind": "float", "dtype": "float64", "segs": [["randcoord", 5, 40, 1.0, 9]], "mask": None, "layout": "plain"},
        {"name": "c1", "kind": "float", "dtype": "float64", "segs": [["randcoord", 6, 40, 900.0, 6]], "mask": [["lit", [0, 1, 0, 2]]], "layout": "plain"},
        {"name": "c2", "kind": "float", "dtype": "float32", "segs": [["randcoord", 7, 40, 90.0, 3]], "mask": None, "layout": "plain"},
    ]
    for level in ("data", "column", "category", "block", "file"):
        for extra in (None, "both") if level in ("block", "file") else (None,):
            for reread in (False, True):
                for form, tol_exp in (("positional", 3), ("positional", 9), ("keyword", 3), ("keyword", 9), ("keyword", 7), ("default", 6)):
                    columns = [dict(c) for c in (cols[:1] if level in ("data", "column") else cols)]
                    if level == "data":
                        columns[0]["mask"] = None
                    yield {"level": level, "tol_exp": tol_exp, "tol_form": form, "reread": reread, "extra": extra, "rows": None if level in ("data", "column") else 40, "narrowed": [], "columns": columns}


def run_large_array(case):
    o = run_chain(case) if "chain" in case else run_compress(case)
    o.label("n=" + str(len(expand(case["segs"] if "chain" in case else case["columns"][0]["segs"])) // 1000) + "k")
    return o


ENUMS = [
    Enum(
        "compress_tolerance_forms",
        enum_tolerance_forms,
        run_compress,
        rule="float64 columns with 6 and 9 significant decimals: fixed point is chosen and the error shows which tolerance was applied",
        clauses="compress(component, tol) / compress(component, float_tolerance=tol) / compress(component) on data, column, category, block and file (also after write+read, also with two blocks and categories) keep every float within the tolerance that was passed",
        exhaustive=True,
    ),
    Enum(
        "large_arrays",
        enum_large_arrays,
        run_large_array,
        rule="arrays of 32767..70000 elements / run lengths: RunLength and Delta outputs that IntegerPacking has to split",
        clauses="integer chains with RunLength/Delta/IntegerPacking and compress() return long arrays exactly (floats within tolerance)",
        exhaustive=False,
    ),
    Enum(
        "int_boundaries",
        enum_int_boundaries,
        run_chain,
        rule="every case holds the limits of its type",
        clauses="8 integer types x 12 chain shapes (delta? rle? pack none|1|2, bytes) x 9 fixed boundary arrays, inferred and explicit parameters",
        exhaustive=True,
    ),
    Enum(
        "string_tables",
        enum_string_tables,
        run_string_table,
        rule="255..70000 distinct strings in shuffled order (index width boundaries of the string table)",
        clauses="strings decode exactly through StringArrayEncoding, compress() and a written BinaryCIF file",
        exhaustive=True,
    ),
    Enum(
        "data_input_forms",
        enum_input_forms,
        run_input_forms,
        rule="integer values at every width boundary given as list, tuple or ndarray",
        clauses="integers out of range are rejected or kept losslessly for every accepted input form of BinaryCIFData",
        exhaustive=True,
    ),
]
