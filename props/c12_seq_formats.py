"""
C12  Sequence file formats return what was written.

Oracle: parse(write(x)) == x, entry-wise and in order.  The reference is the
plain-data case itself: headers / sequence strings / score lists / feature
tuples (key, frozenset of (first, last, strand, defects), qualifiers) / GFF3
column tuples / GenBank field triples.  For the edit histories a dict (FASTA,
FASTQ) or a list (GFF3 entries, GenBank fields) is edited alongside the file
object; after every step the live object's view must equal the model and the
view of a fresh object parsed from the live object's own text.

What the formats cannot carry is kept out of the generators by construction
(see notes/C12.md): line breaks / outer blanks in headers and identifiers,
MISS_LEFT / MISS_RIGHT and UNK_LOC+BETWEEN in GenBank locations, UNK_LOC /
BETWEEN on a single base, any defect and valueless qualifiers in GFF3, double
quotes in GenBank qualifier values (counted), feature keys > 15 characters,
field names > 12 characters, empty GenBank sequences.

Kept out as well, because neither the property nor a docstring fixes what happens to them
(audit notes/audit/C12.md, section A): GFF3 entries with start > end, a blank in the seqid, empty
or blank-padded attribute tags, non-finite scores (scores are compared to 6 significant digits);
FASTQ scores below the lowest score of the format (Solexa -5, the others 0); score lists (instead
of arrays) outside the mapping interface; GenBank feature keys that are not identifiers, blanks
at the ends of qualifier value lines and of field content lines, lower-case field names,
subfields for FEATURES / ORIGIN; the empty include_only list; non-ASCII headers in real files.
An edit outside the domain (unencodable scores, length mismatch, set_annotation on a file with
two FEATURES fields) may be refused with any exception or accepted - afterwards only the
consistency of text and view is judged (labels say which outcome occurred).
"""

import io
import warnings

import numpy as np
from hypothesis import strategies as st

from vlib import Outcome, Sub, findings

PROPERTY = "C12"
RULE = (
    "entries / features / edit histories drawn from the domains each format can carry; "
    "non-trivial = an entry needing wrapping, a FASTQ score line starting with '@' or '+', "
    "a feature with a defect or several locations, a qualifier with a reserved character or "
    "without value, an edit history with a replace or delete on a file of >= 2 entries"
)

F1 = "C12-F1"  # FASTQ: an empty read is written into text the parser rejects

NUC = "ACGT"
AMBIG = "ACGTRYWSMKHBVDN"
PROT = "ACDEFGHIKLMNPQRSTVWYBZX*"
RAW = NUC + "acgtnNxX-*" + "MKLVmklv"
ALPHABETS = {"nuc": NUC, "ambig": AMBIG, "prot": PROT, "raw": RAW}

ASCII_PRINT = "".join(chr(c) for c in range(32, 127))
ASCII_GRAPH = "".join(chr(c) for c in range(33, 127))
UNI = "éΩ中"
# header / identifier characters: no line breaks (the line based formats cannot carry them)
HDR_CHARS = ASCII_PRINT + "\t" + UNI + " "

FASTQ_OFFSETS = {"Sanger": 33, "Solexa": 64, "Illumina-1.3": 64, "Illumina-1.5": 64, "Illumina-1.8": 33}

GB_DEFECTS = ["BEYOND_LEFT", "BEYOND_RIGHT", "UNK_LOC", "BETWEEN"]
ALL_DEFECTS = ["MISS_LEFT", "MISS_RIGHT", "BEYOND_LEFT", "BEYOND_RIGHT", "UNK_LOC", "BETWEEN"]


# --------------------------------------------------------------------------
# helpers: biotite objects <-> plain data
# --------------------------------------------------------------------------
def _mk_sequence(kind, s):
    from biotite.sequence import NucleotideSequence, ProteinSequence

    if kind == "nuc":
        return NucleotideSequence(s, ambiguous=False)
    if kind == "ambig":
        return NucleotideSequence(s, ambiguous=True)
    if kind == "prot":
        return ProteinSequence(s)
    raise ValueError(kind)


def _seq_class(kind):
    from biotite.sequence import NucleotideSequence, ProteinSequence

    return ProteinSequence if kind == "prot" else NucleotideSequence


def _mk_strand(s):
    from biotite.sequence import Location

    if s == "+":
        return Location.Strand.FORWARD
    if s == "-":
        return Location.Strand.REVERSE
    return None


def _strand_str(strand):
    from biotite.sequence import Location

    if strand == Location.Strand.FORWARD:
        return "+"
    if strand == Location.Strand.REVERSE:
        return "-"
    return None


def _mk_loc(l):
    from biotite.sequence import Location

    d = Location.Defect.NONE
    for n in l["defect"]:
        d |= Location.Defect[n]
    return Location(l["first"], l["last"], _mk_strand(l["strand"]), d)


def _mk_feature(f):
    from biotite.sequence import Feature

    return Feature(f["key"], [_mk_loc(l) for l in f["locs"]], {k: v for k, v in f["qual"]})


def _mk_annotation(features):
    from biotite.sequence import Annotation

    return Annotation([_mk_feature(f) for f in features])


def _loc_tuple(loc):
    from biotite.sequence import Location

    names = frozenset(n for n in ALL_DEFECTS if loc.defect & Location.Defect[n])
    return (loc.first, loc.last, _strand_str(loc.strand), names)


def _annotation_set(annot):
    return frozenset(
        (feat.key, frozenset(_loc_tuple(l) for l in feat.locs), frozenset(feat.qual.items()))
        for feat in annot
    )


def _want_set(features):
    return frozenset(
        (
            f["key"],
            frozenset((l["first"], l["last"], l["strand"], frozenset(l["defect"])) for l in f["locs"]),
            frozenset((k, v) for k, v in f["qual"]),
        )
        for f in features
    )


def _show_set(s):
    # key=repr on both levels: qualifier values mix None and str, which do not order
    return sorted(
        ((k, sorted(((a, b, c, sorted(d)) for a, b, c, d in locs), key=repr), sorted(q, key=repr)) for k, locs, q in s),
        key=repr,
    )


def _wrap(s, width):
    if width is None:
        return [s]
    return [s[i : i + width] for i in range(0, len(s), width)]


def _written(f):
    buf = io.StringIO()
    f.write(buf)
    return buf.getvalue()


def _done(o):
    """Every label counts once per case (the histogram is read as a share of cases)."""
    o.labels = list(dict.fromkeys(o.labels))
    return o


# --------------------------------------------------------------------------
# common strategies
# --------------------------------------------------------------------------
def st_header():
    return st.one_of(
        st.sampled_from(["seq1", "", ">x", ";c", "@r", "+", "a b", "sp|P1|X_Y some protein"]),
        st.text(HDR_CHARS, max_size=10).map(str.strip),
    )


def st_cpl():
    return st.one_of(st.integers(1, 100), st.sampled_from([1, 2, 3, 10, 60, 80, 100]))


def _bulk(alphabet, seed, n):
    """n characters of the alphabet from a seed that was drawn by Hypothesis (the case stores
    the resulting string, so run() stays a pure function of the case)."""
    import random

    rnd = random.Random(seed)
    return "".join(rnd.choice(alphabet) for _ in range(n))


def st_bulk(alphabet, min_size, max_size):
    return st.tuples(st.integers(0, 2**32 - 1), st.integers(min_size, max_size)).map(
        lambda t: _bulk(alphabet, t[0], t[1])
    )


def st_seq_string(kind, maxlen, min_size=0):
    a = ALPHABETS[kind]
    bulk = st_bulk(a, max(min_size, 1), maxlen)
    opts = [st.text(a, min_size=max(min_size, 1), max_size=8), bulk, bulk, bulk]
    if min_size == 0:
        opts.append(st.just(""))
    return st.one_of(*opts)


def st_pos():
    return st.one_of(st.integers(1, 60), st.integers(1, 10**6))


def st_feature_key():
    return st.one_of(
        st.sampled_from(["CDS", "gene", "misc_feature", "source", "3'UTR", "-10_signal", "D-loop", "Region"]),
        st.sampled_from(["regulatory", "a/b", "k=v", "50%", "x%41y", "CDS%3B", "#tag", "abcdefghijklmno"]),
        st.text(ASCII_GRAPH, min_size=1, max_size=15),
        st.text(ASCII_GRAPH, min_size=1, max_size=4),
    )


GB_KEY_CHARS = "abcdefghijklmnopqrstuvwxyzABCDEFGHIJKLMNOPQRSTUVWXYZ0123456789_-'*"


def st_gb_feature_key():
    """GenBank / GenPept feature keys: identifiers as the feature table definition uses them
    (letters, digits, '_', '-', "'", '*'); '/', '=', '"', '%' ... only occur in GFF3 types."""
    return st.one_of(
        st.sampled_from(["CDS", "gene", "misc_feature", "source", "3'UTR", "5'UTR", "-10_signal", "-35_signal", "D-loop", "Region"]),
        st.sampled_from(["regulatory", "mat_peptide", "V_segment", "abcdefghijklmno", "x", "Site"]),
        st.text(GB_KEY_CHARS, min_size=1, max_size=15).filter(lambda k: any(c.isalnum() for c in k)),
        st.text(GB_KEY_CHARS, min_size=1, max_size=4).filter(lambda k: any(c.isalnum() for c in k)),
    )


# --------------------------------------------------------------------------
# (a) FASTA
# --------------------------------------------------------------------------
def st_fasta(tier):
    maxlen = 150 if tier == "quick" else 700

    @st.composite
    def gen(draw):
        api = draw(st.sampled_from(["mapping", "set_sequences", "set_sequence", "write_iter"]))
        kinds = ["nuc", "ambig", "prot"] + (["raw"] if api in ("mapping", "write_iter") else [])
        n = draw(st.integers(1, 5))
        headers = draw(st.lists(st_header(), min_size=n, max_size=n, unique=True))
        entries = []
        for h in headers:
            kind = draw(st.sampled_from(kinds))
            entries.append({"h": h, "kind": kind, "s": draw(st_seq_string(kind, maxlen))})
        as_rna = draw(st.booleans()) if api in ("set_sequences", "set_sequence") else False
        return {"cpl": draw(st_cpl()), "api": api, "as_rna": as_rna, "entries": entries}

    return gen()


def run_fasta(case):
    import biotite.sequence.io.fasta as fasta

    o = Outcome()
    cpl = case["cpl"]
    api = case["api"]
    entries = case["entries"]
    as_rna = case["as_rna"]

    def file_string(e):
        if as_rna and e["kind"] in ("nuc", "ambig"):
            return e["s"].replace("T", "U")
        return e["s"]

    want_items = [(e["h"], file_string(e)) for e in entries]

    if api == "write_iter":
        buf = io.StringIO()
        fasta.FastaFile.write_iter(buf, [(e["h"], e["s"]) for e in entries], chars_per_line=cpl)
        text = buf.getvalue()
    else:
        f = fasta.FastaFile(chars_per_line=cpl)
        if api == "mapping":
            for e in entries:
                f[e["h"]] = e["s"]
        elif api == "set_sequences":
            fasta.set_sequences(f, {e["h"]: _mk_sequence(e["kind"], e["s"]) for e in entries}, as_rna=as_rna)
        else:
            for e in entries:
                fasta.set_sequence(f, _mk_sequence(e["kind"], e["s"]), header=e["h"], as_rna=as_rna)
        o.check_eq(list(f.items()), want_items, "fasta_live_view", "items of the filled object")
        text = _written(f)

    lines = text.split("\n")
    too_long = [l for l in lines if not l.startswith(">") and len(l) > cpl]
    o.check(not too_long, "fasta_chars_per_line", lambda: f"lines longer than {cpl}: {too_long[:3]}")

    r = fasta.FastaFile.read(io.StringIO(text))
    o.check_eq(list(r.items()), want_items, "fasta_entries_in_order", "FastaFile.read(...).items()")
    o.check_eq(len(r), len(entries), "fasta_entries_in_order", "len")
    o.check_eq(
        list(fasta.FastaFile.read_iter(io.StringIO(text))), want_items, "fasta_entries_in_order", "read_iter"
    )

    for e in entries:
        if e["kind"] == "raw":
            continue
        cls = _seq_class(e["kind"])
        got = fasta.get_sequence(r, header=e["h"], seq_type=cls)
        o.check(
            isinstance(got, cls) and str(got) == e["s"],
            "fasta_symbols",
            lambda: f"get_sequence({e['h']!r}, seq_type={cls.__name__}) = {got!r}, want {e['s']!r}",
        )
        if e["kind"] != "prot" or "X" not in e["s"]:
            # without a type the string decides: a protein made of nucleotide letters comes
            # back as nucleotide sequence with the same symbols ('X' would be read as 'N')
            got = fasta.get_sequence(r, header=e["h"])
            o.check_eq(str(got), e["s"], "fasta_symbols", f"get_sequence({e['h']!r}) without type")
    if all(e["kind"] != "raw" and not (e["kind"] == "prot" and "X" in e["s"]) for e in entries):
        got = fasta.get_sequences(r)
        o.check_eq(
            [(h, str(s)) for h, s in got.items()],
            [(e["h"], e["s"]) for e in entries],
            "fasta_symbols",
            "get_sequences()",
        )
    first = entries[0]
    if first["kind"] != "raw":
        got = fasta.get_sequence(r, seq_type=_seq_class(first["kind"]))
        o.check_eq(str(got), first["s"], "fasta_entries_in_order", "get_sequence() without header = first entry")

    wrap = any(len(e["s"]) > cpl for e in entries)
    o.label("api=" + api, "n=%d" % len(entries))
    for e in entries:
        o.label("kind=" + e["kind"])
    if wrap:
        o.label("needs_wrapping")
    if any(e["s"] == "" for e in entries):
        o.label("empty_sequence")
    if any("*" in e["s"] for e in entries):
        o.label("stop_symbol")
    if as_rna:
        o.label("as_rna")
    o.mark_nontrivial(wrap)
    return _done(o)


# --------------------------------------------------------------------------
# (b) FASTQ
# --------------------------------------------------------------------------
SCORE_CHARS = ASCII_GRAPH + "@+" * 12 + "!~" * 3
# lowest score character of each format ("score arrays in range"): Sanger / Illumina-1.8 scores
# start at 0 = '!', Solexa at -5 = ';', Illumina-1.3/1.5 at 0 = '@'.  A bare offset 64 is given
# the Solexa range.  All formats end at '~' or above.
FASTQ_MIN_CHAR = {33: "!", "Sanger": "!", "Illumina-1.8": "!", 64: ";", "Solexa": ";", "Illumina-1.3": "@", "Illumina-1.5": "@"}


def _score_chars(offset):
    """The score characters of a format, with the characters that matter at line starts and
    the two ends of the range boosted ('+' is below the range of the offset-64 formats)."""
    lo = FASTQ_MIN_CHAR[offset]
    if lo == "!":
        return SCORE_CHARS
    chars = "".join(chr(c) for c in range(ord(lo), 127))
    return chars + "@" * 20 + (lo + "~") * 3 + (";<=>?" * 3 if lo == ";" else "")


def st_fastq_entry(draw, maxlen, kinds=("nuc", "ambig"), score_chars=SCORE_CHARS):
    """Returns (kind, seq, score characters, narrowed)."""
    n = draw(st.one_of(st.integers(1, 8), st.integers(1, maxlen)))
    narrowed = 0
    if draw(st.integers(0, 11)) == 0:
        # an empty read
        if findings.is_open(F1):
            narrowed = 1
        else:
            n = 0
    kind = draw(st.sampled_from(kinds))
    if n <= 8:
        s = draw(st.text(ALPHABETS[kind], min_size=n, max_size=n))
        q = draw(st.text(score_chars, min_size=n, max_size=n))
    else:
        seed = draw(st.integers(0, 2**32 - 1))
        s = _bulk(ALPHABETS[kind], seed, n)
        q = _bulk(score_chars, seed + 1, n)
    return kind, s, q, narrowed


def st_fastq(tier):
    maxlen = 120 if tier == "quick" else 500

    @st.composite
    def gen(draw):
        api = draw(st.sampled_from(["mapping", "set_sequences", "set_sequence", "write_iter"]))
        offset = draw(st.sampled_from([33, 64] + sorted(FASTQ_OFFSETS)))
        n = draw(st.integers(1, 4))
        headers = draw(st.lists(st_header(), min_size=n, max_size=n, unique=True))
        entries = []
        narrowed = 0
        for h in headers:
            kind, s, q, nar = st_fastq_entry(draw, maxlen, score_chars=_score_chars(offset))
            narrowed += nar
            entries.append({"h": h, "kind": kind, "s": s, "q": q})
        # a Python list of scores is shown only for the mapping interface (class example); the
        # other entry points document `ndarray`
        containers = ["list", "int64", "int8", "int32"] if api == "mapping" else ["int64", "int64", "int8", "int32"]
        return {
            "offset": offset,
            "cpl": draw(st.one_of(st.none(), st_cpl(), st.integers(1, 6))),
            "api": api,
            "as_rna": draw(st.booleans()) if api in ("set_sequences", "set_sequence") else False,
            "score_type": draw(st.sampled_from(containers)),
            "entries": entries,
            "narrowed_F1": narrowed,
        }

    return gen()


def _offset_number(offset):
    return offset if isinstance(offset, int) else FASTQ_OFFSETS[offset]


def _scores(q, off, score_type="list"):
    vals = [ord(c) - off for c in q]
    if score_type == "list":
        return vals
    return np.array(vals, dtype=score_type)


def _score_line_starts(q, cpl):
    if len(q) == 0:
        return ""
    if cpl is None:
        return q[0]
    return q[::cpl]


def _fastq_items(items):
    return [(h, s, [int(x) for x in sc]) for h, (s, sc) in items]


def run_fastq(case):
    import biotite.sequence.io.fastq as fastq

    o = Outcome()
    for _ in range(case.get("narrowed_F1", 0)):
        o.exclude(F1)
    cpl = case["cpl"]
    api = case["api"]
    entries = case["entries"]
    as_rna = case["as_rna"]
    offset = case["offset"]
    off = _offset_number(offset)

    def file_string(e):
        return e["s"].replace("T", "U") if as_rna else e["s"]

    want = [(e["h"], file_string(e), [ord(c) - off for c in e["q"]]) for e in entries]

    if api == "write_iter":
        buf = io.StringIO()
        fastq.FastqFile.write_iter(
            buf,
            [(e["h"], (e["s"], _scores(e["q"], off, case["score_type"]))) for e in entries],
            offset=offset,
            chars_per_line=cpl,
        )
        text = buf.getvalue()
    else:
        f = fastq.FastqFile(offset=offset, chars_per_line=cpl)
        if api == "mapping":
            for e in entries:
                f[e["h"]] = e["s"], _scores(e["q"], off, case["score_type"])
        elif api == "set_sequences":
            fastq.set_sequences(
                f,
                {e["h"]: (_mk_sequence(e["kind"], e["s"]), _scores(e["q"], off, case["score_type"])) for e in entries},
                as_rna=as_rna,
            )
        else:
            for e in entries:
                fastq.set_sequence(
                    f,
                    _mk_sequence(e["kind"], e["s"]),
                    _scores(e["q"], off, case["score_type"]),
                    header=e["h"],
                    as_rna=as_rna,
                )
        o.check_eq(_fastq_items(f.items()), want, "fastq_live_view", "items of the filled object")
        text = _written(f)

    # the score characters in the text are chr(score + offset of the named format), sequence and
    # scores broken after chars_per_line characters.  Blank lines are not judged (the readers skip
    # them), and nothing is prescribed for the lines of an empty read (no docstring fixes them).
    if all(len(e["s"]) > 0 for e in entries):
        want_lines = []
        for e in entries:
            want_lines += ["@" + e["h"]] + _wrap(file_string(e), cpl) + ["+"] + _wrap(e["q"], cpl)
        got_lines = [l for l in text.split("\n") if l]
        same = len(got_lines) == len(want_lines) and all(
            g == w or (w == "+" and g.startswith("+")) for g, w in zip(got_lines, want_lines)
        )
        o.check(same, "fastq_score_encoding_and_layout", lambda: f"text lines {got_lines!r}, want {want_lines!r}")
        o.label("layout_compared")

    r = fastq.FastqFile.read(io.StringIO(text), offset=offset)
    o.check_eq(_fastq_items(r.items()), want, "fastq_entries_in_order", "FastqFile.read(...).items()")
    for h, (_, sc) in r.items():
        o.check(
            isinstance(sc, np.ndarray) and sc.dtype.kind in "iu", "fastq_scores", f"scores of {h!r} are {type(sc)}"
        )
    o.check_eq(
        _fastq_items(fastq.FastqFile.read_iter(io.StringIO(text), offset=offset)),
        want,
        "fastq_entries_in_order",
        "read_iter",
    )
    # reading with the numeric offset of the named format gives the same scores
    r2 = fastq.FastqFile.read(io.StringIO(text), offset=off)
    o.check_eq(_fastq_items(r2.items()), want, "fastq_offsets", f"read with offset {off} instead of {offset!r}")
    got = fastq.get_sequences(r)
    o.check_eq(
        [(h, str(s), [int(x) for x in sc]) for h, (s, sc) in got.items()],
        [(e["h"], e["s"], [ord(c) - off for c in e["q"]]) for e in entries],
        "fastq_symbols",
        "get_sequences()",
    )
    s0, sc0 = fastq.get_sequence(r)
    o.check_eq((str(s0), [int(x) for x in sc0]), (entries[0]["s"], want[0][2]), "fastq_entries_in_order", "get_sequence()")
    for e, w in zip(entries, want):
        sh, sch = fastq.get_sequence(r, header=e["h"])
        o.check_eq((str(sh), [int(x) for x in sch]), (e["s"], w[2]), "fastq_symbols", f"get_sequence(header={e['h']!r})")
        o.check_eq(r.get_seq_string(e["h"]), w[1], "fastq_symbols", f"get_seq_string({e['h']!r})")
        o.check_eq([int(x) for x in r.get_quality(e["h"])], w[2], "fastq_scores", f"get_quality({e['h']!r})")
    # the caller may edit the returned score arrays in place: a later parse of the same text must
    # still give the written scores (nothing may be shared between parses).  Whether the *same*
    # file object hands out copies or views of a cache is not stated anywhere: only labelled.
    for h, (_, sc) in r.items():
        if isinstance(sc, np.ndarray) and sc.flags.writeable and len(sc):
            sc[...] = 99
    o.label("same_object_unaffected_by_inplace_edit" if _fastq_items(r.items()) == want else "same_object_shares_returned_arrays")
    r3 = fastq.FastqFile.read(io.StringIO(text), offset=offset)
    o.check_eq(_fastq_items(r3.items()), want, "fastq_scores", "second parse of the same text after returned score arrays were edited in place")

    wrap = cpl is not None and any(len(e["s"]) > cpl for e in entries)
    at_plus = any(c in "@+" for e in entries for c in _score_line_starts(e["q"], cpl))
    o.label("api=" + api, "offset=%s" % offset, "wrapped" if cpl is not None else "one_line")
    if wrap:
        o.label("needs_wrapping")
    if at_plus:
        o.label("score_line_starts_with_@_or_+")
    if any(len(e["s"]) == 0 for e in entries):
        o.label("empty_sequence")
    if any(min((ord(c) - off for c in e["q"]), default=0) < 0 for e in entries):
        o.label("negative_scores")
    o.mark_nontrivial(wrap or at_plus)
    return _done(o)


# --------------------------------------------------------------------------
# (c) GenBank / GenPept
# --------------------------------------------------------------------------
def st_gb_loc():
    @st.composite
    def gen(draw):
        a = draw(st_pos())
        single = draw(st.integers(0, 2)) == 0
        b = a if single else a + draw(st.one_of(st.integers(1, 3), st.integers(1, 5000)))
        defect = []
        if draw(st.booleans()):
            defect = draw(st.lists(st.sampled_from(["BEYOND_LEFT", "BEYOND_RIGHT"]), max_size=2, unique=True))
        if not single:
            # a.b and a^b are two different notations: the format cannot express both at once,
            # and it has no notation for either of them on a single base
            defect += draw(st.sampled_from([[], [], ["UNK_LOC"], ["BETWEEN"]]))
        return {"first": a, "last": b, "strand": draw(st.sampled_from("+-")), "defect": sorted(defect)}

    return gen()


GB_VALUE_CHARS = ASCII_PRINT + ' /="' * 10 + UNI
IDENT_CHARS = "abcdefghijklmnopqrstuvwxyzABCXYZ_0123456789"


def st_gb_value():
    """Returns (value or None, number of double quotes that were taken out)."""
    line = st.text(GB_VALUE_CHARS, max_size=12)

    def build(lines):
        # blanks at the ends of a value line are not judged (continuation lines are broken and
        # joined at blanks); blanks inside a line are ("qualifiers with spaces")
        raw = "\n".join(l.strip() for l in lines)
        return (raw.replace('"', "'"), raw.count('"'))

    return st.one_of(
        st.just((None, 0)),
        st.just(("", 0)),
        st.lists(line, min_size=1, max_size=3).map(build),
        line.map(lambda l: build([l])),
    )


def st_gb_qual_key():
    return st.one_of(
        st.sampled_from(["gene", "note", "product", "pseudo", "db_xref", "translation", "EC_number"]),
        st.text(IDENT_CHARS, min_size=1, max_size=8).map(lambda k: "q" + k if k[0].isdigit() else k),
    )


def st_gb_feature():
    @st.composite
    def gen(draw):
        locs = draw(st.lists(st_gb_loc(), min_size=1, max_size=draw(st.sampled_from([1, 1, 2, 4]))))
        keys = draw(st.lists(st_gb_qual_key(), max_size=3, unique=True))
        qual = []
        removed = 0
        for k in keys:
            v, n = draw(st_gb_value())
            removed += n
            qual.append([k, v])
        return {"key": draw(st_gb_feature_key()), "locs": locs, "qual": qual}, removed

    return gen()


def st_genbank(tier):
    maxlen = 150 if tier == "quick" else 800

    @st.composite
    def gen(draw):
        fmt = draw(st.sampled_from(["gb", "gb", "gp"]))
        kind = "prot" if fmt == "gp" else draw(st.sampled_from(["nuc", "ambig"]))
        pairs = draw(st.lists(st_gb_feature(), max_size=3))
        return {
            "fmt": fmt,
            "kind": kind,
            "seq": draw(st_seq_string(kind, maxlen, min_size=1)),
            "seqstart": draw(st.one_of(st.just(1), st.integers(1, 10**6))),
            "with_seq": draw(st.integers(0, 3)) > 0,
            "features": [p[0] for p in pairs],
            "dq_removed": sum(p[1] for p in pairs),
        }

    return gen()


def _get_annotation_noted(getter):
    """Run a getter; warnings (biotite warns when it skips a feature) are returned as text."""
    with warnings.catch_warnings(record=True) as w:
        warnings.simplefilter("always")
        result = getter()
    return result, [str(x.message) for x in w]


RESERVED_GB = set(' /=')


def _gb_feature_labels(o, features):
    nt = False
    for f in features:
        if len(f["locs"]) > 1:
            o.label("join")
            nt = True
            if len({l["strand"] for l in f["locs"]}) > 1:
                o.label("join_mixed_strands")
        for l in f["locs"]:
            for d in l["defect"]:
                o.label("defect=" + d)
                nt = True
            if l["first"] == l["last"]:
                o.label("single_base")
                if l["defect"]:
                    o.label("single_base_with_defect")
            if l["strand"] == "-":
                o.label("complement")
        if f["qual"] and all(v is None for _, v in f["qual"]):
            o.label("only_valueless_qualifiers")
        for _, v in f["qual"]:
            if v is None:
                o.label("qual_no_value")
                nt = True
            elif v == "":
                o.label("qual_empty_value")
            else:
                if "\n" in v:
                    o.label("qual_multi_line")
                if RESERVED_GB & set(v):
                    o.label("qual_reserved_char")
                    nt = True
    return nt


def run_genbank(case):
    import biotite.sequence.io.genbank as gb
    from biotite.sequence import AnnotatedSequence

    o = Outcome()
    fmt = case["fmt"]
    features = case["features"]
    want = _want_set(features)
    annot = _mk_annotation(features)
    f = gb.GenBankFile()
    if case["with_seq"]:
        seq = _mk_sequence(case["kind"], case["seq"])
        gb.set_annotated_sequence(f, AnnotatedSequence(annot, seq, case["seqstart"]))
    else:
        gb.set_annotation(f, annot)

    live, notes = _get_annotation_noted(lambda: gb.get_annotation(f))
    o.check(
        _annotation_set(live) == want,
        "genbank_live_view",
        lambda: f"get_annotation(filled file) = {_show_set(_annotation_set(live))}, want {_show_set(want)} {notes}",
    )
    text = _written(f)
    g = gb.GenBankFile.read(io.StringIO(text))
    if case["with_seq"]:
        aseq, notes = _get_annotation_noted(lambda: gb.get_annotated_sequence(g, format=fmt))
        got = _annotation_set(aseq.annotation)
        o.check_eq(str(aseq.sequence), case["seq"], "genbank_sequence", "sequence")
        o.check(
            isinstance(aseq.sequence, _seq_class(case["kind"])),
            "genbank_sequence",
            f"sequence type {type(aseq.sequence).__name__}",
        )
        o.check_eq(aseq.sequence_start, case["seqstart"], "genbank_sequence_start", "sequence_start")
        o.check_eq(str(gb.get_sequence(g, format=fmt)), case["seq"], "genbank_sequence", "get_sequence()")
        # the raw string is "unaltered" (set_sequence writes lower case; the case is not judged)
        o.check_eq(gb.get_raw_sequence(g).upper(), case["seq"].upper(), "genbank_sequence", "get_raw_sequence()")
    else:
        parsed, notes = _get_annotation_noted(lambda: gb.get_annotation(g))
        got = _annotation_set(parsed)
    o.check(
        got == want,
        "genbank_features",
        lambda: f"got {_show_set(got)}, want {_show_set(want)}, warnings {notes}, text {text!r}",
    )

    # include_only ("names of feature keys, which should included"): exactly the features with one
    # of the given keys, in either container type.  The empty list is not given (its meaning - no
    # feature or no filter - is not stated).
    keys = sorted({ft["key"] for ft in features})
    filters = [[k] for k in keys] + ([keys[:-1], tuple(keys[1:])] if len(keys) > 1 else []) + [["verif_absent_key"]]
    for flt in filters:
        for obj, what in ((f, "filled file"), (g, "parsed file")):
            sel, notes = _get_annotation_noted(lambda: gb.get_annotation(obj, include_only=flt))
            want_sel = frozenset(t for t in want if t[0] in flt)
            o.check(
                _annotation_set(sel) == want_sel,
                "genbank_include_only",
                lambda: f"get_annotation({what}, include_only={flt!r}) = {_show_set(_annotation_set(sel))}, want {_show_set(want_sel)} {notes}",
            )
        if case["with_seq"]:
            asel, notes = _get_annotation_noted(lambda: gb.get_annotated_sequence(g, format=fmt, include_only=flt))
            want_sel = frozenset(t for t in want if t[0] in flt)
            o.check(
                _annotation_set(asel.annotation) == want_sel and str(asel.sequence) == case["seq"],
                "genbank_include_only",
                lambda: f"get_annotated_sequence(include_only={flt!r}) = {_show_set(_annotation_set(asel.annotation))}, want {_show_set(want_sel)} {notes}",
            )
    if len(keys) > 1:
        o.label("include_only_excludes_some")

    nt = _gb_feature_labels(o, features)
    o.label("fmt=" + fmt, "nfeat=%d" % min(len(features), 3))
    if case["with_seq"]:
        o.label("with_sequence", "start=1" if case["seqstart"] == 1 else "start>1")
        if len(case["seq"]) > 60:
            o.label("sequence_several_lines")
        if "*" in case["seq"]:
            o.label("stop_symbol")
    if case["dq_removed"]:
        o.label("excluded_double_quote_in_value")
    o.mark_nontrivial(nt)
    return _done(o)


# --------------------------------------------------------------------------
# (d) GFF3
# --------------------------------------------------------------------------
GFF_RESERVED = ";=%&,\t\n"


GFF_CHARS = ASCII_PRINT + GFF_RESERVED * 6 + UNI + "\r\x00\x7f\x85\u00a0" + " " * 4


def st_gff_text(min_size=0, max_size=8):
    return st.one_of(
        st.text(GFF_CHARS, min_size=min_size, max_size=max_size),
        st.sampled_from(["a;b", "k=v", "100%", "%41", "%", "x,y", "a&b", "tab\there", "two\nlines", "end ", " ", "a b"]),
    )


def st_gff_attrib(max_size=3, forbid=()):
    return st.lists(
        st.tuples(
            # tags: non-empty, no outer blanks (the writer strips the seqid / source / type columns; it
            # may do the same to a tag)
            st.one_of(st.sampled_from(["Name", "Parent", "Note", "Dbxref", "gbkey"]), st_gff_text(1, 6).map(lambda k: k.strip() or "k")),
            st_gff_text(),
        ),
        max_size=max_size,
        unique_by=lambda kv: kv[0],
    ).map(lambda kvs: [[k, v] for k, v in kvs if k not in forbid])


def st_gff_column():
    """seqid / source: non-empty, no outer blanks (the writer strips them)."""
    return st.one_of(
        st.sampled_from(["chr1", "NC_000913.3", "Biotite", "#hash", "a b", "x>y", "semi;colon", "100%", "%41"]),
        st_gff_text(1, 8).map(str.strip).filter(lambda s: len(s) > 0 and s[0] != ">"),
    )


def st_gff_seqid():
    """seqid: as above and without a blank inside (GFF3 forbids an unescaped blank in the seqid,
    gff.set_annotation refuses it with ValueError)."""
    return st_gff_column().map(lambda s: s.replace(" ", "_"))


def st_gff_score():
    """Score column ("float or None"): finite, at most 6 significant digits - the exact text of
    the number is not promised, see _gff_score_key."""
    return st.one_of(
        st.none(),
        st.integers(-1000, 1000).map(float),
        st.floats(-1e9, 1e9, allow_nan=False, allow_infinity=False).map(lambda x: float("%.6g" % x)),
        st.sampled_from([0.0, 1e-300, 12.5, 1e-5, 3.2e-42, 6.02e23]),
    )


def _gff_score_key(score):
    return None if score is None else float("%.6g" % score)


def st_gff_annotation(tier):
    @st.composite
    def gen(draw):
        n = draw(st.integers(0, 3))
        ids = draw(st.lists(st_gff_text(), min_size=n, max_size=n, unique=True))
        features = []
        for i in range(n):
            nloc = draw(st.sampled_from([1, 1, 2, 3, 4]))
            locs = []
            for _ in range(nloc):
                a = draw(st_pos())
                b = a + draw(st.one_of(st.just(0), st.integers(0, 5000)))
                locs.append({"first": a, "last": b, "strand": draw(st.sampled_from("+-")), "defect": []})
            qual = draw(st_gff_attrib(forbid=("ID",)))
            if nloc > 1 or draw(st.booleans()):
                qual.insert(draw(st.integers(0, len(qual))), ["ID", ids[i]])
            features.append({"key": draw(st_feature_key().map(str.strip).filter(len)), "locs": locs, "qual": qual})
        seqid = draw(st.one_of(st.none(), st_gff_seqid()))
        return {
            "features": features,
            "seqid": seqid,
            "source": draw(st.one_of(st.none(), st_gff_column())),
            "is_stranded": draw(st.sampled_from([None, True, True, False])),
        }

    return gen()


def _gff_reserved(s):
    return any(c in GFF_RESERVED for c in s)


def run_gff_annotation(case):
    import biotite.sequence.io.gff as gff

    o = Outcome()
    features = case["features"]
    stranded = case.get("is_stranded")
    if stranded is False:
        # "Otherwise the strand column is filled with '.'": every location comes back without strand
        features = [dict(f, locs=[dict(l, strand=None) for l in f["locs"]]) for f in features]
    want = _want_set(features)
    g = gff.GFFFile()
    kwargs = {} if stranded is None else {"is_stranded": stranded}
    gff.set_annotation(g, _mk_annotation(case["features"]), seqid=case["seqid"], source=case["source"], **kwargs)
    # one entry per location of every distinct feature that was handed in (an Annotation is a set)
    nloc = sum(len(locs) for _, locs, _ in _want_set(case["features"]))
    o.check_eq(len(g), nloc, "gff_one_entry_per_location", "number of entries")
    live = _annotation_set(gff.get_annotation(g))
    o.check(live == want, "gff_live_view", lambda: f"got {_show_set(live)}, want {_show_set(want)}")
    text = _written(g)
    r = gff.GFFFile.read(io.StringIO(text))
    got = _annotation_set(gff.get_annotation(r))
    o.check(got == want, "gff_features", lambda: f"got {_show_set(got)}, want {_show_set(want)}, text {text!r}")
    o.check_eq(len(r), nloc, "gff_one_entry_per_location", "number of entries after reading")
    # the seqid / source columns carry what was given (the empty column is written as '.')
    for name, col in (("seqid", 0), ("source", 1)):
        if case[name] is not None:
            for obj, what in ((g, "filled file"), (r, "parsed file")):
                cols = {obj[i][col] for i in range(len(obj))}
                o.check(cols <= {case[name]}, "gff_seqid_source", lambda: f"{name} column of the {what}: {sorted(cols)!r}, given {case[name]!r}")
    if stranded is False:
        o.label("is_stranded=False")
        o.check(all(g[i][6] is None for i in range(len(g))), "gff_features", "strand column of an unstranded annotation")
    o.label("seqid=None" if case["seqid"] is None else "seqid given", "source=None" if case["source"] is None else "source given")

    nt = False
    for f in features:
        o.label("nlocs=%d" % len(f["locs"]))
        if len(f["locs"]) > 1:
            nt = True
            if len({l["strand"] for l in f["locs"]}) > 1:
                o.label("mixed_strands")
        if any(_gff_reserved(k) or _gff_reserved(v) for k, v in f["qual"]):
            o.label("qual_reserved_char")
            nt = True
        if any(v.endswith(" ") for _, v in f["qual"][-1:]):
            o.label("last_value_ends_with_blank")
        if _gff_reserved(f["key"]) or "%" in f["key"]:
            o.label("key_reserved_char")
        if any(k == "ID" for k, _ in f["qual"]):
            o.label("has_ID")
    o.label("nfeat=%d" % len(features))
    o.mark_nontrivial(nt)
    return _done(o)


def st_gff_entry():
    # start <= end (GFF3 demands it; a writer may refuse anything else)
    return st.tuples(
        st_gff_seqid(),
        st_gff_column(),
        st_feature_key().map(str.strip).filter(len),
        st_pos(),
        st.one_of(st.just(0), st.integers(0, 5000)),
        st_gff_score(),
        st.sampled_from(["+", "-", None]),
        st.sampled_from([None, 0, 1, 2]),
        st.one_of(st.none(), st_gff_attrib()),
    ).map(lambda t: list(t[:4]) + [t[3] + t[4]] + list(t[5:]))


def st_gff_entries(tier):
    return st.fixed_dictionaries({"entries": st.lists(st_gff_entry(), max_size=6 if tier == "quick" else 25)})


def _gff_args(e):
    seqid, source, type_, start, end, score, strand, phase, attrib = e
    return (
        seqid,
        source,
        type_,
        start,
        end,
        score,
        _mk_strand(strand),
        phase,
        None if attrib is None else {k: v for k, v in attrib},
    )


def _gff_model_entry(e):
    seqid, source, type_, start, end, score, strand, phase, attrib = e
    return (seqid, source, type_, start, end, _gff_score_key(score), strand, phase, {} if attrib is None else {k: v for k, v in attrib})


def _gff_view_entry(g, i):
    # the score is compared to 6 significant digits: "float or None" is all the class states
    seqid, source, type_, start, end, score, strand, phase, attrib = g[i]
    return (seqid, source, type_, start, end, _gff_score_key(score), _strand_str(strand), phase, attrib)


def _gff_view(g):
    return [_gff_view_entry(g, i) for i in range(len(g))]


def _gff_entry_labels(o, e):
    if e[5] is not None:
        o.label("score")
    o.label("strand=%s" % e[6], "phase=%s" % e[7])
    if e[8]:
        if any(_gff_reserved(k) or _gff_reserved(v) for k, v in e[8]):
            o.label("attr_reserved_char")
            return True
    else:
        o.label("no_attributes")
    if _gff_reserved(e[0]) or _gff_reserved(e[1]) or _gff_reserved(e[2]):
        o.label("column_reserved_char")
        return True
    return False


def run_gff_entries(case):
    import biotite.sequence.io.gff as gff

    o = Outcome()
    entries = case["entries"]
    want = [_gff_model_entry(e) for e in entries]
    g = gff.GFFFile()
    for e in entries:
        g.append(*_gff_args(e))
    o.check_eq(_gff_view(g), want, "gff_live_view", "entries of the filled object")
    text = _written(g)
    r = gff.GFFFile.read(io.StringIO(text))
    o.check_eq(_gff_view(r), want, "gff_entries_in_order", "entries after reading")
    # the directives written by the constructor are read back as the live object reports them
    o.check_eq(r.directives(), g.directives(), "gff_entries_in_order", "directives of the parsed file vs. the filled file")
    o.label("directives=%d" % min(len(g.directives()), 2))
    nt = False
    for e in entries:
        nt |= _gff_entry_labels(o, e)
    o.label("n=%d" % min(len(entries), 4))
    o.mark_nontrivial(nt)
    return _done(o)


# --------------------------------------------------------------------------
# (e) edit histories
# --------------------------------------------------------------------------
def st_edit_fasta(tier):
    nops = 8 if tier == "quick" else 30

    @st.composite
    def gen(draw):
        pool = draw(st.lists(st_header(), min_size=2, max_size=4, unique=True))
        seq = st_seq_string("raw", 40)
        op = st.one_of(
            st.tuples(st.just("set"), st.integers(0, 7), seq),
            st.tuples(st.just("set"), st.integers(0, 7), seq),
            st.tuples(st.just("del"), st.integers(0, 7)),
            st.tuples(st.just("reload")),
            # the MutableMapping mix-ins are built on the primitives above
            st.tuples(st.sampled_from(["pop", "pop", "del"]), st.integers(0, 7)),
            st.sampled_from([("reload",), ("reload",), ("clear",)]),
        ).map(list)
        return {
            "cpl": draw(st.one_of(st.integers(1, 8), st_cpl())),
            "pool": pool,
            "init": draw(st.lists(st.tuples(st.integers(0, 7), seq).map(list), max_size=4)),
            "parsed_start": draw(st.booleans()),
            "ops": draw(st.lists(op, min_size=1, max_size=nops)),
        }

    return gen()


def _mapping_history(o, case, new_file, reread, put, view_items, label_value, bad_put=None, start_text=None):
    """Shared interpreter for FastaFile / FastqFile histories.

    new_file() -> empty object; reread(text) -> parsed object; put(f, key, value);
    view_items(items) -> list of (key, comparable value); label_value(value) -> model value.
    start_text([(key, value), ...]) -> text or None: a text of the initial entries that biotite
    did not write itself (other line wrapping); the history then starts from its parse."""

    def view(f):
        return view_items(f.items())

    pool = case["pool"]
    model = {}
    f = new_file()
    raw = {}
    for pi, *val in case["init"]:
        h = pool[pi % len(pool)]
        put(f, h, val)
        model[h] = label_value(val)
        raw[h] = val
    nontrivial = False

    def check(step):
        live = view(f)
        ok = o.check_eq(len(live), len(model), "edit_view_equals_model", f"step {step}: number of entries")
        ok &= o.check_eq(dict(live), model, "edit_view_equals_model", f"step {step}: contents")
        ok &= o.check_eq(len(f), len(model), "edit_view_equals_model", f"step {step}: len()")
        ok &= o.check_eq(
            [h in f for h in pool], [h in model for h in pool], "edit_view_equals_model", f"step {step}: 'in'"
        )
        text = str(f)
        if model:
            ok &= o.check_eq(view(reread(text)), live, "edit_text_equals_view", f"step {step}: view of the own text")
            ok &= o.check_eq(view(reread(_written(f))), live, "edit_text_equals_view", f"step {step}: write()")
        else:
            # a file without entries has no text (reading it raises InvalidFileError by design)
            ok &= o.check_eq(text.strip(), "", "edit_text_equals_view", f"step {step}: text of the empty file")
        return ok

    text0 = start_text([(h, raw[h]) for h in model]) if start_text is not None and model else None
    if text0 is not None:
        # the same entries, read from a text with its own line wrapping ("any line wrapping")
        f = reread(text0)
        o.label("foreign_wrapping_start")
    elif case["parsed_start"] and model:
        f = reread(str(f))
        o.label("parsed_start")
    if not check("init"):
        return
    for step, op in enumerate(case["ops"]):
        name = op[0]
        if name == "set":
            h = pool[op[1] % len(pool)]
            if h in model:
                o.label("op=replace")
                if len(model) >= 2:
                    nontrivial = True
            else:
                o.label("op=set_new")
            put(f, h, op[2:])
            model[h] = label_value(op[2:])
        elif name == "del":
            if not model:
                continue
            keys = [h for h in pool if h in model]
            h = keys[op[1] % len(keys)]
            o.label("op=del")
            if len(model) >= 2:
                nontrivial = True
            del f[h]
            del model[h]
        elif name == "reload":
            if not model:
                continue
            o.label("op=reload")
            f = reread(_written(f))
        elif name == "pop":
            if not model:
                continue
            keys = [h for h in pool if h in model]
            h = keys[op[1] % len(keys)]
            o.label("op=pop")
            if len(model) >= 2:
                nontrivial = True
            got = f.pop(h)
            o.check_eq(dict(view_items([(h, got)]))[h], model[h], "edit_view_equals_model", f"step {step}: value returned by pop({h!r})")
            del model[h]
        elif name == "clear":
            o.label("op=clear")
            f.clear()
            model.clear()
        elif name == "set_invalid":
            # an edit outside the domain (scores no format can hold, or as many scores as the
            # sequence is NOT long): refusing it with any exception, or accepting it in some
            # way, is both allowed - whatever happens to the old entry, text and parsed view have
            # to stay consistent afterwards (the model is re-synchronised from the file's own text)
            if bad_put is None:
                continue
            h = pool[op[1] % len(pool)]
            kind = op[2] if len(op) > 2 else "score_100"
            o.label("op=set_invalid_existing" if h in model else "op=set_invalid_new", "invalid=" + kind)
            try:
                bad_put(f, h, kind)
            except Exception as e:  # noqa: BLE001 - any refusal is fine, see above
                o.label("invalid_edit_refused:" + type(e).__name__)
            else:
                o.label("invalid_edit_accepted")
            text = str(f)
            model = dict(view(reread(text))) if text.strip() else {}
            nontrivial = nontrivial or len(model) >= 1
        if not check(step):
            return
    o.mark_nontrivial(nontrivial)


def run_edit_fasta(case):
    import biotite.sequence.io.fasta as fasta

    o = Outcome()
    cpl = case["cpl"]

    def put(f, h, val):
        f[h] = val[0]

    _mapping_history(
        o,
        case,
        lambda: fasta.FastaFile(chars_per_line=cpl),
        lambda text: fasta.FastaFile.read(io.StringIO(text), chars_per_line=cpl),
        put,
        lambda items: list(items),
        lambda val: val[0],
    )
    return _done(o)


def st_edit_fastq(tier):
    nops = 8 if tier == "quick" else 30

    @st.composite
    def gen(draw):
        pool = draw(st.lists(st_header(), min_size=2, max_size=4, unique=True))
        offset = draw(st.sampled_from([33, 64, "Sanger", "Solexa"]))
        narrowed = 0

        def entry():
            nonlocal narrowed
            _, s, q, nar = st_fastq_entry(draw, 30, score_chars=_score_chars(offset))
            narrowed += nar
            return s, q

        init = []
        for _ in range(draw(st.integers(0, 4))):
            init.append([draw(st.integers(0, 7)), *entry()])
        ops = []
        for _ in range(draw(st.integers(1, nops))):
            kind = draw(st.sampled_from(["set", "set", "del", "reload", "set", "set_invalid", "set", "set", "del", "reload", "set", "set_invalid", "pop", "clear"]))
            if kind == "set":
                ops.append(["set", draw(st.integers(0, 7)), *entry()])
            elif kind in ("del", "pop"):
                ops.append([kind, draw(st.integers(0, 7))])
            elif kind == "set_invalid":
                ops.append(["set_invalid", draw(st.integers(0, 7)), draw(st.sampled_from(["score_100", "score_100", "len_mismatch"]))])
            elif kind == "clear":
                ops.append(["clear"])
            else:
                ops.append(["reload"])
        return {
            "offset": offset,
            "score_type": draw(st.sampled_from(["list", "list", "int64", "int8"])),
            "cpl": draw(st.one_of(st.none(), st.integers(1, 8), st_cpl())),
            # the text the history starts from: None = written by biotite, else [width of the
            # sequence lines, width of the score lines] (None = one line), chosen independently
            "start_wrap": draw(st.one_of(st.none(), st.lists(st.one_of(st.none(), st.integers(1, 8), st.integers(1, 30)), min_size=2, max_size=2))),
            "pool": pool,
            "init": init,
            "parsed_start": draw(st.booleans()),
            "ops": ops,
            "narrowed_F1": narrowed,
        }

    return gen()


def run_edit_fastq(case):
    import biotite.sequence.io.fastq as fastq

    o = Outcome()
    for _ in range(case.get("narrowed_F1", 0)):
        o.exclude(F1)
    cpl = case["cpl"]
    offset = case["offset"]
    off = _offset_number(offset)

    score_type = case.get("score_type", "list")

    def put(f, h, val):
        f[h] = val[0], _scores(val[1], off, score_type)

    def bad_put(f, h, kind):
        if kind == "len_mismatch":
            f[h] = "ACGTA", _scores("IIII", off, score_type)
        else:
            f[h] = "ACGT", np.array([100, 3, 100, 5])

    start_wrap = case.get("start_wrap")

    def start_text(items):
        # a FASTQ text of the initial entries whose sequence and score blocks are wrapped
        # independently of each other; empty reads are left to the text biotite writes itself
        if start_wrap is None or any(len(s) == 0 for _, (s, _q) in items):
            return None
        lines = []
        for h, (s, q) in items:
            lines += ["@" + h] + _wrap(s, start_wrap[0]) + ["+"] + _wrap(q, start_wrap[1])
        if any(len(_wrap(s, start_wrap[0])) != len(_wrap(q, start_wrap[1])) for _, (s, q) in items):
            o.label("start_seq_and_score_line_counts_differ")
        return "\n".join(lines) + "\n"

    o.label("scores=" + score_type)
    _mapping_history(
        o,
        case,
        lambda: fastq.FastqFile(offset=offset, chars_per_line=cpl),
        lambda text: fastq.FastqFile.read(io.StringIO(text), offset=offset, chars_per_line=cpl),
        put,
        lambda items: [(h, (s, [int(x) for x in sc])) for h, (s, sc) in items],
        lambda val: (val[0], [ord(c) - off for c in val[1]]),
        bad_put=bad_put,
        start_text=start_text,
    )
    if any(c in "@+" for op in case["ops"] if op[0] == "set" for c in _score_line_starts(op[3], cpl)):
        o.label("score_line_starts_with_@_or_+")
    return _done(o)


def st_edit_gff(tier):
    nops = 8 if tier == "quick" else 30

    @st.composite
    def gen(draw):
        e = st_gff_entry()
        idx = st.integers(0, 40)
        op = st.one_of(
            st.tuples(st.just("append"), e),
            st.tuples(st.just("insert"), idx, e),
            st.tuples(st.just("set"), idx, e),
            st.tuples(st.just("del"), idx),
            st.tuples(st.just("del"), idx),
            st.tuples(st.just("directive"), st.sampled_from(["sequence-region", "species", "x"]), st.lists(st.sampled_from(["chr1", "1", "100"]), max_size=2)),
            st.tuples(st.just("reload")),
        ).map(list)
        return {
            "init": draw(st.lists(e, max_size=4)),
            # lines mixed into the text the history starts from: (position, kind)
            "extra_lines": draw(st.lists(st.tuples(st.integers(0, 20), st.sampled_from(["# comment", "", "##directive x", "#"])).map(list), max_size=4)),
            "parsed_start": draw(st.booleans()),
            "ops": draw(st.lists(op, min_size=1, max_size=nops)),
        }

    return gen()


def run_edit_gff(case):
    import biotite.sequence.io.gff as gff

    o = Outcome()
    model = []
    f = gff.GFFFile()
    for e in case["init"]:
        f.append(*_gff_args(e))
        model.append(_gff_model_entry(e))

    def reread(text):
        return gff.GFFFile.read(io.StringIO(text))

    def check(step):
        live = _gff_view(f)
        ok = o.check_eq(len(f), len(model), "edit_view_equals_model", f"step {step}: len()")
        ok &= o.check_eq(live, model, "edit_view_equals_model", f"step {step}: entries")
        if model:
            ok &= o.check_eq(_gff_view_entry(f, -1), model[-1], "edit_view_equals_model", f"step {step}: file[-1]")
        fresh = reread(str(f))
        ok &= o.check_eq(_gff_view(fresh), live, "edit_text_equals_view", f"step {step}: view of the own text")
        ok &= o.check_eq(fresh.directives(), f.directives(), "edit_text_equals_view", f"step {step}: directives")
        return ok

    if case["parsed_start"]:
        lines = str(f).split("\n")
        for pos, extra in case["extra_lines"]:
            lines.insert(1 + pos % len(lines), extra)
        f = reread("\n".join(lines) + "\n")
        o.label("parsed_start")
        if case["extra_lines"]:
            o.label("comment_and_directive_lines")
    if not check("init"):
        return _done(o)
    nontrivial = False
    for step, op in enumerate(case["ops"]):
        name = op[0]
        n = len(model)
        if name == "append":
            f.append(*_gff_args(op[1]))
            model.append(_gff_model_entry(op[1]))
        elif name == "insert":
            i = op[1] % (2 * n + 1) - n
            f.insert(i, *_gff_args(op[2]))
            model.insert(i, _gff_model_entry(op[2]))
            if i < 0:
                o.label("negative_index")
        elif name == "set":
            if n == 0:
                continue
            i = op[1] % (2 * n) - n
            f[i] = _gff_args(op[2])
            model[i] = _gff_model_entry(op[2])
            nontrivial |= n >= 2
            if i < 0:
                o.label("negative_index")
        elif name == "del":
            if n == 0:
                continue
            i = op[1] % (2 * n) - n
            del f[i]
            del model[i]
            nontrivial |= n >= 2
            if i < 0:
                o.label("negative_index")
        elif name == "directive":
            f.append_directive(op[1], *op[2])
        elif name == "reload":
            f = reread(_written(f))
        o.label("op=" + name)
        if not check(step):
            return _done(o)
    o.mark_nontrivial(nontrivial)
    return _done(o)


# field names as GenBank writes them: upper case (that the writer upper-cases other names is
# nowhere stated, so no lower-case name is handed in)
GB_NAMES = ["LOCUS", "DEFINITION", "REFERENCE", "REFERENCE", "KEYWORDS", "A_B", "ABCDEFGHIJKL"]
GB_SUBNAMES = ["ORGANISM", "AUTHORS", "TITLE", "JOURNAL", "PUBMED", "S", "ABCDEFGHIJ"]


def st_gb_content():
    # blanks at the end of a content line are neither handed in nor judged (see _gb_rstrip)
    return st.lists(st.text(ASCII_PRINT + " " * 6 + UNI, max_size=14).map(str.rstrip), min_size=1, max_size=3)


def st_gb_subfields():
    return st.one_of(
        st.none(),
        st.lists(
            st.tuples(st.sampled_from(GB_SUBNAMES), st_gb_content()).map(list),
            max_size=3,
            unique_by=lambda kv: kv[0].upper(),
        ),
    )


def st_edit_genbank(tier):
    nops = 8 if tier == "quick" else 30

    @st.composite
    def gen(draw):
        idx = st.integers(0, 40)
        name = st.one_of(st.sampled_from(GB_NAMES), st.sampled_from(["FEATURES", "ORIGIN", "REFERENCE", "COMMENT"]))
        field = st.tuples(name, st_gb_content(), st_gb_subfields())
        op = st.one_of(
            st.tuples(st.just("append"), field),
            st.tuples(st.just("insert"), idx, field),
            st.tuples(st.just("set"), idx, field, st.booleans()),
            st.tuples(st.just("del"), idx),
            st.tuples(st.just("set_field"), field),
            st.tuples(st.just("set_field_at"), idx, field),
            st.tuples(st.just("set_annotation"), st.lists(st_gb_feature().map(lambda p: p[0]), max_size=2)),
            st.tuples(st.just("set_sequence"), st_seq_string("ambig", 80, min_size=1), st.integers(1, 10**6)),
            st.tuples(st.just("reload")),
        ).map(lambda t: [t[0]] + [list(x) if isinstance(x, tuple) else x for x in t[1:]])
        return {"ops": draw(st.lists(op, min_size=1, max_size=nops))}

    return gen()


def _gb_model_field(field):
    """What the list view must show for a field that was given as (name, content, subfields)."""
    name, content, subs = field
    name = name.upper()
    if name in ("FEATURES", "ORIGIN"):
        # the content of these two fields is stored without indentation and they "have no
        # subfields" (none are handed in); their lines must be indented to be part of the field
        return {"name": name, "content": [(" " * 5 + c).rstrip() for c in content], "subs": []}
    return {"name": name, "content": [c.rstrip() for c in content], "subs": [[k.upper(), [c.rstrip() for c in v]] for k, v in (subs or [])]}


def _gb_args(field):
    subs = field[2]
    if field[0].upper() in ("FEATURES", "ORIGIN"):
        subs = None
    return field[0], _gb_model_field(field)["content"], (None if subs is None else {k: list(v) for k, v in subs})


def _gb_rstrip(lines):
    """Content lines are compared without the blanks at their ends (a reader or writer that
    strips them keeps text and view consistent)."""
    return [str(l).rstrip() for l in lines]


def _gb_view(f):
    out = []
    for i in range(len(f)):
        name, content, subs = f[i]
        out.append((name, _gb_rstrip(content), [[k, _gb_rstrip(v)] for k, v in subs.items()]))
    return out


def _gb_resync(fresh):
    """Model of a file taken from the view of its own text (after an edit whose result is not
    prescribed): names, contents and subfields as parsed, nothing known about the meaning."""
    return [{"name": n, "content": c, "subs": s, "sem": None} for n, c, s in _gb_view(fresh)]


def run_edit_genbank(case):
    import biotite.sequence.io.genbank as gb
    from biotite.file import InvalidFileError

    o = Outcome()
    model = []  # dicts: name, content (None = produced by set_annotation/set_sequence), subs, sem
    f = gb.GenBankFile()

    def reread(text):
        return gb.GenBankFile.read(io.StringIO(text))

    def check(step):
        live = _gb_view(f)
        ok = o.check_eq(len(f), len(model), "edit_view_equals_model", f"step {step}: len()")
        ok &= o.check_eq([v[0] for v in live], [m["name"] for m in model], "edit_view_equals_model", f"step {step}: field names")
        if not ok:
            return False
        for i, (v, m) in enumerate(zip(live, model)):
            if m["content"] is not None:
                ok &= o.check_eq(v, (m["name"], m["content"], m["subs"]), "edit_view_equals_model", f"step {step}: field {i}")
        for nm in {m["name"] for m in model} | {"LOCUS"}:
            ok &= o.check_eq(
                f.get_indices(nm), [i for i, m in enumerate(model) if m["name"] == nm], "edit_view_equals_model", f"step {step}: get_indices({nm})"
            )
        fresh = reread(str(f))
        ok &= o.check_eq(_gb_view(fresh), live, "edit_text_equals_view", f"step {step}: view of the own text")
        # fields written by set_annotation / set_sequence: the parsed contents
        feats = [m for m in model if m["name"] == "FEATURES"]
        origins = [m for m in model if m["name"] == "ORIGIN"]
        if len(feats) == 1 and feats[0].get("sem") is not None:
            for obj, what in ((f, "live"), (fresh, "own text")):
                got, notes = _get_annotation_noted(lambda: gb.get_annotation(obj))
                ok &= o.check(
                    _annotation_set(got) == feats[0]["sem"],
                    "edit_view_equals_model",
                    lambda: f"step {step}: get_annotation({what}) = {_show_set(_annotation_set(got))}, want {_show_set(feats[0]['sem'])} {notes}",
                )
        if len(origins) == 1 and origins[0].get("sem") is not None:
            seq, start = origins[0]["sem"]
            for obj, what in ((f, "live"), (fresh, "own text")):
                ok &= o.check_eq(str(gb.get_sequence(obj)), seq, "edit_view_equals_model", f"step {step}: get_sequence({what})")
                if len(feats) == 1 and feats[0].get("sem") is not None:
                    aseq, _ = _get_annotation_noted(lambda: gb.get_annotated_sequence(obj))
                    ok &= o.check_eq(aseq.sequence_start, start, "edit_view_equals_model", f"step {step}: sequence_start({what})")
        return ok

    def set_field_model(name, entry):
        idx = [i for i, m in enumerate(model) if m["name"] == name]
        if len(idx) > 1:
            return False
        if idx:
            model[idx[0]] = entry
        else:
            model.append(entry)
        return True

    def unprescribed(call, what):
        # set_annotation / set_sequence on a file with two FEATURES / ORIGIN fields: only
        # GenBankFile.set_field documents InvalidFileError for this; the two functions may refuse
        # with any exception or replace one of the fields.  Either way the file has to stay
        # consistent: the model is taken from the view of the file's own text, and the checks
        # after the step compare the live view with it.
        try:
            call()
        except Exception as e:  # noqa: BLE001
            o.label(f"{what}_on_duplicate_refused:" + type(e).__name__)
        else:
            o.label(f"{what}_on_duplicate_accepted")
        model[:] = _gb_resync(reread(str(f)))

    nontrivial = False
    for step, op in enumerate(case["ops"]):
        name = op[0]
        n = len(model)
        if name == "append":
            f.append(*_gb_args(op[1]))
            model.append(_gb_model_field(op[1]))
        elif name == "insert":
            i = op[1] % (2 * n + 1) - n
            f.insert(i, *_gb_args(op[2]))
            model.insert(i, _gb_model_field(op[2]))
        elif name == "set":
            if n == 0:
                continue
            i = op[1] % (2 * n) - n
            args = _gb_args(op[2])
            if op[3] and args[2] is None:
                f[i] = args[0], args[1]
            else:
                f[i] = args
            model[i] = _gb_model_field(op[2])
            nontrivial |= n >= 2
        elif name == "del":
            if n == 0:
                continue
            i = op[1] % (2 * n) - n
            del f[i]
            del model[i]
            nontrivial |= n >= 2
        elif name in ("set_field", "set_field_at"):
            if name == "set_field_at":
                # set_field with the name of an existing field (replace, or ambiguous if duplicated)
                if n == 0:
                    continue
                fld = [model[op[1] % n]["name"], op[2][1], op[2][2]]
                op = ["set_field", fld]
            entry = _gb_model_field(op[1])
            before = [dict(m) for m in model]
            if set_field_model(entry["name"], entry):
                f.set_field(*_gb_args(op[1]))
            else:
                o.label("set_field_ambiguous")
                o.expect_raises(InvalidFileError, lambda: f.set_field(*_gb_args(op[1])), "set_field_ambiguous_rejected", "set_field")
                model[:] = before
        elif name == "set_annotation":
            entry = {"name": "FEATURES", "content": None, "subs": [], "sem": _want_set(op[1])}
            if set_field_model("FEATURES", entry):
                gb.set_annotation(f, _mk_annotation(op[1]))
                nontrivial |= _gb_feature_labels(o, op[1])
            else:
                unprescribed(lambda: gb.set_annotation(f, _mk_annotation(op[1])), "set_annotation")
        elif name == "set_sequence":
            entry = {"name": "ORIGIN", "content": None, "subs": [], "sem": (op[1], op[2])}
            if set_field_model("ORIGIN", entry):
                gb.set_sequence(f, _mk_sequence("ambig", op[1]), op[2])
            else:
                unprescribed(lambda: gb.set_sequence(f, _mk_sequence("ambig", op[1]), op[2]), "set_sequence")
        elif name == "reload":
            f = reread(_written(f))
        o.label("op=" + name)
        if any(m["subs"] for m in model):
            o.label("has_subfields")
        if not check(step):
            return _done(o)
    o.mark_nontrivial(nontrivial)
    return _done(o)


# --------------------------------------------------------------------------
# (f) convenience functions save_sequence(s) / load_sequence(s) (sequence/io/general.py)
# --------------------------------------------------------------------------
GENERAL_SUFFIX = {
    ".fasta": "fasta",
    ".fa": "fasta",
    ".mpfa": "fasta",
    ".fna": "fasta",
    ".fsa": "fasta",
    ".fastq": "fastq",
    ".fq": "fastq",
    ".gb": "gb",
    ".gbk": "gb",
    ".gp": "gp",
}


def st_general_io(tier):
    maxlen = 100 if tier == "quick" else 400

    @st.composite
    def gen(draw):
        suffix = draw(st.sampled_from(sorted(GENERAL_SUFFIX)))
        fmt = GENERAL_SUFFIX[suffix]
        many = fmt in ("fasta", "fastq") and draw(st.booleans())
        if fmt == "fasta":
            kinds = ["nuc", "ambig", "prot"]
        elif fmt == "gp":
            kinds = ["prot"]
        else:
            kinds = ["nuc", "ambig"]
        n = draw(st.integers(1, 4)) if many else 1
        # real files are opened with the locale's encoding: ASCII headers only, so that the
        # verdict does not depend on the environment (non-ASCII headers: the StringIO sub-checks)
        ascii_header = st_header().map(lambda h: "".join(c for c in h if ord(c) < 128).strip())
        headers = draw(st.lists(ascii_header, min_size=n, max_size=n, unique=True))
        entries = []
        narrowed = 0
        for h in headers:
            kind = draw(st.sampled_from(kinds))
            min_size = 0 if fmt in ("fasta", "fastq") else 1  # an empty ORIGIN field is rejected by design
            if fmt == "fastq" and findings.is_open(F1):
                min_size = 1
                narrowed += draw(st.integers(0, 11)) == 0
            seq = draw(st_seq_string(kind, maxlen, min_size=min_size))
            if kind == "prot" and fmt == "fasta":
                # without a type the reader takes a protein made of nucleotide letters for a
                # nucleotide sequence and reads 'X' as 'N': the file does not carry the type
                seq = seq.replace("X", "W")
            entries.append({"h": h, "kind": kind, "s": seq})
        return {"suffix": suffix, "many": many, "entries": entries, "narrowed_F1": int(narrowed)}

    return gen()


import errno as _errno

_RESOURCE_ERRNOS = {
    getattr(_errno, n) for n in ("ENOSPC", "EMFILE", "ENFILE", "ENOMEM", "EDQUOT", "EIO", "EAGAIN") if hasattr(_errno, n)
}


def run_general_io(case):
    import os
    import tempfile

    import biotite.sequence.io as seqio

    o = Outcome()
    for _ in range(case.get("narrowed_F1", 0)):
        o.exclude(F1)
    entries = case["entries"]
    try:
        return _run_general_io(o, case, entries, os, tempfile, seqio)
    except OSError as e:
        # the machine ran out of disk space / file handles: says nothing about biotite
        if e.errno in _RESOURCE_ERRNOS:
            o.invalid = True
            return o
        raise


def _run_general_io(o, case, entries, os, tempfile, seqio):
    with tempfile.TemporaryDirectory(prefix="verif_C12_") as d:
        path = os.path.join(d, "file" + case["suffix"])
        if case["many"]:
            seqio.save_sequences(path, {e["h"]: _mk_sequence(e["kind"], e["s"]) for e in entries})
            got = seqio.load_sequences(path)
            o.check_eq(
                [(h, str(s)) for h, s in got.items()],
                [(e["h"], e["s"]) for e in entries],
                "general_io_entries_in_order",
                f"load_sequences(save_sequences(*{case['suffix']}))",
            )
        else:
            e = entries[0]
            seqio.save_sequence(path, _mk_sequence(e["kind"], e["s"]))
            got = seqio.load_sequence(path)
            o.check_eq(str(got), e["s"], "general_io_symbols", f"load_sequence(save_sequence(*{case['suffix']}))")
            if GENERAL_SUFFIX[case["suffix"]] in ("gb", "gp"):
                o.check(isinstance(got, _seq_class(e["kind"])), "general_io_symbols", f"type {type(got).__name__}")
    o.label("suffix=" + case["suffix"], "many" if case["many"] else "one")
    for e in entries:
        o.label("kind=" + e["kind"])
    o.mark_nontrivial(len(entries) >= 2 or any(len(e["s"]) > 80 for e in entries))
    return _done(o)


# --------------------------------------------------------------------------
SUBS = [
    Sub(
        "fasta",
        st_fasta,
        run_fasta,
        quick=2400,
        thorough=72000,
        rule=">= 1 sequence longer than chars_per_line",
        clauses="FASTA: same (header, sequence) entries in the same order through the mapping interface, "
        "set_sequence(s)/get_sequence(s), write_iter/read_iter; symbols incl. '*' and empty sequences",
    ),
    Sub(
        "fastq",
        st_fastq,
        run_fastq,
        quick=2400,
        thorough=72000,
        rule="a sequence longer than chars_per_line, or a score line starting with '@' or '+'",
        clauses="FASTQ: entries in order with symbols and scores for every offset (33/64/named) and wrapping width",
    ),
    Sub(
        "genbank",
        st_genbank,
        run_genbank,
        quick=2400,
        thorough=72000,
        rule=">= 1 feature with a defect, several locations, a valueless qualifier or a value with blank, '/' or '='",
        clauses="GenBank/GenPept: feature keys, locations with strand and defects, qualifiers, sequence, sequence start",
    ),
    Sub(
        "gff_annotation",
        st_gff_annotation,
        run_gff_annotation,
        quick=2000,
        thorough=60000,
        rule=">= 1 feature with several (ID-grouped) locations or a qualifier with a reserved character",
        clauses="GFF3: set_annotation/get_annotation recover keys, locations with strand, qualifiers",
    ),
    Sub(
        "gff_entries",
        st_gff_entries,
        run_gff_entries,
        quick=2000,
        thorough=60000,
        rule=">= 1 entry with a reserved character in a column or attribute",
        clauses="GFF3: the 9 columns of every entry in order through the list interface (percent quoting, strand, phase, score)",
    ),
    Sub(
        "edit_fasta",
        st_edit_fasta,
        run_edit_fasta,
        quick=2000,
        thorough=60000,
        rule="a replace or delete on a file with >= 2 entries",
        clauses="editing a FastaFile keeps text, mapping view and a dict model consistent after every step",
    ),
    Sub(
        "edit_fastq",
        st_edit_fastq,
        run_edit_fastq,
        quick=2000,
        thorough=60000,
        rule="a replace or delete on a file with >= 2 entries",
        clauses="editing a FastqFile keeps text, mapping view and a dict model consistent after every step",
    ),
    Sub(
        "edit_gff",
        st_edit_gff,
        run_edit_gff,
        quick=1200,
        thorough=36000,
        rule="a set or delete on a file with >= 2 entries",
        clauses="insert/append/set/del (and directives) on a GFFFile keep text, list view and a list model consistent",
    ),
    Sub(
        "edit_genbank",
        st_edit_genbank,
        run_edit_genbank,
        quick=1200,
        thorough=36000,
        rule="a set or delete on a file with >= 2 fields, or a set_annotation with a non-trivial feature",
        clauses="insert/append/set/del/set_field/set_annotation/set_sequence on a GenBankFile keep text, field view and a list model consistent",
    ),
    Sub(
        "general_io",
        st_general_io,
        run_general_io,
        quick=1200,
        thorough=36000,
        rule=">= 2 sequences in one file, or a sequence longer than one line (80 characters)",
        clauses="save_sequence(s)/load_sequence(s) by file suffix (FASTA, FASTQ, GenBank, GenPept): same entries in the same order, same symbols",
    ),
]


def _has_empty_read(sub, case):
    if sub == "fastq" or (sub == "general_io" and GENERAL_SUFFIX[case["suffix"]] == "fastq"):
        return any(len(e["s"]) == 0 for e in case["entries"])
    if sub == "edit_fastq":
        return any(len(x[1]) == 0 for x in case["init"]) or any(op[0] == "set" and len(op[2]) == 0 for op in case["ops"])
    return False


FINDINGS = {
    "fastq_empty_read": lambda sub, case, clause, message: _has_empty_read(sub, case)
    and clause in ("unexpected_exception", "edit_text_equals_view")
    and ("InvalidFileError" in message or "IndexError" in message),
}
