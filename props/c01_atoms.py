"""
C01  Atom arrays and stacks stay coherent under any sequence of operations.

Oracle: ``models/atoms_model.py`` - a container is a list of atom dicts (plus
per-model coordinate lists, boxes and a positional bond dict).  A history is an
op-list that is interpreted step by step on real ``AtomArray`` /
``AtomArrayStack`` objects held in three slots and on their models; after every
step every slot is compared with its model (lengths/depths of all components,
element-wise values, bonds by position *and* by atom identity through a hidden
``uid`` annotation, ``==`` against a container built from the model through
``array()``/``stack()``).

Aliasing policy.  The property demands independence only for ``copy()``.
NumPy-style views (slices, ``get_array``, ``stack()`` sharing the annotation
arrays of its first argument, ...) are not forbidden by the documentation, so
the interpreter tracks provenance: before an *in-place element write* into a
slot, every other slot derived from / feeding into that slot (without a
``copy()`` in between) is rebuilt from its model.  ``copy()`` results get a
fresh provenance and are therefore never excused.  A *whole-category assignment*
(``sub.res_id = values`` / ``sub.set_annotation(name, values)``) is not an element
write: it is the annotation edit of that one container ("Set an annotation array
... the new value of the annotation category"), in the reference model it replaces
the values of the atoms of ``sub`` only, so no other slot is rebuilt before it and
the parent / sibling models are compared as they are.  The view policy also holds for the
``Atom`` returned by ``array[i]`` / ``stack[m, i]`` / iteration: whether it is a
view of the container is not documented (in the list-of-atoms model ``lst[i]``
*is* the stored atom), so it is never edited in place; the strict form is
applied to ``atom.copy()`` (edited in place: neither the atom it was copied
from nor the container may change).

Outcomes that are documented nowhere and therefore accepted in more than one
form (the label shows which one occurred):

* duplicated atom index on a container with bonds: any exception, or a
  container that equals the model in everything but the content of its
  BondList (which must still be coherent with the atom count);
* ``stack()`` of arrays of which only some have a box: ``box is None`` or a
  ValueError/TypeError;
* ``array[index_array] = atom`` (documented index type: int): performed, or
  refused with TypeError/IndexError/ValueError leaving the array unchanged;
* out-of-range ``del`` / ``a[i] = `` / ``stack[j] = ``: IndexError, ValueError
  or TypeError (``__getitem__`` follows NumPy: IndexError);
* a multidimensional index on an AtomArray / a 3-tuple on a stack: any of
  IndexError, ValueError, TypeError.

Assumptions that are not spelled out in a docstring but follow from "the same
atoms, repeated": ``repeat()`` carries the box and repeats the bonds with the
index offset of each repetition (``models/atoms_model.py:repeat``).
"""

import math

import numpy as np
from hypothesis import strategies as st

from models import atoms_model as M
from vlib import Enum, Outcome, Sub, findings

PROPERTY = "C01"
RULE = (
    "op-list histories over 3 slots holding AtomArray/AtomArrayStack (n 0..8 atoms, m 0..4 models, "
    "optional bonds, box, extra annotations of dtype int64/int8/float64/float32/bool/str); non-trivial = the history "
    "has >= 1 index operation with a negative value or a mask/index array AND >= 1 structural "
    "operation (delete, concatenate, stack, repeat) on a container that has bonds or a box"
)

NSLOTS = 3
# repeat / concatenate chains are cut here: larger containers only cost time (every slot is compared
# element-wise after every step)
MAX_ATOMS = 2000

# --------------------------------------------------------------------------
# value pools (all inside the dtype widths of the mandatory annotations)
# --------------------------------------------------------------------------
POOL = {
    "chain_id": ["", "A", "B", "AB", "ABCD"],
    "ins_code": ["", "A", "B"],
    "res_name": ["", "ALA", "GLY", "HOH", "ABCDE"],
    "atom_name": ["", "CA", "N", "O1", "ABCDEF"],
    "element": ["", "C", "N", "O", "FE"],
    "xs": ["", "a", "bc", "abc"],
}
XF = [0.0, -1.5, 2.25, float("nan"), float("inf"), 1e30]
XH = [0.0, -1.5, 2.25, float("nan"), float("-inf"), 1024.0]  # exactly representable in float32
# x8 / xh: stored dtypes that differ from the default of their kind (int8, float32)
EXTRA = {"xi": "i", "xf": "f", "xb": "b", "xs": "U", "x8": "i", "xh": "f"}
EXTRA_NAMES = ["xi", "xf", "xb", "xs", "x8", "xh"]
DTYPE = {
    "chain_id": "U4",
    "res_id": np.int64,
    "ins_code": "U1",
    "res_name": "U5",
    "hetero": bool,
    "atom_name": "U6",
    "element": "U2",
    "uid": np.int64,
    "xi": np.int64,
    "xf": np.float64,
    "xb": bool,
    "xs": "U3",
    "x8": np.int8,
    "xh": np.float32,
}
KIND = dict(M.MANDATORY)
KIND.update(EXTRA)
KIND["uid"] = "i"
EDITABLE = [name for name, _ in M.MANDATORY] + EXTRA_NAMES
# dtype kinds that can hold the values of a model kind without changing them ("T": variable-width strings)
KIND_OK = {"U": "UT", "i": "iu", "f": "f", "b": "b"}
N_BOND_TYPES = 10

EXC = {
    "index": (IndexError,),
    # raise type not documented: any of the three conventional ones
    "any": (IndexError, ValueError, TypeError),
}
# nothing at all is documented for this input class: an error of whatever type (or a result, see attempt())
EXC["notimpl"] = (Exception,)


def _kind_label(kind):
    return kind if isinstance(kind, str) else "+".join(kind)


def exc_for(kind):
    kinds = kind if isinstance(kind, tuple) else (kind,)
    out = ()
    for k in kinds:
        out += EXC[k]
    return tuple(dict.fromkeys(out))


def value_for(name, raw):
    """Annotation value of category `name` derived from a raw integer."""
    k = KIND[name]
    if k == "U":
        pool = POOL[name]
        return pool[raw % len(pool)]
    if name == "x8":
        return int(raw) % 256 - 128
    if name == "xh":
        return XH[raw % len(XH)]
    if k == "i":
        return int(raw)
    if k == "f":
        return XF[raw % len(XF)]
    return bool(raw % 2)


def fit_width(real, name, value):
    """Implicit precondition of element writes: the value fits the width of the
    string dtype (array() sizes string annotations by their longest value, NumPy
    truncates longer strings silently).  Longer values are cut *before* the write,
    for the model and the real object alike."""
    if isinstance(value, str):
        dt = real.get_annotation(name).dtype
        if dt.kind == "U":  # fixed width; a variable-width string dtype truncates nothing
            return value[: dt.itemsize // 4]
    return value


# --------------------------------------------------------------------------
# plain-data spec -> model
# --------------------------------------------------------------------------
def _cyc(lst, i):
    return lst[i % len(lst)]


def spec_to_model(spec, uid_counter, kind=None, m=None):
    kind = kind or spec["kind"]
    m = spec["m"] if m is None else m
    atoms = spec["atoms"]
    n = len(atoms)
    cats = dict(M.MANDATORY)
    cats["uid"] = "i"
    for name in EXTRA_NAMES:
        if name in spec["extras"]:
            cats[name] = EXTRA[name]
    ann = []
    for i, a in enumerate(atoms):
        d = {
            "chain_id": a[0],
            "res_id": a[1],
            "ins_code": a[2],
            "res_name": a[3],
            "hetero": a[4],
            "atom_name": a[5],
            "element": a[6],
            "uid": uid_counter[0],
        }
        uid_counter[0] += 1
        for name in EXTRA_NAMES:
            if name in spec["extras"]:
                d[name] = _cyc(spec["extras"][name], i)
        ann.append(d)
    cq = spec["cq"]

    def model_coord(j):
        return [
            tuple((_cyc(cq, 3 * i + k) + 32 * (3 * i + k) + 1024 * j) / 4.0 for k in range(3))
            for i in range(n)
        ]

    nmod = 1 if kind == "array" else m
    coords = [model_coord(j) for j in range(nmod)]
    total = nmod * n * 3
    if total:
        for raw in spec["nan"]:
            p = raw % total
            j, rest = divmod(p, n * 3)
            i, k = divmod(rest, 3)
            c = list(coords[j][i])
            c[k] = float("nan")
            coords[j][i] = tuple(c)
    bonds = None
    if spec["bonds"] is not None:
        bonds = {}
        if n >= 2:
            for i, j, t in spec["bonds"]:
                i, j = i % n, j % n
                if i == j:
                    continue
                key = (min(i, j), max(i, j))
                if key not in bonds:
                    bonds[key] = t
    box = None
    if spec["box"] is not None:
        bq = spec["box"]
        boxes = [
            tuple(
                tuple((_cyc(bq, 3 * r + c) + 16 * (3 * r + c) + 2048 * j) / 4.0 for c in range(3))
                for r in range(3)
            )
            for j in range(nmod)
        ]
        box = boxes[0] if kind == "array" else boxes
    return M.MC(kind, cats, ann, coords[0] if kind == "array" else coords, box, bonds)


def shift_xyz(c, s):
    return tuple(v + s * 0.25 for v in c)


def shift_coords(coords, s):
    """coords: list of xyz tuples"""
    return [shift_xyz(c, s) for c in coords]


def shift_box(box, s):
    return tuple(tuple(v + s * 0.25 for v in row) for row in box)


DEFAULT_BOX = ((1.0, 0.0, 0.0), (0.0, 2.0, 0.0), (0.0, 0.0, 3.0))


# --------------------------------------------------------------------------
# model -> real biotite object
# --------------------------------------------------------------------------
def _coord_array(mc):
    if mc.kind == "array":
        return np.array(mc.coord, dtype=np.float32).reshape(mc.n, 3)
    return np.array(mc.coord, dtype=np.float32).reshape(mc.m, mc.n, 3)


def _box_array(mc):
    if mc.kind == "array":
        return np.array(mc.box, dtype=np.float32).reshape(3, 3)
    return np.array(mc.box, dtype=np.float32).reshape(mc.m, 3, 3)


def _bond_list(n, bonds):
    from biotite.structure import BondList

    rows = [(i, j, t) for (i, j), t in bonds.items()]
    return BondList(n, np.array(rows, dtype=np.int64).reshape(-1, 3))


def build_real(mc):
    """Direct construction (constructor + attribute setters)."""
    from biotite.structure import AtomArray, AtomArrayStack

    n = mc.n
    obj = AtomArray(n) if mc.kind == "array" else AtomArrayStack(mc.m, n)
    obj.coord = _coord_array(mc)
    for name in mc.cats:
        obj.set_annotation(name, np.array([a[name] for a in mc.ann], dtype=DTYPE[name]))
    if mc.bonds is not None:
        obj.bonds = _bond_list(n, mc.bonds)
    if mc.box is not None:
        obj.box = _box_array(mc)
    return obj


def real_atom(matom):
    from biotite.structure import Atom

    return Atom(list(matom["coord"]), **matom["ann"])


def build_api(mc):
    """Construction through array() / stack() wherever they apply."""
    import biotite.structure as struc

    def one_array(ann, coord):
        if not ann:
            arr = struc.AtomArray(0)
            for name in mc.cats:
                arr.add_annotation(name, DTYPE[name])
            return arr
        return struc.array([real_atom({"ann": a, "coord": c}) for a, c in zip(ann, coord)])

    if mc.kind == "array":
        obj = one_array(mc.ann, mc.coord)
    elif mc.m == 0:
        obj = struc.AtomArrayStack(0, mc.n)
        for name in mc.cats:
            obj.set_annotation(name, np.array([a[name] for a in mc.ann], dtype=DTYPE[name]))
    else:
        obj = struc.stack([one_array(mc.ann, mc.coord[j]) for j in range(mc.m)])
    if mc.bonds is not None:
        obj.bonds = _bond_list(mc.n, mc.bonds)
    if mc.box is not None:
        obj.box = _box_array(mc)
    return obj


# --------------------------------------------------------------------------
# comparison real <-> model
# --------------------------------------------------------------------------
def _plain(v):
    return v.item() if hasattr(v, "item") else v


def _same_list(got, want):
    return M.same_nested(got, want)


def check_atom(o, atom, matom, ctx):
    from biotite.structure import Atom

    if not o.check(isinstance(atom, Atom), "index_result_kind", lambda: f"{ctx}: got {type(atom).__name__}, want Atom"):
        return
    c = np.asarray(atom.coord)
    o.check(
        c.shape == (3,) and _same_list(c.astype(float).tolist(), list(matom["coord"])),
        "coord_equal_model",
        lambda: f"{ctx}: atom coord {c.tolist()} want {matom['coord']}",
    )
    annot = getattr(atom, "_annot", None)
    if isinstance(annot, dict):
        o.check(
            sorted(annot) == sorted(matom["ann"]),
            "annotations_equal_model",
            lambda: f"{ctx}: atom categories {sorted(annot)} want {sorted(matom['ann'])}",
        )
    for name, want in matom["ann"].items():
        got = _plain(getattr(atom, name))
        o.check(M.same_value(got, want), "annotations_equal_model", lambda: f"{ctx}: atom.{name} = {got!r}, want {want!r}")


def _atom_has_nan(matom):
    vals = list(matom["coord"]) + list(matom["ann"].values())
    return any(isinstance(v, float) and math.isnan(v) for v in vals)


def check_atom_copy(o, atom, matom, ctx):
    """``atom.copy()``: equal to the atom, and an in-place edit of the copy's coordinates changes
    neither the atom it was copied from (checked here) nor the container the atom came from
    (checked by the comparison of every slot after the step)."""
    from biotite.structure import Atom

    if not isinstance(atom, Atom) or not isinstance(getattr(atom, "coord", None), np.ndarray):
        return
    clone = atom.copy()
    nv = len(o.violations)
    check_atom(o, clone, matom, ctx + " .copy()")
    if len(o.violations) != nv:
        return
    o.check(clone is not atom, "copy_independent", lambda: f"{ctx}: Atom.copy() returned the same object")
    if not _atom_has_nan(matom):
        o.check(clone == atom and atom == clone, "copy_equal", lambda: f"{ctx}: Atom.copy() != the atom")
        o.check(not (clone != atom), "copy_equal", lambda: f"{ctx}: Atom.copy() != the atom is True")
    o.check(
        not np.shares_memory(clone.coord, atom.coord),
        "copy_independent",
        lambda: f"{ctx}: coord of Atom.copy() shares memory with the atom it was copied from",
    )
    if clone.coord.flags.writeable:
        clone.coord += np.float32(5.5)
        clone.res_id = matom["ann"]["res_id"] + 1
        c = np.asarray(atom.coord)
        o.check(
            _same_list(c.astype(float).tolist(), list(matom["coord"])) and _plain(atom.res_id) == matom["ann"]["res_id"],
            "copy_independent",
            lambda: f"{ctx}: editing Atom.copy() changed the original atom: coord {c.tolist()} res_id {atom.res_id}, want {matom['coord']} {matom['ann']['res_id']}",
        )
        if not _atom_has_nan(matom):
            o.check(clone != atom and not (clone == atom), "equality_detects_difference", lambda: f"{ctx}: edited Atom.copy() still equals the atom")
        o.label("atom_copy_edited_in_place")


def real_bond_dict(o, bl, n, ctx, strict_dup=True):
    arr = np.asarray(bl.as_array())
    ok = arr.ndim == 2 and arr.shape[1] == 3
    o.check(ok, "length_depth_coherent", lambda: f"{ctx}: bonds.as_array() shape {arr.shape}")
    if not ok:
        return None
    out = {}
    for i, j, t in arr.tolist():
        i, j = min(i, j), max(i, j)
        if not (0 <= i and j < n and i != j):
            o.fail("length_depth_coherent", f"{ctx}: bond ({i},{j}) is out of range for {n} atoms")
            return None
        if (i, j) in out and strict_dup:
            o.fail("bonds_equal_model", f"{ctx}: bond ({i},{j}) listed twice")
            return None
        out[(i, j)] = t
    return out


def check_state(o, real, mc, ctx, eq_check=True):
    """Compare one real container with its model.  Returns True if equal."""
    import biotite.structure as struc

    nv = len(o.violations)
    want_type, other_type = (struc.AtomArray, struc.AtomArrayStack) if mc.kind == "array" else (struc.AtomArrayStack, struc.AtomArray)
    if not o.check(isinstance(real, want_type) and not isinstance(real, other_type), "kind_matches", lambda: f"{ctx}: is {type(real).__name__}, model says {mc.kind}"):
        return False
    n = mc.n
    # (1) lengths / depths
    shape = (n,) if mc.kind == "array" else (mc.m, n)
    o.check(real.array_length() == n, "length_depth_coherent", lambda: f"{ctx}: array_length {real.array_length()} want {n}")
    o.check(tuple(real.shape) == shape, "length_depth_coherent", lambda: f"{ctx}: shape {real.shape} want {shape}")
    o.check(len(real) == shape[0], "length_depth_coherent", lambda: f"{ctx}: len {len(real)} want {shape[0]}")
    if mc.kind == "stack":
        o.check(real.stack_depth() == mc.m, "length_depth_coherent", lambda: f"{ctx}: stack_depth {real.stack_depth()} want {mc.m}")
    coord = real.coord
    ok = isinstance(coord, np.ndarray) and coord.shape == shape + (3,)
    o.check(ok, "length_depth_coherent", lambda: f"{ctx}: coord shape {getattr(coord, 'shape', None)} want {shape + (3,)}")
    if ok and o.check(np.issubdtype(coord.dtype, np.floating), "coord_equal_model", lambda: f"{ctx}: coord dtype {coord.dtype} is not a float type"):
        o.check(
            _same_list(coord.astype(float).tolist(), [list(c) for c in mc.coord] if mc.kind == "array" else [[list(c) for c in mod] for mod in mc.coord]),
            "coord_equal_model",
            lambda: f"{ctx}: coord {coord.tolist()} want {mc.coord}",
        )
    # annotations
    cats = real.get_annotation_categories()
    o.check(
        sorted(cats) == sorted(mc.cats) and len(set(cats)) == len(cats),
        "annotations_equal_model",
        lambda: f"{ctx}: categories {sorted(cats)} want {sorted(mc.cats)}",
    )
    for name, kind in mc.cats.items():
        if name not in cats:
            continue
        arr = real.get_annotation(name)
        if not o.check(
            isinstance(arr, np.ndarray) and arr.shape == (n,),
            "length_depth_coherent",
            lambda: f"{ctx}: annotation {name} has shape {getattr(arr, 'shape', None)}, array length is {n}",
        ):
            continue
        o.check(arr.dtype.kind in KIND_OK[kind], "annotations_equal_model", lambda: f"{ctx}: annotation {name} has dtype {arr.dtype}, want kind {kind}")
        o.check(
            _same_list(arr.tolist(), [a[name] for a in mc.ann]),
            "annotations_equal_model",
            lambda: f"{ctx}: annotation {name} = {arr.tolist()}, want {[a[name] for a in mc.ann]}",
        )
    # box
    box = real.box
    if mc.box is None:
        o.check(box is None, "box_equal_model", lambda: f"{ctx}: box is {box!r}, want None")
    elif o.check(box is not None, "box_equal_model", lambda: f"{ctx}: box is None, want {mc.box}"):
        bshape = shape[:-1] + (3, 3)
        if o.check(
            isinstance(box, np.ndarray) and box.shape == bshape,
            "length_depth_coherent",
            lambda: f"{ctx}: box shape {getattr(box, 'shape', None)} want {bshape} (container shape {shape})",
        ):
            want = [list(r) for r in mc.box] if mc.kind == "array" else [[list(r) for r in b] for b in mc.box]
            o.check(_same_list(box.astype(float).tolist(), want), "box_equal_model", lambda: f"{ctx}: box {box.tolist()} want {want}")
    # bonds
    bl = real.bonds
    if mc.bonds is None:
        o.check(bl is None, "bonds_equal_model", lambda: f"{ctx}: bonds is {bl!r}, want None")
    elif o.check(bl is not None, "bonds_equal_model", lambda: f"{ctx}: bonds is None, want {mc.bonds}"):
        o.check(bl.get_atom_count() == n, "length_depth_coherent", lambda: f"{ctx}: bonds.get_atom_count() {bl.get_atom_count()}, array length {n}")
        got = real_bond_dict(o, bl, n, ctx, strict_dup=not mc.loose_bonds)
        if got is not None and mc.loose_bonds:
            # content unspecified (duplicated atom index): coherent with n is all that is required;
            # from here on the observed bonds are the reference
            mc.bonds, mc.loose_bonds = got, False
        elif got is not None:
            o.check(got == mc.bonds, "bonds_equal_model", lambda: f"{ctx}: bonds {sorted(got.items())} want {sorted(mc.bonds.items())}")
            if "uid" in cats and real.get_annotation("uid").shape == (n,):
                uid = real.get_annotation("uid").tolist()
                ub = sorted((min(uid[i], uid[j]), max(uid[i], uid[j]), t) for (i, j), t in got.items())
                o.check(ub == mc.uid_bonds(), "bonds_connect_same_atoms", lambda: f"{ctx}: bonds by uid {ub} want {mc.uid_bonds()}")
    if len(o.violations) != nv:
        return False
    # (3) == against the container built from the model
    if eq_check and not mc.has_nan():
        built = build_api(mc)
        o.check(real == built, "equals_model_built_container", lambda: f"{ctx}: container != container built from the model via array()/stack()")
        o.check(built == real, "equals_model_built_container", lambda: f"{ctx}: model-built container != container")
    return len(o.violations) == nv


# --------------------------------------------------------------------------
# index descriptors: raw (case) -> reduced to the current axis length
# --------------------------------------------------------------------------
def reduce_idx(raw, length, allow_below):
    """raw descriptor from the case -> (descriptor for model/real, label).

    allow_below: whether an integer below -length may be produced (never on the
    atom axis of a container with bonds: BondList index < -n belongs to C02)."""
    tag = raw[0]
    if tag == "int":
        if length == 0:
            return ("int", raw[1] % 3), "int-bad"
        i = raw[1] % (2 * length) - length
        return ("int", i, raw[2]), ("int-neg" if i < 0 else "int")
    if tag == "int0d":
        p, f = raw[1], raw[2]
        if length == 0 or f % 8 == 7:
            return ("int0d", length + p % 3, "int64"), "int0d-bad"
        i = p % (2 * length) - length
        return ("int0d", i, _DT_0D[f % 8]), ("int0d-neg" if i < 0 else "int0d")
    if tag == "slice":
        a, b, c = raw[1], raw[2], raw[3]
        lab = "slice"
        if c is not None and c < 0:
            lab += "-negstep"
        elif c is not None and c > 1:
            lab += "-step"
        if (a is not None and a < 0) or (b is not None and b < 0):
            lab += "-neg"
        return ("slice", a, b, c), lab
    if tag == "mask":
        bits = [bool(_cyc(raw[1], i)) for i in range(length)]
        return ("mask", bits, raw[2]), "mask"
    if tag == "arr":
        vals = [] if length == 0 else [r % (2 * length) - length for r in raw[1]]
        if not raw[2] and vals and len(raw[1]) % 2:
            vals = vals + [vals[0]]  # non-unique requested: make a duplicate likely
            if len(raw[1]) % 4 == 3:
                vals = [v % length for v in vals]  # ... spelled with non-negative values only
        if raw[2]:  # unique positions
            seen, out = set(), []
            for v in vals:
                if v % length not in seen:
                    seen.add(v % length)
                    out.append(v)
            vals = out
        dup = len({v % length for v in vals}) != len(vals) if length else False
        lab = "arr" + ("-neg" if any(v < 0 for v in vals) else "") + ("-dup" if dup else "")
        return ("arr", vals, raw[3]), lab
    if tag == "ell":
        return ("ell",), "ell"
    if tag == "badint":
        k, neg = raw[1], raw[2]
        if neg and allow_below:
            return ("int", -(length + 1 + k), False), "int-bad"
        return ("int", length + k, False), "int-bad"
    if tag == "badmask":
        ln = length + raw[1]
        if ln < 1 or ln == length:
            # (numpy accepts an *empty* boolean index on an axis of length 1)
            ln = length + 1
        return ("mask", [True] * ln, False), "mask-bad"
    if tag == "badarr":
        k, neg = raw[1], raw[2]
        bad = -(length + 1 + k) if (neg and allow_below) else length + k
        vals = [0, bad] if length else [bad]
        return ("arr", vals, "int64"), "arr-bad"
    raise AssertionError(raw)


_DT_0D = ["int64", "int8", "int32", "uint8", "int16", "int64", "uint16", "int64"]
F1 = "C01-F1"
# context of the index that is being built (set by the interpreter): atom count of the container,
# whether it has a BondList, and the outcome that counts narrowed cases
_IDX_CTX = {"n": 0, "bonds": False, "o": None}


def set_idx_ctx(n, bonds, o):
    """Must be called by every caller of np_index() for the container that is about to be indexed."""
    _IDX_CTX.update(n=n, bonds=bonds, o=o)


def np_index(d):
    tag = d[0]
    if tag == "int":
        return np.int64(d[1]) if len(d) > 2 and d[2] else int(d[1])
    if tag == "slice":
        return slice(d[1], d[2], d[3])
    if tag == "mask":
        if d[2] and d[1]:
            return list(d[1])
        return np.array(d[1], dtype=bool)
    if tag in ("arr", "int0d"):
        dt = d[2]
        if dt == "list":
            return list(d[1])
        vals = [d[1]] if tag == "int0d" else d[1]
        if any(not (np.iinfo(dt).min <= v <= np.iinfo(dt).max) for v in vals):
            dt = "int64"  # the requested dtype cannot hold the values
        if findings.is_open(F1) and not _IDX_CTX.get("no_exclude") and _IDX_CTX["bonds"] and _IDX_CTX["n"] > np.iinfo(dt).max:
            # open finding C01-F1: BondList cannot be indexed with an index array whose integer dtype
            # cannot hold the atom count (OverflowError) - use a wide dtype instead and count it
            if _IDX_CTX["o"] is not None:
                _IDX_CTX["o"].exclude(F1)
            dt = "int64"
        return np.array(d[1], dtype=dt)  # int0d: d[1] is a plain int -> zero-dimensional array
    if tag == "ell":
        return Ellipsis
    raise AssertionError(d)


def _int_as(i, npint, length=0):
    """i as Python int (0), np.int64 (1) or the narrowest signed NumPy integer (2) that holds i and
    i +- length: NumPy itself normalises a negative index as ``index + length`` in the dtype of the index
    (``np.delete(np.zeros(132), np.int8(-5))`` raises OverflowError), so a narrower type is not an
    index value NumPy accepts for that axis."""
    if not npint:
        return int(i)
    if npint % 2:
        return np.int64(i)
    top = abs(int(i)) + int(length)
    return np.int8(i) if top <= 127 else np.int16(i) if top < 2**15 else np.int64(i)


def zero_d_lenient(mcall):
    """Model call for ``array[0-d integer array]`` and for a 0-d integer array on the atom axis of a
    2-tuple: NumPy treats it as an integer, biotite documents nothing beyond "all index types NumPy
    accepts" and refuses it today.  Accepted: a clean exception (source unchanged) or the result the
    model gives for the integer.  An index that is invalid anyway must raise."""

    def call():
        try:
            res = mcall()
        except M.Invalid as inv:
            kinds = inv.kind if isinstance(inv.kind, tuple) else (inv.kind,)
            raise M.Invalid(tuple(dict.fromkeys(kinds + ("any",))), inv.why) from None
        raise M.Invalid("any", "zero-dimensional integer array off the model axis", alt=lambda: res, alt_exc=EXC["any"], label="int0d")

    return call


def zero_d_strict(mcall):
    """``stack[0-d integer array]`` equals ``stack[int]``; out of range: IndexError like an integer, or
    another clean exception."""

    def call():
        try:
            return mcall()
        except M.Invalid as inv:
            if inv.alt is not None:
                raise  # another undocumented class on the other axis decides
            kinds = inv.kind if isinstance(inv.kind, tuple) else (inv.kind,)
            raise M.Invalid(tuple(dict.fromkeys(kinds + ("any",))), inv.why) from None

    return call


def is_fancy(label):
    return label.startswith(("mask", "arr")) or "neg" in label


# --------------------------------------------------------------------------
# interpreter
# --------------------------------------------------------------------------
class Slot:
    __slots__ = ("real", "model", "prov")

    def __init__(self, real, model, prov):
        self.real = real
        self.model = model
        self.prov = prov


class Interp:
    def __init__(self, o):
        self.o = o
        self.slots = [None] * NSLOTS
        self.uid = [0]
        self._prov = 0
        self.step = -1
        self.op = None
        self.dirty = set()
        self.saw_fancy_index = False
        self.saw_structural = False
        self.classes = set()  # coarse index classes seen in this history (one label each)

    # ---- helpers
    def ctx(self, extra=""):
        return f"step {self.step} {self.op!r}{' ' + extra if extra else ''}"

    def fresh(self):
        self._prov += 1
        return self._prov

    def get(self, raw):
        return self.slots[raw % NSLOTS]

    def put(self, raw_dst, real, model, prov):
        self.slots[raw_dst % NSLOTS] = Slot(real, model, set(prov) | {self.fresh()})
        self.dirty.add(raw_dst % NSLOTS)

    def skip(self, why):
        self.o.label("skip:" + why)

    def attempt(self, model_call, real_call):
        """Run the operation on the model, then on the real object.  If the model
        rejects it the real call must raise the corresponding exception."""
        try:
            mres = model_call()
        except M.Invalid as inv:
            if inv.alt is not None:
                # input class without any documented treatment: an exception (of whatever type) or
                # the result the model gives when the class is supported
                name = inv.label or _kind_label(inv.kind)
                try:
                    rres = real_call()
                except (inv.alt_exc or Exception) as e:  # noqa: BLE001
                    self.o.label(f"undocumented:{name}:raised:{type(e).__name__}")
                    return False, None, None
                self.o.label(f"undocumented:{name}:returned")
                return True, inv.alt(), rres
            self.o.label(f"rejected:{inv.kind if isinstance(inv.kind, str) else 'multi'}")
            self.o.expect_raises(exc_for(inv.kind), real_call, "invalid_operation_rejected", self.ctx(f"(model: {inv.why})"))
            return False, None, None
        return True, mres, real_call()

    def before_inplace_write(self, k):
        """Rebuild every other slot that may share memory with slot k through a
        documented-as-allowed route (view, shared annotation array)."""
        me = self.slots[k]
        for j, s in enumerate(self.slots):
            if j != k and s is not None and s.prov & me.prov:
                self.slots[j] = Slot(build_real(s.model), s.model, {self.fresh()})
                self.o.label("alias_rebuild")
        me.prov = {self.fresh()}

    def structural(self, *models):
        if any(m.bonds is not None or m.box is not None for m in models):
            self.saw_structural = True

    def check_all(self, final=False):
        for k, s in enumerate(self.slots):
            if s is None:
                continue
            ok = check_state(self.o, s.real, s.model, self.ctx(f"slot {k}"), eq_check=(final or k in self.dirty))
            if not ok:
                return False
        self.dirty.clear()
        return True

    # ---- operations
    def op_new(self, dst, spec):
        mc = spec_to_model(spec, self.uid)
        self.put(dst, build_real(mc), mc, ())
        self.o.label(f"new:{mc.kind}")

    def _index_call(self, s, form, raw0, raw1):
        """Returns (model_call, real_call, labels)."""
        mc, real = s.model, s.real
        has_bonds = mc.bonds is not None
        set_idx_ctx(mc.n, has_bonds, self.o)
        if form == "md":
            # one index more than the container has axes: array[i, j] / stack[i, j, k]
            def bad():
                raise M.Invalid("any", "more index dimensions than the container has axes")

            d1, lab1 = reduce_idx(raw1, mc.n, not has_bonds)
            ix1 = np_index(d1)
            set_idx_ctx(mc.m if mc.kind == "stack" else mc.n, False, self.o)
            d0, lab0 = reduce_idx(raw0, mc.m if mc.kind == "stack" else mc.n, False)
            ix0 = np_index(d0)
            if mc.kind == "array":
                if lab0 == "ell":
                    ix0 = slice(None)  # (Ellipsis, idx) is the documented two-tuple
                return bad, (lambda: real[ix0, ix1]), ["md:array"], []
            return bad, (lambda: real[ix0, ix1, 0]), ["md:stack"], []
        if mc.kind == "array":
            raw = raw0 if form == "1d" else raw1
            d, lab = reduce_idx(raw, mc.n, not has_bonds)
            ix = np_index(d)
            mcall = lambda: mc.index(d)  # noqa: E731
            if d[0] == "int0d":
                mcall = zero_d_lenient(mcall)
            if form == "te":
                return mcall, (lambda: real[..., ix]), ["te:" + lab], [lab]
            return mcall, (lambda: real[ix]), [lab], [lab]
        if form == "1d":
            d0, lab0 = reduce_idx(raw0, mc.m, True)
            ix0 = np_index(d0)
            mcall = lambda: mc.index(d0)  # noqa: E731
            if d0[0] == "int0d":
                mcall = zero_d_strict(mcall)
            return mcall, (lambda: real[ix0]), ["model:" + lab0], [lab0]
        d1, lab1 = reduce_idx(raw1, mc.n, not has_bonds)
        ix1 = np_index(d1)
        if form == "te":
            d0, lab0, ix0 = ("ell",), "ell", Ellipsis
        else:
            d0, lab0 = reduce_idx(raw0, mc.m, True)
            ix0 = np_index(d0)
            if lab0.endswith("bad") and lab1.endswith("bad"):
                # keep one defect per index so that the expected error is unambiguous
                d0, lab0, ix0 = ("slice", None, None, None), "slice", slice(None)
        k0 = lab0.split("-")[0]
        k1 = lab1.split("-")[0]
        mcall = lambda: mc.index(d0, d1)  # noqa: E731
        if d0[0] == "int0d":
            # model axis: the 0-d integer array is the integer (strict); out of range -> a clean exception
            mcall = zero_d_strict(mcall)
        if d1[0] == "int0d":
            mcall = zero_d_lenient(mcall)
        return mcall, (lambda: real[ix0, ix1]), [f"2d:{k0}x{k1}", "atomaxis:" + lab1], [lab0, lab1]

    def op_index(self, src, dst, form, raw0, raw1):
        s = self.get(src)
        if s is None:
            return self.skip("empty")
        mcall, rcall, labels, kinds = self._index_call(s, form, raw0, raw1)
        self.o.label(*["idx:" + lab for lab in labels])
        if form == "md":
            self.classes.add("multidim")
        elif s.model.kind == "stack" and form != "1d":
            self.classes.add("2d" if form == "2d" else "tuple_ellipsis")
        elif form == "te":
            self.classes.add("tuple_ellipsis")
        for lab in kinds:
            head = lab.split("-")[0]
            self.classes.add(head)
            if lab.endswith("bad"):
                self.classes.add("out_of_range")
            elif "neg" in lab:
                self.classes.add(head + "-neg")
            if "step" in lab:
                self.classes.add("slice-step")
            if "dup" in lab:
                self.classes.add("arr-dup" + ("-with-bonds" if s.model.bonds is not None else ""))
        before_uid = None
        if s.model.bonds is not None:
            uids = [a["uid"] for a in s.model.ann]
            if len(set(uids)) == len(uids):
                before_uid = s.model.uid_bonds()
        ok, mres, rres = self.attempt(mcall, rcall)
        if not ok:
            return
        if any(is_fancy(k) for k in kinds):
            self.saw_fancy_index = True
        what, mval = mres
        if what == "atom":
            check_atom(self.o, rres, mval, self.ctx("result"))
            # Whether the returned Atom is a view of the container is documented nowhere (label only);
            # its copy() must be independent of it and of the container.
            if isinstance(getattr(rres, "coord", None), np.ndarray):
                self.o.label("returned_atom:" + ("view" if np.shares_memory(rres.coord, s.real.coord) else "independent"))
            if self.o.ok:
                check_atom_copy(self.o, rres, mval, self.ctx("result"))
            return
        self.put(dst, rres, mval, s.prov)
        # bonds keep connecting the same atoms: judged on the real objects alone
        if (
            before_uid is not None
            and getattr(rres, "bonds", None) is not None
            and "uid" in rres.get_annotation_categories()
            and len(rres.get_annotation("uid")) == rres.bonds.get_atom_count()
            and len(set(rres.get_annotation("uid").tolist())) == len(rres.get_annotation("uid"))
        ):
            kept = set(rres.get_annotation("uid").tolist())
            want = [b for b in before_uid if b[0] in kept and b[1] in kept]
            uid = rres.get_annotation("uid").tolist()
            got = sorted(
                (min(uid[i], uid[j]), max(uid[i], uid[j]), t) for i, j, t in np.asarray(rres.bonds.as_array()).tolist()
            )
            self.o.check(got == want, "bonds_connect_same_atoms", lambda: self.ctx(f"bonds by uid after indexing {got}, want {want}"))

    def op_concat(self, srcs, dst, plus, compat, spec, container=0):
        import biotite.structure as struc

        first = self.get(srcs[0])
        if first is None:
            return self.skip("empty")
        parts = [first]
        for raw in srcs[1:]:
            if compat:
                cands = [
                    s
                    for s in self.slots
                    if s is not None
                    and s.model.kind == first.model.kind
                    and (s.model.kind == "array" or s.model.m == first.model.m)
                ]
                parts.append(cands[raw % len(cands)])
            elif self.get(raw) is not None:
                parts.append(self.get(raw))
        if spec is not None:
            mc = spec_to_model(spec, self.uid, kind=first.model.kind, m=None if first.model.kind == "array" else first.model.m)
            parts.append(Slot(build_real(mc), mc, set()))
        if len(parts) < 2:
            parts.append(first)
        models = [p.model for p in parts]
        reals = [p.real for p in parts]
        if sum(m.n for m in models) > MAX_ATOMS:
            return self.skip("too-large")
        use_plus = plus and len(parts) == 2
        # documented argument: "iterable object of AtomArray or AtomArrayStack"
        wrap = [list, tuple, iter][container % 3]
        ok, mres, rres = self.attempt(
            lambda: M.concatenate(models),
            (lambda: reals[0] + reals[1]) if use_plus else (lambda: struc.concatenate(wrap(reals))),
        )
        self.o.label("concat:" + ("plus" if use_plus else str(len(parts))))
        if not use_plus:
            self.o.label("concat:arg=" + ["list", "tuple", "iterator"][container % 3])
        if not ok:
            return
        self.structural(*models)
        if len({tuple(sorted(m.cats)) for m in models}) > 1:
            self.o.label("concat:different_categories")
        if any(m.bonds is None for m in models) and any(m.bonds is not None for m in models):
            self.o.label("concat:some_without_bonds")
        if any(m.box is None for m in models) and any(m.box is not None for m in models):
            self.o.label("concat:some_without_box")
        prov = set()
        for p in parts:
            prov |= p.prov
        self.put(dst, rres, mres, prov)

    def op_stack(self, src, dst, shifts, nobox, badann):
        import biotite.structure as struc

        s = self.get(src)
        if s is None:
            return self.skip("empty")
        mc = s.model
        if mc.kind == "stack":
            if mc.m == 0:
                return self.skip("stack-of-nothing")
            idx = [sh % (2 * mc.m) - mc.m for sh in (shifts or [0])]
            models = [mc.get_model(M.norm_int(i, mc.m)) for i in idx]
            reals = [s.real[i] for i in idx]
            self.o.label("stack:from_models")
        else:
            models = [mc]
            reals = [s.real]
            for sh in shifts:
                v = mc.clone()
                v.coord = shift_coords(v.coord, sh)
                if v.box is not None:
                    v.box = shift_box(v.box, sh)
                models.append(v)
            if nobox is not None and mc.box is not None and len(models) > 1:
                models[1 + nobox % (len(models) - 1)].box = None
                self.o.label("stack:one_without_box")
            if badann and len(models) > 1 and mc.n:
                models[-1].ann[0]["res_id"] += 1
            reals += [build_real(v) for v in models[1:]]
            self.o.label("stack:from_arrays")
        partial = any(v.box is None for v in models) and any(v.box is not None for v in models)
        try:
            mres = M.stack(models)
        except M.Invalid:
            partial = False  # rejected for another reason: the generic path decides
        if partial:
            # only some arrays have a box: the docstring of stack() is silent -> no box at all, or refused
            try:
                rres = struc.stack(reals)
            except (ValueError, TypeError) as e:
                self.o.label(f"stack:partial_boxes:refused:{type(e).__name__}")
                return
            self.o.label("stack:partial_boxes:stacked")
        else:
            ok, mres, rres = self.attempt(lambda: M.stack(models), lambda: struc.stack(reals))
            if not ok:
                return
        self.structural(*models)
        self.put(dst, rres, mres, s.prov)

    def op_repeat(self, src, dst, shifts):
        import biotite.structure as struc

        s = self.get(src)
        if s is None:
            return self.skip("empty")
        mc = s.model
        k = len(shifts)
        if mc.n * k > MAX_ATOMS:
            return self.skip("too-large")
        if mc.kind == "array":
            coords = [shift_coords(mc.coord, sh) for sh in shifts]
            arr = np.array(coords, dtype=np.float32).reshape(k, mc.n, 3)
        else:
            coords = [[shift_coords(mod, sh) for mod in mc.coord] for sh in shifts]
            arr = np.array(coords, dtype=np.float32).reshape(k, mc.m, mc.n, 3)
        ok, mres, rres = self.attempt(lambda: M.repeat(mc, coords), lambda: struc.repeat(s.real, arr))
        self.o.label(f"repeat:k={k}")
        if mc.kind == "stack" and mc.m > 1 and k > 1 and mc.n:
            self.o.label("repeat:stack_m>1_k>1")
        if ok:
            self.structural(mc)
            self.put(dst, rres, mres, s.prov)

    def op_from_template(self, src, dst, shifts, withbox, bad):
        import biotite.structure as struc

        s = self.get(src)
        if s is None:
            return self.skip("empty")
        mc = s.model
        if mc.kind == "array":
            base, bbox = list(mc.coord), mc.box
        elif mc.m:
            base, bbox = list(mc.coord[0]), (mc.box[0] if mc.box is not None else None)
        else:
            base, bbox = [(0.0, 0.0, 0.0)] * mc.n, None
        if bad and shifts:
            base = base + [(9.0, 9.0, 9.0)]
        n = len(base)
        coords = [shift_coords(base, sh) for sh in shifts]
        boxes = [shift_box(bbox or DEFAULT_BOX, sh) for sh in shifts] if withbox else None
        carr = np.array(coords, dtype=np.float32).reshape(len(shifts), n, 3)
        barr = None if boxes is None else np.array(boxes, dtype=np.float32).reshape(len(shifts), 3, 3)
        ok, mres, rres = self.attempt(
            lambda: M.from_template(mc, coords, boxes), lambda: struc.from_template(s.real, carr, barr)
        )
        self.o.label(f"from_template:{mc.kind}")
        if ok:
            self.put(dst, rres, mres, s.prov)

    def op_array(self, src, dst, raws):
        import biotite.structure as struc

        s = self.get(src)
        if s is None:
            return self.skip("empty")
        mc = s.model
        if mc.n == 0 or (mc.kind == "stack" and mc.m == 0):
            return self.skip("no-atoms")
        idx = [r % (2 * mc.n) - mc.n for r in raws]
        if mc.kind == "array":
            matoms = [mc.atom_at(M.norm_int(i, mc.n)) for i in idx]
            atoms = [s.real[i] for i in idx]
        else:
            j = raws[0] % (2 * mc.m) - mc.m
            arr = mc.get_model(M.norm_int(j, mc.m))
            matoms = [arr.atom_at(M.norm_int(i, mc.n)) for i in idx]
            atoms = [s.real[j, i] for i in idx]
        for a, ma in zip(atoms, matoms):
            check_atom(self.o, a, ma, self.ctx("atom"))
        ok, mres, rres = self.attempt(lambda: M.array(matoms, mc.cats), lambda: struc.array(atoms))
        self.o.label("array()")
        if ok:
            self.put(dst, rres, mres, ())

    def op_del(self, slot, raw, bad, npint=0):
        s = self.get(slot)
        if s is None:
            return self.skip("empty")
        mc = s.model
        length = mc.n if mc.kind == "array" else mc.m
        below_ok = mc.kind == "stack" or mc.bonds is None
        if bad or length == 0:
            i = -(length + 1 + raw % 2) if (raw % 4 >= 2 and below_ok) else length + raw % 2
            lab = "bad"
        else:
            i = raw % (2 * length) - length
            lab = "neg" if i < 0 else "pos"
        real = s.real
        ix = _int_as(i, npint, length)

        def rcall():
            del real[ix]

        had = mc.clone()
        ok, _, _ = self.attempt(lambda: mc.delete(i), rcall)
        self.o.label(f"del:{'atom' if mc.kind == 'array' else 'model'}:{lab}", "del:index_type=" + type(ix).__name__)
        if ok:
            self.structural(had)
            self.dirty.add(slot % NSLOTS)

    def _atom_for(self, mc, vals, shift, real):
        mand = dict(zip([n for n, _ in M.MANDATORY], vals))
        ann = {}
        for name in mc.cats:
            if name == "uid":
                ann[name] = self.uid[0]
                self.uid[0] += 1
            elif name in mand:
                ann[name] = fit_width(real, name, mand[name])
            else:
                ann[name] = fit_width(real, name, value_for(name, shift))
        return {"ann": ann, "coord": (shift * 0.25, shift * 0.5 + 1.0, -shift * 0.25)}

    def op_set(self, slot, raw, vals, shift, many, bad, npint=0):
        s = self.get(slot)
        if s is None:
            return self.skip("empty")
        mc, real = s.model, s.real
        k = slot % NSLOTS
        self.before_inplace_write(k)
        set_idx_ctx(mc.n, mc.bonds is not None, self.o)
        if mc.kind == "array":
            matom = self._atom_for(mc, vals, shift, real)
            atom = real_atom(matom)
            if many is not None and mc.n:
                # documented index type of __setitem__ is int; an index array works today.  Either it is
                # performed (then like the model) or refused, leaving the array as it was (compared below)
                d = ("arr", list(dict.fromkeys(r % (2 * mc.n) - mc.n for r in many)), "int64")
                ix = np_index(d)
                try:
                    real[ix] = atom
                except (TypeError, IndexError, ValueError) as e:
                    self.o.label(f"set:index_array_refused:{type(e).__name__}")
                else:
                    mc.set_atoms(d, matom)
                    self.o.label("set:atoms_by_index_array")
                self.dirty.add(k)
                return
            else:
                if bad or mc.n == 0:
                    d = ("int", mc.n + raw % 2)
                    self.o.label("set:atom:bad")
                else:
                    d = ("int", raw % (2 * mc.n) - mc.n)
                    self.o.label("set:atom:neg" if d[1] < 0 else "set:atom:pos")
                ix = _int_as(d[1], npint, mc.n)
                self.o.label("set:index_type=" + type(ix).__name__)

            def rcall():
                real[ix] = atom

            self.attempt(lambda: mc.set_atoms(d, matom), rcall)
        else:
            if mc.m:
                j = raw % (2 * mc.m) - mc.m
                arr = mc.get_model(M.norm_int((raw // 7) % mc.m, mc.m))
            else:
                j = raw % 2
                arr = M.MC("array", mc.cats, [dict(a) for a in mc.ann], [(0.0, 0.0, 0.0)] * mc.n, None, None if mc.bonds is None else dict(mc.bonds))
                if mc.box is not None:
                    arr.box = DEFAULT_BOX
            if bad:
                j = mc.m + raw % 2
            jx = _int_as(j, npint, mc.m)
            self.o.label("set:index_type=" + type(jx).__name__)
            arr.coord = shift_coords(arr.coord, shift)
            if arr.box is not None:
                arr.box = shift_box(arr.box, shift)
            if bad and mc.n and raw % 3 == 0:
                arr.ann[0]["res_id"] += 1
            rarr = build_real(arr)
            self.o.label("set:model:bad" if (bad or not mc.m) else ("set:model:neg" if j < 0 else "set:model:pos"))

            def rcall():
                real[jx] = rarr

            self.attempt(lambda: mc.set_model(j, arr), rcall)
        self.dirty.add(k)

    def op_set_annot(self, slot, cat, vals, via_attr, badlen):
        s = self.get(slot)
        if s is None:
            return self.skip("empty")
        mc, real = s.model, s.real
        name = EDITABLE[cat % len(EDITABLE)]
        if name in mc.cats and any(
            j != slot % NSLOTS and t is not None and t.prov & s.prov for j, t in enumerate(self.slots)
        ):
            # whole-category assignment on a container that may share its annotation arrays with another
            # slot (slice view, stack[i], stack([...])): NOT excused (clause whole_annotation_assignment_local)
            self.o.label("annot:whole_assignment_on_view_sharing_container")
        length = mc.n + badlen
        if length < 0:
            length = mc.n + 1
        values = [value_for(name, _cyc(vals, i)) for i in range(length)]
        arr = np.array(values, dtype=DTYPE[name])
        old_dtype = real.get_annotation(name).dtype if name in mc.cats else None
        if len(vals) % 2 == 0 and length > 0:
            # the same values in the narrowest dtype that holds them (e.g. '<U2', int8): documented is
            # that "a compatible dtype is chosen, that is able to represent the old and new array values"
            narrow = np.array(values)
            if narrow.dtype.kind in "iu" and all(-128 <= int(v) <= 127 for v in values):
                narrow = narrow.astype(np.int8)
            if narrow.dtype.kind == arr.dtype.kind and narrow.dtype.itemsize <= arr.dtype.itemsize and narrow.tolist() == arr.tolist():
                arr = narrow
                self.o.label("annot:narrow_dtype_array")
        if via_attr and name in mc.cats:
            self.o.label("annot:attribute_assignment")

            def rcall():
                setattr(real, name, arr)

        else:
            self.o.label("annot:set_annotation" + ("" if name in mc.cats else ":new"))

            def rcall():
                real.set_annotation(name, arr)

        self.attempt(lambda: mc.set_annotation(name, KIND[name], values), rcall)
        if old_dtype is not None and length == mc.n and name in real.get_annotation_categories():
            new_dtype = real.get_annotation(name).dtype
            self.o.check(
                np.can_cast(old_dtype, new_dtype, "safe"),
                "annotation_dtype_keeps_old_values_representable",
                lambda: self.ctx(f"annotation {name!r}: dtype {old_dtype} became {new_dtype} after assigning a {arr.dtype} array"),
            )
        self.dirty.add(slot % NSLOTS)

    def op_annot_elem(self, slot, cat, raw, v, via_attr):
        s = self.get(slot)
        if s is None:
            return self.skip("empty")
        mc, real = s.model, s.real
        if mc.n == 0:
            return self.skip("no-atoms")
        names = [n for n in mc.cats if n != "uid"]
        name = names[cat % len(names)]
        i = raw % (2 * mc.n) - mc.n
        value = fit_width(real, name, value_for(name, v))
        self.before_inplace_write(slot % NSLOTS)
        target = getattr(real, name) if via_attr else real.get_annotation(name)
        target[i] = value
        mc.ann[M.norm_int(i, mc.n)][name] = value
        self.o.label("annot:element_write")
        self.dirty.add(slot % NSLOTS)

    def op_add_annot(self, slot, which):
        s = self.get(slot)
        if s is None:
            return self.skip("empty")
        name = EXTRA_NAMES[which % len(EXTRA_NAMES)]
        s.real.add_annotation(name, DTYPE[name])
        s.model.add_annotation(name, EXTRA[name])
        self.o.label("annot:add")
        self.dirty.add(slot % NSLOTS)

    def op_del_annot(self, slot, which):
        s = self.get(slot)
        if s is None:
            return self.skip("empty")
        # "Removes an annotation category": nothing is said about a category that does not exist,
        # so only existing ones are removed
        present = [n for n in EXTRA_NAMES if n in s.model.cats]
        if not present:
            return self.skip("no-such-category")
        name = present[which % len(present)]
        s.real.del_annotation(name)
        s.model.del_annotation(name)
        self.o.label("annot:del")
        self.dirty.add(slot % NSLOTS)

    def op_set_coord(self, slot, shift):
        s = self.get(slot)
        if s is None:
            return self.skip("empty")
        mc = s.model
        self.before_inplace_write(slot % NSLOTS)
        if mc.kind == "array":
            mc.coord = shift_coords(mc.coord, shift)
        else:
            mc.coord = [shift_coords(mod, shift) for mod in mc.coord]
        s.real.coord = _coord_array(mc)
        self.o.label("coord:assign")
        self.dirty.add(slot % NSLOTS)

    def op_coord_elem(self, slot, j, i, k, v):
        s = self.get(slot)
        if s is None:
            return self.skip("empty")
        mc, real = s.model, s.real
        if mc.n == 0 or (mc.kind == "stack" and mc.m == 0):
            return self.skip("no-atoms")
        self.before_inplace_write(slot % NSLOTS)
        i = i % (2 * mc.n) - mc.n
        value = float("nan") if v is None else v * 0.25
        if mc.kind == "array":
            real.coord[i, k] = value
            c = list(mc.coord[i])
            c[k] = value
            mc.coord[i] = tuple(c)
        else:
            j = j % (2 * mc.m) - mc.m
            real.coord[j, i, k] = value
            c = list(mc.coord[j][i])
            c[k] = value
            mc.coord[j][i] = tuple(c)
        self.o.label("coord:element_write")
        self.dirty.add(slot % NSLOTS)

    def op_set_box(self, slot, bq):
        s = self.get(slot)
        if s is None:
            return self.skip("empty")
        mc = s.model
        self.before_inplace_write(slot % NSLOTS)
        if bq is None:
            mc.box = None
            s.real.box = None
            self.o.label("box:remove")
        else:
            def one(j):
                return tuple(tuple((_cyc(bq, 3 * r + c) + 16 * (3 * r + c) + 2048 * j) / 4.0 for c in range(3)) for r in range(3))

            mc.box = one(0) if mc.kind == "array" else [one(j) for j in range(mc.m)]
            s.real.box = _box_array(mc)
            self.o.label("box:assign")
        self.dirty.add(slot % NSLOTS)

    def op_box_elem(self, slot, j, r, c, v):
        s = self.get(slot)
        if s is None:
            return self.skip("empty")
        mc, real = s.model, s.real
        if mc.box is None or (mc.kind == "stack" and mc.m == 0):
            return self.skip("no-box")
        self.before_inplace_write(slot % NSLOTS)
        value = v * 0.25

        def upd(box):
            rows = [list(row) for row in box]
            rows[r][c] = value
            return tuple(tuple(row) for row in rows)

        if mc.kind == "array":
            real.box[r, c] = value
            mc.box = upd(mc.box)
        else:
            j = j % (2 * mc.m) - mc.m
            real.box[j, r, c] = value
            mc.box[j] = upd(mc.box[j])
        self.o.label("box:element_write")
        self.dirty.add(slot % NSLOTS)

    def op_set_bonds(self, slot, bonds, badcount):
        from biotite.structure import BondList

        s = self.get(slot)
        if s is None:
            return self.skip("empty")
        mc, real = s.model, s.real
        self.before_inplace_write(slot % NSLOTS)
        if bonds is None:
            mc.bonds = None
            real.bonds = None
            self.o.label("bonds:remove")
        elif badcount:
            self.o.label("bonds:wrong_atom_count")
            self.o.expect_raises(
                EXC["any"], lambda: setattr(real, "bonds", BondList(mc.n + 1)), "invalid_operation_rejected", self.ctx("bond list for n+1 atoms")
            )
        else:
            new = {}
            if mc.n >= 2:
                for i, j, t in bonds:
                    i, j = i % mc.n, j % mc.n
                    if i != j and (min(i, j), max(i, j)) not in new:
                        new[(min(i, j), max(i, j))] = t
            mc.bonds = new
            real.bonds = _bond_list(mc.n, new)
            self.o.label("bonds:assign")
        self.dirty.add(slot % NSLOTS)

    def op_bond_add(self, slot, i, j, t):
        s = self.get(slot)
        if s is None:
            return self.skip("empty")
        mc, real = s.model, s.real
        if mc.bonds is None or mc.n < 2:
            return self.skip("no-bonds")
        i = i % (2 * mc.n) - mc.n
        j = j % (2 * mc.n) - mc.n
        pi, pj = M.norm_int(i, mc.n), M.norm_int(j, mc.n)
        if pi == pj:
            return self.skip("self-bond")
        self.before_inplace_write(slot % NSLOTS)
        real.bonds.add_bond(i, j, t)
        mc.bonds[(min(pi, pj), max(pi, pj))] = t
        self.o.label("bonds:add_bond")
        self.dirty.add(slot % NSLOTS)

    def op_copy(self, src, dst):
        s = self.get(src)
        if s is None:
            return self.skip("empty")
        clone = s.real.copy()
        check_no_shared_memory(self.o, s.real, clone, self.ctx())
        self.slots[dst % NSLOTS] = Slot(clone, s.model.clone(), {self.fresh()})
        self.dirty.add(dst % NSLOTS)
        self.o.label("copy")

    # ---- driver
    def run(self, ops):
        for self.step, self.op in enumerate(ops):
            getattr(self, "op_" + self.op[0])(*self.op[1:])
            if self.o.violations or not self.check_all():
                return
        self.step, self.op = len(ops), "final"
        self.check_all(final=True)
        # iteration protocol on the final state
        for k, s in enumerate(self.slots):
            if s is None or self.o.violations:
                continue
            items = list(s.real)
            if s.model.kind == "array":
                self.o.check(len(items) == s.model.n, "length_depth_coherent", lambda: self.ctx(f"slot {k}: iteration yields {len(items)} atoms"))
                for i, a in enumerate(items[: s.model.n]):
                    check_atom(self.o, a, s.model.atom_at(i), self.ctx(f"slot {k} iter[{i}]"))
                if s.model.n and self.o.ok:
                    # get_atom(): "The same as array[index], if index is an integer"
                    check_atom(self.o, s.real.get_atom(-1), s.model.atom_at(s.model.n - 1), self.ctx(f"slot {k} get_atom(-1)"))
                    check_atom_copy(self.o, items[0], s.model.atom_at(0), self.ctx(f"slot {k} iter[0]"))
                    self.o.label("final:get_atom")
            else:
                self.o.check(len(items) == s.model.m, "length_depth_coherent", lambda: self.ctx(f"slot {k}: iteration yields {len(items)} models"))
                for j, a in enumerate(items[: s.model.m]):
                    check_state(self.o, a, s.model.get_model(j), self.ctx(f"slot {k} iter[{j}]"), eq_check=False)
                if s.model.m and self.o.ok:
                    check_state(self.o, s.real.get_array(-1), s.model.get_model(s.model.m - 1), self.ctx(f"slot {k} get_array(-1)"), eq_check=False)
                    self.o.label("final:get_array")


def check_no_shared_memory(o, a, b, ctx):
    o.check(type(a) is type(b), "copy_equal", lambda: f"{ctx}: copy is a {type(b).__name__}")
    pairs = [("coord", a.coord, b.coord), ("box", a.box, b.box)]
    for name in a.get_annotation_categories():
        if name in b.get_annotation_categories():
            pairs.append((name, a.get_annotation(name), b.get_annotation(name)))
    if a.bonds is not None and b.bonds is not None:
        o.check(a.bonds is not b.bonds, "copy_independent", lambda: f"{ctx}: copy holds the same BondList object")
        ab, bb = getattr(a.bonds, "_bonds", None), getattr(b.bonds, "_bonds", None)
        if isinstance(ab, np.ndarray) and isinstance(bb, np.ndarray):
            pairs.append(("bonds._bonds", ab, bb))
    for name, x, y in pairs:
        if x is None or y is None:
            continue
        o.check(not np.shares_memory(x, y), "copy_independent", lambda: f"{ctx}: {name} of the copy shares memory with the original")


def run_history(case):
    o = Outcome()
    it = Interp(o)
    # reproducers of open findings carry "no_exclude": the narrowing of their input class is off
    _IDX_CTX["no_exclude"] = bool(case.get("no_exclude"))
    try:
        it.run(case["ops"])
    finally:
        _IDX_CTX["no_exclude"] = False
    o.mark_nontrivial(it.saw_fancy_index and it.saw_structural)
    if it.saw_fancy_index:
        o.label("has_fancy_or_negative_index")
    if it.saw_structural:
        o.label("has_structural_on_bonds_or_box")
    o.label(*["class:" + c for c in sorted(it.classes)])
    kinds = {s.model.kind for s in it.slots if s is not None}
    for s in it.slots:
        if s is None:
            continue
        mc = s.model
        o.label(
            "final:" + mc.kind,
            "final:bonds" if mc.bonds is not None else "final:nobonds",
            "final:box" if mc.box is not None else "final:nobox",
            "final:n=0" if mc.n == 0 else ("final:n>=5" if mc.n >= 5 else "final:n1-4"),
        )
        if mc.kind == "stack":
            o.label("final:m=0" if mc.m == 0 else "final:m>=1")
        if mc.has_nan():
            o.label("final:nan")
        if any(n in mc.cats for n in EXTRA_NAMES):
            o.label("final:extras")
    o.label("kinds:" + "+".join(sorted(kinds)))
    return o


# --------------------------------------------------------------------------
# copy independence: mutate one side through every mutable component
# --------------------------------------------------------------------------
def run_copy_indep(case):
    o = Outcome()
    uid = [0]
    mc = spec_to_model(case["spec"], uid)
    real = build_real(mc)
    if case["view"] is not None:
        # the object that is copied is itself a view of a larger container
        d, _ = reduce_idx(case["view"], mc.n, False)
        set_idx_ctx(mc.n, mc.bonds is not None, o)
        _, mc = mc.index(d) if mc.kind == "array" else mc.index(("ell",), d)
        real = real[np_index(d)] if mc.kind == "array" else real[:, np_index(d)]
        o.label("copy_of_view")
    clone = real.copy()
    mclone = mc.clone()
    rich = mc.bonds is not None or mc.box is not None
    if not check_state(o, clone, mclone, "copy"):
        return o
    check_no_shared_memory(o, real, clone, "copy")
    # which side is mutated
    if case["mutate_copy"]:
        mut, mmut, other, mother, who = clone, mclone, real, mc, "copy"
    else:
        mut, mmut, other, mother, who = real, mc, clone, mclone, "original"
    o.label("mutate:" + who, mc.kind)
    v = case["v"]
    n = mmut.n
    nmod = mmut.m if mmut.kind == "stack" else None
    steps = []

    def both(name):
        steps.append(name)
        ok1 = check_state(o, other, mother, f"after {name} on the {who}: the other side", eq_check=False)
        if not ok1:
            # re-attribute: the untouched side changed
            o.fail("copy_independent", f"mutating the {who} through {name} changed the other object")
        check_state(o, mut, mmut, f"after {name} on the {who}: the mutated side", eq_check=False)
        # the two objects now differ (by the model): == must notice it in both directions
        if not mmut.equals(mother):
            o.check(not (mut == other) and not (other == mut), "equality_detects_difference", f"after {name}: the containers still compare equal")
            o.check((mut != other) and (other != mut), "equality_detects_difference", f"after {name}: != is False for different containers")
        return o.ok

    has_elem = n > 0 and (nmod is None or nmod > 0)
    if has_elem:
        i = v % n
        if nmod is None:
            mut.coord[i, 1] = 77.5
            c = list(mmut.coord[i]); c[1] = 77.5; mmut.coord[i] = tuple(c)
        else:
            j = v % nmod
            mut.coord[j, i, 1] = 77.5
            c = list(mmut.coord[j][i]); c[1] = 77.5; mmut.coord[j][i] = tuple(c)
        if not both("coord element write"):
            return o
    if n > 0:
        i = v % n
        for name in list(mmut.cats):
            old = mmut.ann[i][name]
            new = fit_width(mut, name, value_for(name, v + 1)) if name != "uid" else 10**6
            if M.same_value(old, new):
                new = fit_width(mut, name, value_for(name, v + 2)) if name != "uid" else 10**6 + 1
            mut.get_annotation(name)[i] = new
            mmut.ann[i][name] = new
        if not both("annotation element writes"):
            return o
    if mmut.box is not None and (nmod is None or nmod > 0):
        if nmod is None:
            mut.box[2, 0] = -3.25
            rows = [list(r) for r in mmut.box]; rows[2][0] = -3.25; mmut.box = tuple(tuple(r) for r in rows)
        else:
            j = v % nmod
            mut.box[j, 2, 0] = -3.25
            rows = [list(r) for r in mmut.box[j]]; rows[2][0] = -3.25; mmut.box[j] = tuple(tuple(r) for r in rows)
        if not both("box element write"):
            return o
    if mmut.bonds is not None and n >= 2:
        i, j = v % n, (v + 1) % n
        key = (min(i, j), max(i, j))
        t = (mmut.bonds.get(key, 0) + 1) % N_BOND_TYPES
        mut.bonds.add_bond(i, j, t)
        mmut.bonds[key] = t
        if not both("bonds.add_bond"):
            return o
        if len(mmut.bonds) > 1:
            (a, b) = sorted(mmut.bonds)[v % len(mmut.bonds)]
            mut.bonds.remove_bond(a, b)
            del mmut.bonds[(a, b)]
            if not both("bonds.remove_bond"):
                return o
    if mmut.kind == "array" and n > 0:
        matom = {"ann": {name: (fit_width(mut, name, value_for(name, v + 3)) if name != "uid" else 10**6 + 2) for name in mmut.cats}, "coord": (0.5, -0.5, 8.0)}
        mut[-1] = real_atom(matom)
        mmut.set_atoms(("int", -1), matom)
        if not both("element assignment"):
            return o
    if mmut.kind == "stack" and nmod:
        # stack[j] = array (another model of the same stack, moved)
        j = v % (2 * nmod) - nmod
        marr = mmut.get_model((v // 3) % nmod)
        marr.coord = shift_coords(marr.coord, 5 + v % 7)
        if marr.box is not None:
            marr.box = shift_box(marr.box, 3 + v % 5)
        mut[j] = build_real(marr)
        mmut.set_model(j, marr)
        if not both("model assignment"):
            return o
    # whole-component assignments on one side
    if mmut.kind == "array":
        mmut.coord = shift_coords(mmut.coord, -7)
    else:
        mmut.coord = [shift_coords(mod, -7) for mod in mmut.coord]
    mut.coord = _coord_array(mmut)
    if n:
        values = [a["res_id"] + 17 for a in mmut.ann]
        mmut.set_annotation("res_id", "i", values)
        if v % 2:
            mut.set_annotation("res_id", np.array(values, dtype=np.int64))
        else:
            mut.res_id = np.array(values, dtype=np.int64)
    if mmut.box is not None:
        mmut.box = shift_box(mmut.box, 9) if mmut.kind == "array" else [shift_box(b, 9) for b in mmut.box]
        mut.box = _box_array(mmut)
    if not both("coord / annotation / box assignment"):
        return o
    length = n if mmut.kind == "array" else nmod
    if length:
        del mut[v % length]
        mmut.delete(v % length)
        if not both("deletion"):
            return o
    mut.add_annotation("xb", bool)
    mmut.add_annotation("xb", "b")
    if "xs" in mmut.cats:
        mut.del_annotation("xs")
        mmut.del_annotation("xs")
    if not both("add/del annotation"):
        return o
    mut.box = None
    mmut.box = None
    mut.bonds = None
    mmut.bonds = None
    both("removing box and bonds")
    o.mark_nontrivial(len(steps) >= 5 and rich)
    o.label(f"mutations={len(steps)}")
    return o


# --------------------------------------------------------------------------
# exhaustive single-step enumeration for tiny containers
# --------------------------------------------------------------------------
def _enum_spec(kind, n, m, bonds, box):
    return {
        "kind": kind,
        "m": m,
        "atoms": [[POOL["chain_id"][i % 5], i * 3 - 4, "", POOL["res_name"][(i + 1) % 5], i % 2 == 0, POOL["atom_name"][(i + 2) % 5], POOL["element"][i % 5]] for i in range(n)],
        "extras": {"xi": [5, 6, 7, 8, 9]},
        "cq": [1, -2, 3],
        "nan": [],
        "bonds": ([[i, i + 1, 1 + i % 4] for i in range(n - 1)] + ([[0, n - 1, 5]] if n > 2 else [])) if bonds else None,
        "box": [2, 0, 1] if box else None,
    }


def _axis_indices(length, level, below):
    """Index descriptors (resolved form) for an axis of the given length.

    level "full": every int in [-L-2, L+1], every slice with bounds in
    {None} + [-L-1, L+1] and step in {None, +-1, +-2, +-3}, every mask, every index
    array of length <= 2 (duplicates included), every permutation (positive and
    negative spelling), wrong-length masks, out-of-range arrays, Ellipsis.
    "medium"/"tiny": thinned slice / array lists for the 2-D pairings."""
    import itertools

    full = level == "full"
    out = []
    lo = -length - (2 if below else 0)
    for i in range(lo, length + 2):
        out.append(["int", i, False])
    if level == "tiny":
        for a, b, c in [(None, None, None), (None, None, -1), (1, None, None), (None, -1, None), (-1, None, None), (None, None, 2)]:
            out.append(["slice", a, b, c])
    else:
        rng = [None] + list(range(-length - 1, length + 2)) if full else [None, -1, 1, -length - 1]
        steps = [None, 1, 2, 3, -1, -2, -3] if full else [None, -1, 2]
        for a in rng:
            for b in rng:
                for c in steps:
                    out.append(["slice", a, b, c])
    for bits in range(2**length):
        out.append(["mask", [bool(bits >> i & 1) for i in range(length)], False])
    out.append(["mask", [True] * (length + 1), False])
    if length >= 2 and level != "tiny":
        out.append(["mask", [True] * (length - 1), False])
    if length and level != "tiny":
        out.append(["mask", [True] * length, True])
    out.append(["arr", [], "int64"])
    if level == "tiny":
        if length:
            out.append(["arr", [-1], "int64"])
            out.append(["arr", list(range(length - 1, -1, -1)), "list"])
        if length >= 2:
            out.append(["arr", [length - 1, -length], "int32"])
            out.append(["arr", [0, 0], "int64"])
    else:
        vals = list(range(-length, length))
        out.append(["arr", [], "list"])
        for a in vals:
            out.append(["arr", [a], "int64"])
            for b in vals:
                if full or (a % length != b % length):
                    out.append(["arr", [a, b], "int64" if (a + b) % 2 else "list"])
        if length >= 3:
            for perm in itertools.permutations(range(length)):
                out.append(["arr", list(perm), "int32"])
                if full:
                    out.append(["arr", [p - length for p in perm], "int16"])
    out.append(["arr", [0, length], "int64"])
    out.append(["ell"])
    return out


def enum_cases(tier):
    quick = tier == "quick"
    nmax, mmax = (3, 2) if quick else (4, 3)
    pair_level = "tiny" if quick else "medium"
    for bonds in (True, False):
        for n in range(nmax + 1):
            for d in _axis_indices(n, "full", not bonds):
                yield {"kind": "array", "n": n, "m": 0, "bonds": bonds, "form": "1d", "d0": d, "d1": None}
            for d in _axis_indices(n, pair_level, not bonds):
                yield {"kind": "array", "n": n, "m": 0, "bonds": bonds, "form": "te", "d0": None, "d1": d}
            for i in range(-n - (0 if bonds else 1), n + 1):
                for npint in (False, True):
                    yield {"kind": "array", "n": n, "m": 0, "bonds": bonds, "form": "del", "d0": ["int", i, npint], "d1": None}
            for m in range(mmax + 1):
                if not quick or n in (0, 2):
                    for d0 in _axis_indices(m, "full", True):
                        yield {"kind": "stack", "n": n, "m": m, "bonds": bonds, "form": "1d", "d0": d0, "d1": None}
                    for i in range(-m - 2, m + 2):
                        yield {"kind": "stack", "n": n, "m": m, "bonds": bonds, "form": "1d", "d0": ["int0d", i, "int8" if i % 2 else "int64"], "d1": None}
                for i in range(-m - 1, m + 1):
                    for npint in (False, True):
                        yield {"kind": "stack", "n": n, "m": m, "bonds": bonds, "form": "del", "d0": ["int", i, npint], "d1": None}
                ax1 = _axis_indices(n, pair_level, not bonds)
                for d1 in ax1:
                    yield {"kind": "stack", "n": n, "m": m, "bonds": bonds, "form": "te", "d0": None, "d1": d1}
                for d0 in _axis_indices(m, pair_level, True):
                    for d1 in ax1:
                        yield {"kind": "stack", "n": n, "m": m, "bonds": bonds, "form": "2d", "d0": d0, "d1": d1}
                # 0-d integer array on the model axis of a 2-tuple = the integer
                for i in range(-m - 1, m + 1):
                    for d1 in (["slice", None, None, None], ["int", -1, False], ["arr", [0], "int64"], ["mask", [True] * n, False], ["ell"]):
                        yield {"kind": "stack", "n": n, "m": m, "bonds": bonds, "form": "2d", "d0": ["int0d", i, "int16" if i % 2 else "int64"], "d1": d1}


def _tup(d):
    return None if d is None else tuple(d)


def _desc_label(d):
    if d is None:
        return "-"
    if d[0] in ("int", "int0d"):
        return d[0] + "-neg" if d[1] < 0 else d[0]
    if d[0] == "slice":
        return "slice-negstep" if (d[3] or 1) < 0 else "slice"
    if d[0] == "arr":
        return "arr-neg" if any(v < 0 for v in d[1]) else "arr"
    return d[0]


def run_enum(case):
    o = Outcome()
    spec = _enum_spec(case["kind"], case["n"], case["m"], case["bonds"], True)
    mc = spec_to_model(spec, [0])
    real = build_real(mc)
    d0, d1 = _tup(case["d0"]), _tup(case["d1"])
    form = case["form"]
    it = Interp(o)
    it.step, it.op = 0, [form, case["d0"], case["d1"]]
    o.label(f"{case['kind']}:{form}:{_desc_label(d0)}x{_desc_label(d1)}")
    set_idx_ctx(mc.n, mc.bonds is not None, o)
    if form == "del":
        i = d0[1]
        ix = np_index(d0)  # Python int or np.int64

        def rcall():
            del real[ix]

        it.attempt(lambda: mc.delete(i), rcall)
        check_state(o, real, mc, it.ctx("after del"))
        o.mark_nontrivial(i < 0)
        return o
    if mc.kind == "array":
        d = d0 if form == "1d" else d1
        ix = np_index(d)
        mcall = lambda: mc.index(d)  # noqa: E731
        rcall = (lambda: real[ix]) if form == "1d" else (lambda: real[..., ix])
    elif form == "1d":
        ix0 = np_index(d0)
        mcall = lambda: mc.index(d0)  # noqa: E731
        if d0[0] == "int0d":
            mcall = zero_d_strict(mcall)
        rcall = lambda: real[ix0]  # noqa: E731
    else:
        if form == "te":
            d0 = ("ell",)
        ix0, ix1 = np_index(d0), np_index(d1)
        mcall = lambda: mc.index(d0, d1)  # noqa: E731
        if d0[0] == "int0d":
            mcall = zero_d_strict(mcall)
        rcall = lambda: real[ix0, ix1]  # noqa: E731
    ok, mres, rres = it.attempt(mcall, rcall)
    if ok:
        what, mval = mres
        if what == "atom":
            check_atom(o, rres, mval, it.ctx("result"))
            if o.ok:
                check_atom_copy(o, rres, mval, it.ctx("result"))
        else:
            check_state(o, rres, mval, it.ctx("result"))
    # the source must be unchanged by indexing
    check_state(o, real, mc, it.ctx("source after indexing"), eq_check=False)
    o.mark_nontrivial(ok and any(_desc_label(d) in ("int-neg", "int0d-neg", "slice-negstep", "arr-neg", "mask", "arr") for d in (d0, d1) if d))
    return o


# --------------------------------------------------------------------------
# strategies
#
# Generation cost dominates this check, so every composite value is drawn as a
# few flat integers / integer lists and *decoded* into the explicit, readable
# case format (specs and op-lists above) with .map().  Shrinking works on the
# flat draws; the replay files contain the decoded form only.
# --------------------------------------------------------------------------
_MAND_NAMES = [n for n, _ in M.MANDATORY]
_DTYPES = ["int64", "int64", "int32", "int16", "int8", "uint8", "uint32", "uint64", "list"]


def decode_atom(r):
    """One non-negative integer -> the seven mandatory annotation values."""
    out = []
    for name in _MAND_NAMES:
        if name == "res_id":
            r, v = divmod(r, 11000)
            out.append(v - 999)
        elif name == "hetero":
            r, v = divmod(r, 2)
            out.append(bool(v))
        else:
            r, v = divmod(r, len(POOL[name]))
            out.append(POOL[name][v])
    return out


def decode_bonds(raws):
    return [[r % 41, (r // 41) % 41, (r // 1681) % N_BOND_TYPES] for r in raws]


def decode_boxq(raws):
    return [r % 31 - 15 for r in raws] or [0]


def decode_extras(mask, xv):
    out = {}
    for b, name in enumerate(EXTRA_NAMES):
        if mask >> b & 1:
            if name == "xi":
                out[name] = [v * 7919 - 2**20 if v % 5 else v * 2**33 for v in xv]
            elif name == "x8":
                out[name] = [(v * 37) % 256 - 128 for v in xv]
            else:
                out[name] = [value_for(name, v + b) for v in xv]
    return out


def _make_spec(t):
    kind, m, n, atoms, xmask, xv, cq, nan, bonds, box = t
    return {
        "kind": kind,
        "m": m,
        "atoms": [decode_atom(r) for r in atoms[:n]],
        "extras": decode_extras(xmask, xv),
        "cq": cq,
        "nan": nan,
        "bonds": None if bonds is None else decode_bonds(bonds),
        "box": None if box is None else decode_boxq(box),
    }


_SMALL = st.integers(0, 200)
_BIG = st.integers(0, 2**31)
_RAWS = st.lists(_SMALL, max_size=6)


def st_spec(tier, kind=None, rich=False):
    nmax = 8 if tier == "quick" else 30
    raws10 = st.lists(st.integers(0, 41 * 41 * N_BOND_TYPES - 1), max_size=10)
    return st.tuples(
        st.sampled_from(["array", "stack"]) if kind is None else st.just(kind),
        st.sampled_from([0, 1, 1, 2, 2, 2, 3, 3, 4]),
        st.sampled_from([0, 1, 1, 2, 2, 3, 3, 4, 4, 5, 6, 7, 8] + ([] if tier == "quick" else [10, 13, 17, 22, 30])),
        st.lists(st.integers(0, 5 * 11000 * 3 * 5 * 2 * 5 * 5 - 1), min_size=nmax, max_size=nmax),
        st.sampled_from([0, 0, 0, 1, 2, 4, 8, 3, 5, 6, 9, 10, 12, 15, 16, 32, 48, 63]) if not rich else st.sampled_from([1, 3, 6, 8, 15, 0, 16, 33, 60]),
        st.lists(st.integers(0, 50), min_size=1, max_size=4),
        st.lists(st.integers(-15, 15), min_size=1, max_size=6),
        st.sampled_from([[], [], [], [], [], [], [], [], [], [], [0, 100], [299]]),
        raws10 if rich else st.one_of(st.none(), raws10, raws10),
        _RAWS if rich else st.one_of(st.none(), _RAWS),
    ).map(_make_spec)


def _make_idx(t):
    tag, p, a, b, c, vals, f = t
    if tag == "int":
        return ["int", p, bool(f % 2)]
    if tag == "int0d":
        return ["int0d", p, f]
    if tag == "slice":
        return ["slice", a, b, c]
    if tag == "mask":
        return ["mask", [bool(v % 2) for v in vals] or [bool(p % 2)], bool(f % 2)]
    if tag == "arr":
        return ["arr", vals, f % 4 != 0, _DTYPES[(f // 4) % len(_DTYPES)]]
    if tag == "ell":
        return ["ell"]
    if tag == "badint":
        return ["badint", p % 3, bool(f % 2)]
    if tag == "badmask":
        return ["badmask", 1 if f % 2 else -1]
    return ["badarr", p % 2, bool(f % 2)]


_IDX_TAGS = ["int"] * 4 + ["int0d"] * 2 + ["slice"] * 6 + ["mask"] * 5 + ["arr"] * 6 + ["ell"] * 2 + ["badint", "badmask", "badarr"]


def st_raw_idx(tier):
    big = 12 if tier == "quick" else 40
    sl = st.sampled_from([None] * (big // 2) + list(range(-big, big + 1)))
    return st.tuples(
        st.sampled_from(_IDX_TAGS),
        _SMALL,
        sl,
        sl,
        st.sampled_from([None, None, 1, 2, 3, -1, -1, -2, -3]),
        st.lists(_SMALL, max_size=8),
        st.integers(0, 35),
    ).map(_make_idx)


_GENERIC = (
    ["stack"] * 2
    + ["repeat"] * 2
    + ["from_template", "array"]
    + ["del"] * 3
    + ["set"] * 2
    + ["set_annot", "annot_elem", "add_annot", "del_annot", "set_coord", "coord_elem"]
    + ["set_box", "box_elem", "set_bonds", "bond_add"]
    + ["copy"] * 2
)


def _make_generic(t):
    name, s1, s2, p, q, shifts, raws, f, big = t
    rare = f % 12 == 11
    if name == "stack":
        return ["stack", s1, s2, shifts, p if f % 3 == 0 else None, rare]
    if name == "repeat":
        return ["repeat", s1, s2, shifts or [q % 17 - 8]]
    if name == "from_template":
        return ["from_template", s1, s2, shifts, bool(f % 2), rare]
    if name == "array":
        return ["array", s1, s2, raws[:5] or [p]]
    if name == "del":
        return ["del", s1, p, rare, (f // 12) % 3]
    if name == "set":
        return ["set", s1, p, decode_atom(big), q % 17 - 8, (raws[:3] or None) if f % 4 == 0 else None, rare, (f // 12) % 3]
    if name == "set_annot":
        return ["set_annot", s1, p, [r % 51 for r in raws[:4]] or [q % 51], bool(f % 2), {10: 1, 9: -1}.get(f % 12, 0)]
    if name == "annot_elem":
        return ["annot_elem", s1, p, q, big % 51, bool(f % 2)]
    if name in ("add_annot", "del_annot"):
        return [name, s1, p]
    if name == "set_coord":
        return ["set_coord", s1, q % 17 - 8]
    if name == "coord_elem":
        return ["coord_elem", s1, p, q, f % 3, None if f % 20 == 19 else big % 801 - 400]
    if name == "set_box":
        return ["set_box", s1, None if f % 3 == 0 else decode_boxq(raws or [q])]
    if name == "box_elem":
        return ["box_elem", s1, p, f % 3, (f // 3) % 3, big % 801 - 400]
    if name == "set_bonds":
        return ["set_bonds", s1, None if f % 3 == 0 else decode_bonds([r * 8353 + big % 16810 for r in raws] + [big % 16810]), rare]
    if name == "bond_add":
        return ["bond_add", s1, p, q, f % N_BOND_TYPES]
    if name == "copy":
        return ["copy", s1, s2]
    raise AssertionError(name)


def st_op(tier):
    slot = st.integers(0, NSLOTS - 1)
    idx = st_raw_idx(tier)

    def mk_index():
        return st.tuples(st.just("index"), slot, slot, st.sampled_from(["1d", "1d", "2d", "2d", "2d", "te", "te", "md"]), idx, idx).map(list)

    op_concat = st.tuples(
        st.just("concat"),
        st.lists(_SMALL, min_size=1, max_size=3),
        slot,
        st.booleans(),
        st.sampled_from([True] * 9 + [False]),
        st.one_of(st.none(), st_spec("quick")),
        st.sampled_from([0, 0, 1, 2]),
    ).map(list)
    op_new = st.tuples(st.just("new"), slot, st_spec(tier)).map(list)
    def mk_generic():
        return st.tuples(
            st.sampled_from(_GENERIC),
            slot,
            slot,
            _SMALL,
            _SMALL,
            st.lists(st.integers(-8, 8), max_size=3),
            _RAWS,
            st.integers(0, 59),
            _BIG,
        ).map(_make_generic)

    # one_of() de-duplicates identical strategy objects, so weights need distinct instances:
    # generic 16 (each of its 23 names ~ 2.5 %), index 9, concat 3, new 1  (of 29)
    return st.one_of(*([mk_generic() for _ in range(16)] + [mk_index() for _ in range(9)] + [op_concat, op_concat.map(list), op_concat.map(lambda x: x), op_new]))


_ST_CACHE = {}


def st_history(tier):
    if ("history", tier) not in _ST_CACHE:
        maxops = 12 if tier == "quick" else 20
        _ST_CACHE["history", tier] = st.tuples(
            st.one_of(st_spec(tier, rich=True), st_spec(tier)),
            st_spec(tier),
            st.lists(st_op(tier), min_size=3, max_size=maxops),
        ).map(lambda t: {"ops": [["new", 0, t[0]], ["new", 1, t[1]], ["copy", 0, 2]] + t[2]})
    return _ST_CACHE["history", tier]


def st_copy_indep(tier):
    sl = st.integers(-4, 9)
    return st.fixed_dictionaries(
        {
            "spec": st_spec(tier, rich=True),
            "view": st.one_of(
                st.none(),
                st.tuples(st.just("slice"), sl, sl, st.sampled_from([None, 1, 2, -1])).map(
                    lambda t: ["slice", None if t[1] == -4 else t[1], None if t[2] == -4 else t[2], t[3]]
                ),
            ),
            "mutate_copy": st.booleans(),
            "v": st.integers(0, 50),
        }
    )


SUBS = [
    Sub(
        "history",
        st_history,
        run_history,
        quick=3200,
        thorough=120000,
        rule=">= 1 index op with a negative value / mask / index array and >= 1 structural op (del, concatenate, stack, repeat) on a container with bonds or box",
        clauses="every container equals the list-of-atoms model after every step; lengths/depths of annotations, coord, box, bonds agree; bonds connect the same atoms (uid identity); invalid operations raise",
    ),
    Sub(
        "copy_indep",
        st_copy_indep,
        run_copy_indep,
        quick=1200,
        thorough=40000,
        rule=">= 5 different kinds of mutation applied to one side of (original, copy) of a container with bonds or box",
        clauses="a copy equals its original and shares no mutable state with it (coord, every annotation, box, bonds, structure)",
    ),
]

ENUMS = [
    Enum(
        "index_enum",
        enum_cases,
        run_enum,
        rule="index with a negative integer, a negative-step slice, a mask or an index array (or deletion at a negative index)",
        clauses="all integer / slice / mask / index-array / Ellipsis indices, all 2-D pairings and all deletions on containers with n <= 3 (4) atoms and m <= 2 (3) models, with and without bonds",
        exhaustive=True,
    )
]

_NARROW = ("int8", "uint8", "int16", "uint16", "int32", "uint32")


def _has_narrow_index_array(case):
    """case class of C01-F1: a history with an index op whose index array has a narrow integer dtype"""
    for op in case.get("ops", []) if isinstance(case, dict) else []:
        if op and op[0] == "index":
            for raw in op[4:6]:
                if isinstance(raw, (list, tuple)) and raw and raw[0] == "arr" and raw[-1] in _NARROW:
                    return True
    return False


def _f1(sub, case, clause, message):
    # case class + clause + exception type; no function names or message texts of the library
    return sub == "history" and clause == "unexpected_exception" and "OverflowError" in message and _has_narrow_index_array(case)


FINDINGS = {"bondlist_index_array_dtype_narrower_than_atom_count": _f1}
