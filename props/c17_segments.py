"""
C17  Residue, chain and molecule segmentation equals per-atom recomputation.

Oracle for residues/chains: the annotation of every atom is kept as plain
Python values (expanded from the run-length case); segment boundaries are
recomputed by a per-atom loop straight from the definition in the property
statement

    residue: chain id, res id, ins code or res name differs from the previous atom
    chain:   chain id differs from the previous atom or res id is smaller

and every derived view (starts, starts_for, masks, positions, count, names,
iteration, apply, spread) is recomputed from these reference segments.

Oracle for molecules: connected components from a union-find written here,
compared as a set of frozensets (small graphs) or as canonicalised label arrays
(long graphs).  Long graphs run in a sacrificial process; the way that process
ends is part of the oracle.

Note for reading a red result (audit A8): the *property statement* fixes the boundary rules above and
"molecules == connected components of the bond graph" (every bond type connects, also
BondType.COORDINATION).  Some docstrings are weaker or different (get_residue_count: "determined from
res_id and chain_id", get_chain_count: "each time the chain ID changes", get_molecule_*: "connected via
covalent bonds"); the check follows the property statement.
"""

import numpy as np
from hypothesis import strategies as st

from vlib import Outcome, Sub, findings

PROPERTY = "C17"
RULE = (
    "atom arrays/stacks of 0..60 atoms (thorough 0..150) with run-length generated chain id / res id / "
    "ins code / res name (moves: next residue, ins code only, name only, chain change keeping or resetting "
    "the res id, res id decrease inside a chain id, merge) plus index arrays and reducing functions; "
    "non-trivial = >= 3 reference segments of differing size and a res id repeated in another chain "
    "(residues) resp. a res id decrease inside one chain id or a chain id that comes back (chains); "
    "molecules: bond graphs from trees, rings, cliques, paths, isolated atoms under a random relabelling, "
    "non-trivial = >= 2 components and a cycle; long graphs: 10^3..5x10^4 atoms (10^5 for many_paths / balanced_tree, 2x10^5 thorough) sandboxed"
)

F1 = "C17-F1"


def _f1_safe_n():
    """Largest single component generated while C17-F1 is open.

    The crash threshold is (stack size) / (bytes per recursion frame); measured here: 8 MiB / ~65 400 atoms
    = 128 bytes per frame.  The size is derived from the stack limit of this process (the sacrificial child
    inherits it) with a factor 3 of margin for another build of the extension (bigger frames), and never
    exceeds the 50 000 atoms that were generated before.  It only steers the generator: a crash below it is
    still recognised as C17-F1 (see _f1_stack_overflow), never as a new violation.
    """
    try:
        import resource

        soft, _ = resource.getrlimit(resource.RLIMIT_STACK)
    except Exception:  # noqa: BLE001  (platform without the resource module)
        return 20_000
    if soft == resource.RLIM_INFINITY or soft < 0:
        return 50_000
    return int(max(1000, min(50_000, soft // (3 * 128))))


F1_SAFE_N = _f1_safe_n()

CHAINS = ["A", "B", "", "AB"]
NAMES = ["ALA", "GLY", "HOH", "X"]
INS = ["", "A", "B"]
ATOM_NAMES = ["N", "CA", "C", "O", "H1"]
MOVES = [
    "next_res",
    "next_res",
    "merge",
    "ins_only",
    "name_only",
    "chain_keep_res",
    "chain_reset",
    "res_decrease",
    "res_jump",
    "chain_back",
    "same_res_other_name_ins",
]
FUNCS = [
    "sum_int",
    "sum_float32",
    "mean_coord_axis0",
    "sum_axis0_int2d",
    "len",
    "count_nonzero",
    "max_int",
    "pyfloat_mean",
    "minmax_array",
    "any_bool",
    "first_name",
    # multi-dimensional data reduced to ONE scalar per segment (axis=None)
    "max_coord_all",
    "sum_int2d_all",
    "min_int2d_all",
    # a function whose second positional parameter is NOT the axis (np.linalg.norm(x, ord, axis));
    # judged under its own clause 'axis_given_to_axis_parameter' (see run_segments)
    "norm_axis0",
]
# reducers whose float result may legitimately differ in the last bits when the segments are reduced in
# another (e.g. vectorised) summation order: name -> how the magnitude of the rounding error is bounded
FLOAT_FUNCS = {"sum_float32": "sum", "mean_coord_axis0": "mean", "pyfloat_mean": "mean", "norm_axis0": "norm"}
RES_OFFSETS = [0, 0, 0, 0, 9990, 65530, -1000, 10**6]
SPREADS = ["int", "float2d", "str", "bool"]
INDEX_FORMS = ["int64", "list", "int32", "uint16"]


def setup():
    # imported once per worker, so that the forked sacrificial processes do not import it again
    import biotite.structure  # noqa: F401


# --------------------------------------------------------------------------
# strategies: annotated atom arrays
# --------------------------------------------------------------------------
def _other(values, current, k):
    """The k-th value of `values` that differs from `current`."""
    rest = [v for v in values if v != current]
    return rest[k % len(rest)]


def st_annotated(tier):
    max_atoms = 60 if tier == "quick" else 150
    max_runs = 12 if tier == "quick" else 30

    @st.composite
    def gen(draw):
        runs = []
        lengths = [1, 1, 1, 2, 2, 3, 4, 6, 9]
        empty = draw(st.sampled_from([False] * 19 + [True]))
        if not empty:
            chain = draw(st.sampled_from(CHAINS))
            res = draw(st.integers(-3, 30))
            ins = draw(st.sampled_from(INS))
            name = draw(st.sampled_from(NAMES))
            first_len = draw(st.sampled_from(lengths))
            # the following runs as a list (shrinks by deleting runs)
            steps = draw(
                st.lists(
                    st.tuples(st.sampled_from(MOVES), st.integers(0, 5), st.sampled_from(lengths)),
                    max_size=max_runs - 1,
                )
            )
            first_chain = chain
            total = 0
            for move, k, length in [(None, 0, first_len)] + steps:
                if move is None or move == "merge":
                    pass
                elif move == "next_res":
                    res += 1
                    name = NAMES[k % len(NAMES)]
                    ins = ""
                elif move == "ins_only":
                    ins = _other(INS, ins, k)
                elif move == "name_only":
                    name = _other(NAMES, name, k)
                elif move == "chain_keep_res":
                    chain = _other(CHAINS, chain, k)
                elif move == "chain_reset":
                    chain = _other(CHAINS, chain, k)
                    res = 1
                elif move == "res_decrease":
                    res -= 1 + k
                elif move == "res_jump":
                    res += 2 + k
                elif move == "chain_back":
                    chain = first_chain if chain != first_chain else _other(CHAINS, chain, k)
                    res += k % 2
                elif move == "same_res_other_name_ins":
                    name = _other(NAMES, name, k)
                    ins = _other(INS, ins, k + 1)
                length = min(length, max_atoms - total)
                if length <= 0:
                    break
                total += length
                runs.append([chain, res, ins, name, length])
        case = {
            "runs": runs,
            "depth": draw(st.sampled_from([0, 0, 0, 1, 2])),
            "seed": draw(st.integers(0, 2**31 - 1)),
            "indices": draw(st.lists(st.integers(0, 10**6), max_size=8)),
            "index_form": draw(st.sampled_from(INDEX_FORMS)),
            "bad_index": None,
            "func": draw(st.sampled_from(FUNCS)),
            "spread": draw(st.sampled_from(SPREADS)),
            # realistic magnitudes of residue ids (added to every res id of the runs)
            "res_offset": draw(st.sampled_from(RES_OFFSETS)),
        }
        if draw(st.integers(0, 14)) == 0:
            case["bad_index"] = ["neg" if draw(st.booleans()) else "oor", draw(st.integers(0, 5))]
        return case

    return gen()


# --------------------------------------------------------------------------
# reference model (plain Python, one atom at a time)
# --------------------------------------------------------------------------
def expand(runs, res_offset=0):
    """One (chain, res_id, ins, name) tuple per atom."""
    atoms = []
    for chain, res, ins, name, length in runs:
        atoms.extend([(chain, res + res_offset, ins, name)] * length)
    return atoms


def ref_starts(atoms, kind):
    starts = []
    for i, cur in enumerate(atoms):
        if i == 0:
            starts.append(0)
            continue
        prev = atoms[i - 1]
        if kind == "residue":
            new = cur[0] != prev[0] or cur[1] != prev[1] or cur[2] != prev[2] or cur[3] != prev[3]
        else:
            new = cur[0] != prev[0] or cur[1] < prev[1]
        if new:
            starts.append(i)
    return starts


def ref_segment_of(starts, n):
    """For every atom the ordinal position of its segment (per-atom loop)."""
    seg_of = []
    pos = -1
    sset = set(starts)
    for i in range(n):
        if i in sset:
            pos += 1
        seg_of.append(pos)
    return seg_of


# --------------------------------------------------------------------------
# building biotite objects
# --------------------------------------------------------------------------
def build_atoms(case):
    import biotite.structure as struc

    atoms = expand(case["runs"], case.get("res_offset", 0))
    n = len(atoms)
    rng = np.random.default_rng(case["seed"])
    depth = case["depth"]
    arr = struc.AtomArray(n) if depth == 0 else struc.AtomArrayStack(depth, n)
    arr.chain_id = np.array([a[0] for a in atoms], dtype="U4")
    arr.res_id = np.array([a[1] for a in atoms], dtype=int)
    arr.ins_code = np.array([a[2] for a in atoms], dtype="U1")
    arr.res_name = np.array([a[3] for a in atoms], dtype="U5")
    # annotations that must *not* influence the segmentation vary freely
    arr.atom_name = np.array([ATOM_NAMES[i] for i in rng.integers(0, len(ATOM_NAMES), n)], dtype="U6")
    arr.hetero = rng.integers(0, 2, n).astype(bool)
    arr.element = np.array([["C", "N", "O"][i] for i in rng.integers(0, 3, n)], dtype="U2")
    arr.coord = rng.normal(0, 10, arr.coord.shape).astype(np.float32)
    return arr, atoms, rng


def api(kind):
    import biotite.structure as struc

    k = kind
    return {
        "starts": getattr(struc, f"get_{k}_starts"),
        "apply": getattr(struc, f"apply_{k}_wise"),
        "spread": getattr(struc, f"spread_{k}_wise"),
        "masks": getattr(struc, f"get_{k}_masks"),
        "starts_for": getattr(struc, f"get_{k}_starts_for"),
        "positions": getattr(struc, f"get_{k}_positions"),
        "count": getattr(struc, f"get_{k}_count"),
        "iter": getattr(struc, f"{k}_iter"),
    }


def make_indices(raw, form):
    if form == "list":
        if not raw:
            # documented type is "ndarray, dtype=int"; np.asarray([]) would be float64, which only works as
            # long as the indices are never used for indexing -> an empty list is passed as empty int array
            return np.array([], dtype=int)
        return [int(i) for i in raw]
    return np.array(raw, dtype={"int64": np.int64, "int32": np.int32, "uint16": np.uint16}[form])


def _first(x):
    return x[0]


def _pyfloat_mean(x):
    return float(x.mean())


def _minmax(x):
    return np.array([x.min(), x.max()])


def make_function(name, arr, atoms, rng):
    """-> (data, function, axis)"""
    n = len(atoms)
    if name == "sum_int":
        return rng.integers(-50, 50, n), np.sum, None
    if name == "sum_float32":
        return rng.normal(0, 5, n).astype(np.float32), np.sum, None
    if name == "mean_coord_axis0":
        coord = arr.coord if arr.coord.ndim == 2 else arr.coord[0]
        return coord, np.mean, 0
    if name == "sum_axis0_int2d":
        return rng.integers(-9, 9, (n, 2)), np.sum, 0
    if name == "len":
        return rng.integers(0, 5, n), len, None
    if name == "count_nonzero":
        return rng.integers(0, 2, n), np.count_nonzero, None
    if name == "max_int":
        return rng.integers(-1000, 1000, n).astype(np.int32), np.max, None
    if name == "pyfloat_mean":
        return rng.normal(0, 5, n), _pyfloat_mean, None
    if name == "minmax_array":
        return rng.integers(-100, 100, n), _minmax, None
    if name == "any_bool":
        return rng.integers(0, 3, n) == 0, np.any, None
    if name == "first_name":
        return arr.res_name.copy(), _first, None
    if name == "max_coord_all":
        coord = arr.coord if arr.coord.ndim == 2 else arr.coord[0]
        return coord, np.max, None
    if name == "sum_int2d_all":
        return rng.integers(-9, 9, (n, 3)), np.sum, None
    if name == "min_int2d_all":
        return rng.integers(-99, 99, (n, 2)), np.min, None
    if name == "norm_axis0":
        coord = arr.coord if arr.coord.ndim == 2 else arr.coord[0]
        return coord.astype(np.float64), np.linalg.norm, 0
    raise ValueError(name)


_SKIP = object()


def _float_close(got, want, segment, rule, axis, dtype):
    """'equal' | 'close' | 'differs' for the float result of one segment."""
    got = np.asarray(got, dtype=np.float64)
    want64 = np.asarray(want, dtype=np.float64)
    if got.shape != want64.shape:
        return "differs"
    if np.array_equal(got, want64, equal_nan=True):
        return "equal"
    mag = np.abs(np.asarray(segment, dtype=np.float64))
    k = max(len(segment), 1)
    if rule == "sum":
        scale = mag.sum(axis=axis)
    elif rule == "mean":
        scale = mag.sum(axis=axis) / (k if axis is not None or mag.ndim == 1 else mag.size)
    else:  # norm
        scale = np.sqrt((mag * mag).sum(axis=axis))
    eps = max(float(np.finfo(dtype).eps), float(np.finfo(np.asarray(want).dtype).eps) if np.asarray(want).dtype.kind == "f" else 0.0)
    band = 4.0 * (k + 2) * eps * scale + np.finfo(np.float64).tiny
    if bool(np.all(np.abs(got - want64) <= band)):
        return "close"
    return "differs"


def make_spread_input(name, k, rng):
    if name == "int":
        return rng.integers(-100, 100, k)
    if name == "float2d":
        return rng.normal(0, 1, (k, 3))
    if name == "str":
        return np.array([["helix", "sheet", "c"][i] for i in rng.integers(0, 3, k)], dtype="U5")
    if name == "bool":
        return rng.integers(0, 2, k).astype(bool)
    raise ValueError(name)


# --------------------------------------------------------------------------
# run: residues / chains
# --------------------------------------------------------------------------
def _labels_for_runs(o, runs):
    """Which kinds of transitions the case really contains."""
    seen_res_in_chain = {}
    labels = set()
    for r, run in enumerate(runs):
        if run[4] == 1:
            labels.add("single_atom_run")
        if r == 0:
            continue
        p = runs[r - 1]
        diff = tuple(p[i] != run[i] for i in range(4))
        if diff == (False, False, True, False):
            labels.add("ins_code_change_only")
        elif diff == (False, False, False, True):
            labels.add("name_change_only")
        elif diff == (True, False, False, False):
            labels.add("chain_change_same_res_id")
        elif diff == (False, False, False, False):
            labels.add("merged_runs")
        if not diff[0] and run[1] < p[1]:
            labels.add("res_id_decrease_in_chain")
        if not diff[0] and run[1] == p[1] and (diff[2] or diff[3]):
            labels.add("same_res_id_new_residue")
    for run in runs:
        seen_res_in_chain.setdefault(run[1], set()).add(run[0])
    repeated = any(len(chains) > 1 for chains in seen_res_in_chain.values())
    if repeated:
        labels.add("res_id_repeated_in_other_chain")
    o.label(*sorted(labels))
    return repeated


def run_segments(case, kind):
    o = Outcome()
    arr, atoms, rng = build_atoms(case)
    f = api(kind)
    n = len(atoms)
    starts = ref_starts(atoms, kind)
    bounds = starts + [n]
    segs = [(bounds[i], bounds[i + 1]) for i in range(len(starts))]
    seg_of = ref_segment_of(starts, n)
    nseg = len(starts)
    o.label("stack" if case["depth"] else "array", f"segments={min(nseg, 5)}{'+' if nseg > 5 else ''}")
    repeated = _labels_for_runs(o, case["runs"])
    if case.get("res_offset", 0):
        o.label("res_id_offset=%d" % case["res_offset"])

    # ---- history: the same array object was segmented before with other annotation values, which
    # were then edited in place (no state may survive between the calls)
    if n > 1 and case["seed"] % 2 == 0:
        o.label("annotations_edited_in_place_after_a_first_call")
        keep = {k: getattr(arr, k).copy() for k in ("chain_id", "res_id", "ins_code", "res_name")}
        arr.res_id[:] = np.arange(n) // 2
        arr.chain_id[:] = "Q"
        arr.ins_code[:] = ""
        arr.res_name[:] = "DCY"
        f["starts"](arr)
        f["count"](arr)
        f["starts"](arr, add_exclusive_stop=True)
        for k, v in keep.items():
            getattr(arr, k)[:] = v

    # ---- boundaries
    got_starts = f["starts"](arr)
    o.check_array_eq(got_starts, np.array(starts, dtype=int), f"{kind}_boundaries", "starts")
    o.check(np.asarray(got_starts).dtype.kind in "iu", f"{kind}_boundaries", "starts are not integers")
    got_stop = f["starts"](arr, add_exclusive_stop=True)
    # documented: array_length() is appended as last element (for an empty array that is [0])
    o.check_array_eq(
        got_stop,
        np.array(starts + [n], dtype=int),
        "exclusive_stop_appended" if n else "empty_array_exclusive_stop",
        f"starts with exclusive stop (n={n})",
    )
    o.check_eq(f["count"](arr), nseg, f"{kind}_count", "count")
    if not o.ok and n > 0:
        # the segmentation itself is wrong: every derived view would only repeat that
        return o

    # ---- names
    import biotite.structure as struc

    if kind == "residue":
        ids, names = struc.get_residues(arr)
        o.check_array_eq(ids, np.array([atoms[s][1] for s in starts], dtype=int), "residue_names", "get_residues ids")
        o.check_array_eq(names, np.array([atoms[s][3] for s in starts], dtype="U5"), "residue_names", "get_residues names")
    else:
        o.check_array_eq(
            struc.get_chains(arr), np.array([atoms[s][0] for s in starts], dtype="U4"), "chain_names", "get_chains"
        )

    # ---- views for given atom indices
    if n > 0:
        raw = [i % n for i in case["indices"]]
    else:
        raw = []
    if not raw:
        o.label("empty_indices")
    if len(set(raw)) < len(raw):
        o.label("duplicate_indices")
    idx = make_indices(raw, case["index_form"])
    want_starts_for = np.array([starts[seg_of[i]] for i in raw], dtype=int)
    want_pos = np.array([seg_of[i] for i in raw], dtype=int)
    want_masks = np.array([[seg_of[j] == seg_of[i] for j in range(n)] for i in raw], dtype=bool).reshape(len(raw), n)

    def views():
        got = f["starts_for"](arr, idx)
        o.check_array_eq(got, want_starts_for, f"{kind}_start_of_atom", f"starts_for({raw})")
        got = f["positions"](arr, idx)
        o.check_array_eq(got, want_pos, f"{kind}_position_of_atom", f"positions({raw})")
        got = f["masks"](arr, idx)
        o.check_array_eq(got, want_masks, f"{kind}_mask_of_atom", f"masks({raw})")
        o.check(np.asarray(got).dtype == bool, f"{kind}_mask_of_atom", "mask dtype is not bool")

    if n > 0:
        views()
    else:
        o.label("empty_array")
        # The docstrings do not define the views of a structure without atoms: the (0, 0) / (0,) results of
        # today and a deliberate rejection (ValueError) are both accepted.  An IndexError is the accident
        # of defect C17-a (starts[-1] of an empty start array) and stays a violation.
        try:
            views()
        except IndexError as e:
            o.fail("empty_array_views", f"views of an empty array with an empty index array: IndexError {e}")
        except ValueError:
            o.label("empty_array_views_rejected")
        else:
            o.label("empty_array_views_returned")

    # Indices outside the array.  Nothing defines a segment for an index >= n: some error is demanded, of
    # whatever type.  For negative indices the docstrings only say "not allowed": an error of any type is
    # accepted, and so is Python-style counting from the end - then the views of atom n + index must come back.
    if case["bad_index"] is not None:
        what, k = case["bad_index"]
        bad = list(raw)
        where = k % (len(bad) + 1)
        bad_value = -1 - k if what == "neg" else n + k
        bad.insert(where, bad_value)
        o.label("bad_index_" + what)
        wrapped = None
        if what == "neg" and n + bad_value >= 0:
            wrapped = list(raw)
            wrapped.insert(where, n + bad_value)
        bad_arr = np.array(bad, dtype=np.int64)
        for fn in ("starts_for", "positions", "masks"):
            try:
                got = f[fn](arr, bad_arr)
            except Exception:  # noqa: BLE001  (the type of the error is not documented)
                o.label(f"bad_index_{what}_raises")
                continue
            if wrapped is None:
                o.fail("invalid_index_rejected", f"{fn}({bad}) n={n}: expected an error but got a value {got!r:.300}")
                continue
            o.label("bad_index_neg_counts_from_end")
            if fn == "starts_for":
                want_w = np.array([starts[seg_of[i]] for i in wrapped], dtype=int)
            elif fn == "positions":
                want_w = np.array([seg_of[i] for i in wrapped], dtype=int)
            else:
                want_w = np.array([[seg_of[j] == seg_of[i] for j in range(n)] for i in wrapped], dtype=bool)
            o.check_array_eq(got, want_w, "invalid_index_rejected", f"{fn}({bad}) n={n} returned a value that is not the view of {wrapped}")

    # ---- iteration
    pieces = list(f["iter"](arr))
    if o.check_eq(len(pieces), nseg, f"{kind}_iteration", "number of iterated segments"):
        cats = arr.get_annotation_categories()
        for (a, b), piece in zip(segs, pieces):
            ok = isinstance(piece, type(arr)) and piece.array_length() == b - a
            ok = ok and piece.coord.shape == arr.coord[..., a:b, :].shape and np.array_equal(piece.coord, arr.coord[..., a:b, :])
            for c in cats:
                ok = ok and np.array_equal(piece.get_annotation(c), arr.get_annotation(c)[a:b])
            if not o.check(ok, f"{kind}_iteration", lambda: f"segment [{a}:{b}] differs: {piece!r:.300}"):
                break
        if pieces:
            for c in cats:
                cat = np.concatenate([p.get_annotation(c) for p in pieces])
                o.check_array_eq(cat, arr.get_annotation(c), "iteration_concatenation", f"annotation {c}")
            o.check_array_eq(np.concatenate([p.coord for p in pieces], axis=-2), arr.coord, "iteration_concatenation", "coord")

    # ---- apply
    data, function, axis = make_function(case["func"], arr, atoms, rng)
    o.label("func=" + case["func"])
    want_vals = [function(data[a:b]) if axis is None else function(data[a:b], axis=axis) for a, b in segs]
    apply_clause = f"{kind}_apply"
    if case["func"] == "norm_axis0":
        # "The function must have either the form f(data) or f(data, axis)" / "This value is given to the
        # `axis` parameter of `function`": the second sentence is read as "by keyword".  np.linalg.norm(x, ord,
        # axis) tells the two readings apart, so everything this reducer shows (an exception of numpy because
        # the axis arrived as `ord`, or other values) is reported under a clause of its own and is to be read
        # as "the axis is no longer given to the parameter named axis" - documented ambiguously.
        apply_clause = "axis_given_to_axis_parameter"
        try:
            got = f["apply"](arr, data, function, axis)
        except Exception as e:  # noqa: BLE001
            o.fail(apply_clause, f"apply with np.linalg.norm and axis={axis}: {type(e).__name__} {e}")
            got = _SKIP
    else:
        got = f["apply"](arr, data, function, axis)
    if got is _SKIP:
        pass
    elif nseg == 0:
        # no function value exists that could determine shape/dtype: None or any empty array is accepted
        o.check(got is None or len(got) == 0, apply_clause, f"apply on empty array gave {got!r}")
    elif o.check(isinstance(got, np.ndarray), apply_clause, lambda: f"apply returned {type(got).__name__}"):
        if o.check_eq(got.shape, (nseg,) + np.shape(want_vals[0]), apply_clause, f"{case['func']}: result shape"):
            float_rule = FLOAT_FUNCS.get(case["func"])
            rounded = False
            for i, w in enumerate(want_vals):
                what = f"{case['func']}: segment {i} [{segs[i][0]}:{segs[i][1]}]"
                if float_rule is None or got.dtype.kind != "f":
                    if not o.check_array_eq(got[i], w, apply_clause, what):
                        break
                    continue
                # float reductions: the order of the additions is not fixed by anything, so the last bits
                # may differ; the band is the classical bound len * eps * (reduction of the absolute values)
                verdict = _float_close(got[i], w, data[segs[i][0] : segs[i][1]], float_rule, axis, got.dtype)
                if verdict == "differs":
                    o.fail(apply_clause, f"{what}: got {np.asarray(got[i]).tolist()!r}, want {np.asarray(w).tolist()!r}")
                    break
                rounded = rounded or verdict == "close"
            if rounded:
                o.label("apply_float_within_rounding_band")
                o.ambiguous += 1
            want_kind = np.asarray(want_vals[0]).dtype.kind
            o.check(
                got.dtype.kind == want_kind or (got.dtype.kind in "iu" and want_kind in "iu"),
                apply_clause,
                f"{case['func']}: dtype kind {got.dtype.kind!r}, want {want_kind!r}",
            )

    # ---- spread
    inp = make_spread_input(case["spread"], nseg, rng)
    o.label("spread=" + case["spread"])
    want = np.array([inp[seg_of[i]] for i in range(n)], dtype=inp.dtype).reshape((n,) + inp.shape[1:])
    try:
        got = f["spread"](arr, inp)
    except ValueError as e:
        # np.repeat: the number of segments used by spread differs from the count
        o.fail(f"{kind}_spread", f"spread of {nseg} values over {nseg} reference segments: ValueError {e}")
    else:
        o.check_array_eq(got, want, f"{kind}_spread", f"spread {case['spread']}")
        if n:
            # the values are compared above; of the dtype only the kind is demanded (no docstring names it)
            gk = np.asarray(got).dtype.kind
            o.check(gk == inp.dtype.kind or (gk in "iu" and inp.dtype.kind in "iu"), f"{kind}_spread", f"dtype kind {gk!r}, want {inp.dtype.kind!r}")

    # ---- non-triviality
    sizes = {b - a for a, b in segs}
    if kind == "residue":
        o.mark_nontrivial(nseg >= 3 and len(sizes) >= 2 and repeated)
    else:
        chains_in_order = [atoms[s][0] for s in starts]
        comes_back = len(set(chains_in_order)) < len(chains_in_order)
        if comes_back:
            o.label("chain_id_occurs_in_two_segments")
        o.mark_nontrivial(nseg >= 3 and len(sizes) >= 2 and comes_back)
    # none of the segment functions may change the structure it is given
    again, _, _ = build_atoms(case)
    o.check(
        all(np.array_equal(arr.get_annotation(k), again.get_annotation(k)) for k in again.get_annotation_categories())
        and np.array_equal(arr.coord, again.coord),
        "arguments_not_modified",
        "the atom array changed while it was segmented",
    )
    return o


def run_residues(case):
    return run_segments(case, "residue")


def run_chains(case):
    return run_segments(case, "chain")


# --------------------------------------------------------------------------
# molecules: small graphs
# --------------------------------------------------------------------------
class UnionFind:
    def __init__(self, n):
        self.parent = list(range(n))

    def find(self, i):
        p = self.parent
        while p[i] != i:
            p[i] = p[p[i]]
            i = p[i]
        return i

    def union(self, i, j):
        ri, rj = self.find(i), self.find(j)
        if ri != rj:
            if ri < rj:
                self.parent[rj] = ri
            else:
                self.parent[ri] = rj


def components(n, bonds):
    uf = UnionFind(n)
    for b in bonds:
        uf.union(int(b[0]), int(b[1]))
    comp = {}
    for i in range(n):
        comp.setdefault(uf.find(i), []).append(i)
    return {frozenset(v) for v in comp.values()}


def st_graph(tier):
    max_block = 8 if tier == "quick" else 25
    max_blocks = 6 if tier == "quick" else 10

    @st.composite
    def gen(draw):
        input_kind = ["array", "stack", "bondlist", "array", "stack1", "bondlist"][draw(st.integers(0, 5))]
        blocks = draw(
            st.lists(
                st.tuples(
                    st.sampled_from(["tree", "ring", "clique", "isolated", "path", "star"]),
                    st.integers(1, max_block),
                    st.integers(0, 2**31 - 1),
                ),
                min_size=1,
                max_size=max_blocks,
            )
        )
        if draw(st.sampled_from([False] * 24 + [True])):
            blocks = []  # structure without atoms
        edges = []
        n = 0
        for kind, size, seed in blocks:
            local = []
            if kind == "tree":
                rng = np.random.default_rng(seed)
                local = [(int(rng.integers(0, i)), i) for i in range(1, size)]
            elif kind == "ring":
                local = [(i, i + 1) for i in range(size - 1)]
                if size >= 3:
                    local.append((size - 1, 0))
            elif kind == "clique":
                size = min(size, 6)
                local = [(i, j) for i in range(size) for j in range(i + 1, size)]
            elif kind == "path":
                local = [(i, i + 1) for i in range(size - 1)]
            elif kind == "star":
                local = [(0, i) for i in range(1, size)]
            edges.extend((a + n, b + n) for a, b in local)
            n += size
        perm = draw(st.permutations(list(range(n)))) if n else []
        # orientation and bond type do not matter for connectivity: bulk randomness from a drawn seed
        rng = np.random.default_rng(draw(st.integers(0, 2**31 - 1)))
        bonds = []
        for a, b in edges:
            a, b = perm[a], perm[b]
            if rng.integers(0, 2):
                a, b = b, a
            bonds.append([a, b, int(rng.integers(0, 10))])
        # a few extra bonds (may join components or close rings) and duplicates
        if n >= 2:
            for ra, rb in draw(st.lists(st.tuples(st.integers(0, 10**6), st.integers(0, 10**6)), max_size=3)):
                a = ra % n
                b = (a + 1 + rb % (n - 1)) % n
                bonds.append([a, b, int(rng.integers(0, 10))])
        if bonds and draw(st.booleans()):
            a, b, t = bonds[draw(st.integers(0, len(bonds) - 1))]
            bonds.append([b, a, (t + 1) % 10])
        bonds = [bonds[i] for i in rng.permutation(len(bonds))]
        return {
            "n": n,
            "bonds": bonds,
            "input": input_kind,
            "blocks": [b[0] for b in blocks],
            # root atom for the direct find_connected() call (reduced modulo n)
            "root": draw(st.integers(0, 10**6)),
        }

    return gen()


def build_bonded(n, bonds, input_kind):
    import biotite.structure as struc

    barr = np.array(bonds, dtype=np.uint32).reshape(-1, 3)
    bl = struc.BondList(n, barr) if len(barr) else struc.BondList(n)
    if input_kind == "bondlist":
        return bl
    arr = struc.AtomArray(n) if input_kind == "array" else struc.AtomArrayStack(1 if input_kind == "stack1" else 2, n)
    arr.res_id = np.arange(n)  # identifies the atoms in iterated molecules
    arr.bonds = bl
    return arr


def run_molecules(case):
    import biotite.structure as struc

    o = Outcome()
    n = case["n"]
    bonds = case["bonds"]
    want = components(n, bonds)
    unique_edges = {frozenset((b[0], b[1])) for b in bonds}
    has_cycle = len(unique_edges) > n - len(want)
    isolated = sum(1 for c in want if len(c) == 1)
    o.label("input=" + case["input"], f"components={min(len(want), 4)}{'+' if len(want) > 4 else ''}")
    o.label(*("block=" + b for b in set(case["blocks"])))
    if has_cycle:
        o.label("cycle")
    if isolated:
        o.label("isolated_atom")
    if n == 0:
        o.label("empty")
    if len(unique_edges) < len(bonds):
        o.label("duplicate_bond")
    obj = build_bonded(n, bonds, case["input"])

    # index form
    idx = struc.get_molecule_indices(obj)
    got = {frozenset(int(i) for i in a) for a in idx}
    o.check(got == want, "molecules_are_components", lambda: f"indices: got {sorted(map(sorted, got))} want {sorted(map(sorted, want))}")
    o.check_eq(sum(len(a) for a in idx), n, "molecules_are_components", "indices: every atom in exactly one molecule")
    o.check(all(np.asarray(a).dtype.kind in "iu" for a in idx), "molecules_are_components", "index arrays are not integers")

    # mask form
    masks = struc.get_molecule_masks(obj)
    if o.check(
        isinstance(masks, np.ndarray) and masks.dtype == bool and masks.shape == (len(want), n),
        "molecule_masks",
        lambda: f"masks: shape {getattr(masks, 'shape', None)} dtype {getattr(masks, 'dtype', None)}, want {(len(want), n)} bool",
    ):
        gotm = {frozenset(int(i) for i in np.where(row)[0]) for row in masks}
        o.check(gotm == want, "molecule_masks", lambda: f"masks: got {sorted(map(sorted, gotm))} want {sorted(map(sorted, want))}")
        o.check(len(gotm) == len(masks), "molecule_masks", "two identical mask rows")

    # iterator form
    if case["input"] != "bondlist":
        mols = list(struc.molecule_iter(obj))
        o.check(all(isinstance(m, type(obj)) for m in mols), "molecule_iteration", "iterated molecule has another type")
        goti = {frozenset(int(i) for i in m.res_id) for m in mols}
        o.check(goti == want, "molecule_iteration", lambda: f"iter: got {sorted(map(sorted, goti))} want {sorted(map(sorted, want))}")
        o.check_eq(sum(m.array_length() for m in mols), n, "molecule_iteration", "iter: every atom in exactly one molecule")

    # the traversal itself (public, every root - the functions above only start at the first unvisited atom)
    if n > 0:
        root = case.get("root", 0) % n
        bl = obj if case["input"] == "bondlist" else obj.bonds
        comp_of_root = next(c for c in want if root in c)
        o.label("root_is_first_of_component" if root == min(comp_of_root) else "root_inside_component")
        conn = struc.find_connected(bl, root)
        o.check(
            np.asarray(conn).dtype.kind in "iu" and len(conn) == len(comp_of_root) and {int(i) for i in conn} == set(comp_of_root),
            "molecules_are_components",
            lambda: f"find_connected(root={root}): got {sorted(int(i) for i in conn)} want {sorted(comp_of_root)}",
        )
        mask = np.asarray(struc.find_connected(bl, root, as_mask=True))
        if o.check(mask.shape == (n,), "molecule_masks", lambda: f"find_connected(as_mask=True): shape {mask.shape}, want {(n,)}"):
            o.check(
                {int(i) for i in np.where(mask)[0]} == set(comp_of_root),
                "molecule_masks",
                lambda: f"find_connected(root={root}, as_mask=True): got {np.where(mask)[0].tolist()} want {sorted(comp_of_root)}",
            )

    o.mark_nontrivial(len(want) >= 2 and has_cycle)
    return o


# --------------------------------------------------------------------------
# molecules: long graphs in a sacrificial process
# --------------------------------------------------------------------------
LONG_SHAPES = [
    "path",
    "path_reversed",
    "shuffled_path",
    "ring",
    "two_paths_isolated",
    "comb",
    "ladder",
    "many_small",
    "many_paths",
    "balanced_tree",
]
# shapes whose traversal depth stays small whatever the number of atoms: not narrowed for C17-F1, and a crash
# on them is NOT that finding
SHALLOW_SHAPES = ("many_small", "many_paths", "balanced_tree")
MANY_PATHS_MAX_LEN = 5000
LONG_FORMS = ["indices", "indices", "masks", "iter"]
MANY_SMALL_MAX = 3000


def st_long(tier):
    sizes = [1000, 2000, 5000, 10_000, 20_000, 30_000, 40_000, 50_000]
    # "structures of any size": the shapes with small components also get the sizes that C17-F1 forbids
    # for a single long component (beyond 2**16 atoms in the quick tier, too)
    shallow_sizes = [5000, 20_000, 50_000, 70_000, 100_000]
    if tier == "thorough":
        sizes += [65_000, 66_000, 100_000, 200_000, 200_000]
        shallow_sizes += [140_000, 200_000, 200_000]

    @st.composite
    def gen(draw):
        shape = draw(st.sampled_from(LONG_SHAPES))
        if shape in ("many_paths", "balanced_tree"):
            n_raw = draw(st.sampled_from(shallow_sizes)) - draw(st.sampled_from([0, 0, 1, 7, 500]))
        else:
            n_raw = draw(st.sampled_from(sizes)) - draw(st.sampled_from([0, 0, 1, 7, 500]))
        form = draw(st.sampled_from(LONG_FORMS))
        n = n_raw
        narrowed = False
        # C17-F1 (open): recursion depth of find_connected grows with the size of a component;
        # components above (stack limit / ~128 bytes) atoms kill the process (~65 400 at 8 MiB).
        # Narrowed by construction to a size derived from the stack limit of this process.
        if findings.is_open(F1) and n > F1_SAFE_N and shape not in SHALLOW_SHAPES:
            n = F1_SAFE_N
            narrowed = True
        return {
            "shape": shape,
            "n_raw": n_raw,
            "n": n,
            "narrowed": narrowed,
            "form": form,
            "input": "bondlist" if form != "iter" and draw(st.booleans()) else "array",
            "seed": draw(st.integers(0, 2**31 - 1)),
        }

    return gen()


def long_bonds(shape, n, seed):
    """(n, uint32 bond array) of a large graph; all bulk randomness from `seed`."""
    rng = np.random.default_rng(seed)
    ar = np.arange
    if shape == "path":
        e = np.stack([ar(n - 1), ar(1, n)], axis=1)
    elif shape == "path_reversed":
        e = np.stack([ar(1, n), ar(n - 1)], axis=1)[::-1]
    elif shape == "shuffled_path":
        p = rng.permutation(n)
        e = np.stack([p[:-1], p[1:]], axis=1)
        e = e[rng.permutation(len(e))]
    elif shape == "ring":
        e = np.stack([ar(n), (ar(n) + 1) % n], axis=1)
    elif shape == "two_paths_isolated":
        p = rng.permutation(n)
        iso = 5
        cut = int(rng.integers(1, n - iso - 1))
        body = p[: n - iso]
        e = np.stack([body[:-1], body[1:]], axis=1)
        e = np.delete(e, cut - 1, axis=0)
    elif shape == "comb":
        h = n // 2
        spine = np.stack([ar(h - 1), ar(1, h)], axis=1)
        teeth = np.stack([ar(h), ar(h) + h], axis=1)
        e = np.concatenate([spine, teeth])
        n = 2 * h
    elif shape == "ladder":
        h = n // 2
        left = np.stack([ar(h - 1), ar(1, h)], axis=1)
        right = left + h
        rungs = np.stack([ar(h), ar(h) + h], axis=1)
        e = np.concatenate([left, rungs, right])
        n = 2 * h
    elif shape == "many_small":
        n = min(n, MANY_SMALL_MAX)
        t = n // 4  # triangles 3 atoms each, the rest isolated
        p = rng.permutation(n)
        a, b, c = p[:t], p[t : 2 * t], p[2 * t : 3 * t]
        e = np.concatenate([np.stack([a, b], 1), np.stack([b, c], 1), np.stack([c, a], 1)])
    elif shape == "many_paths":
        # paths of bounded length (so that the depth of the traversal stays far below any stack limit), a few
        # isolated atoms, everything under a random relabelling
        p = rng.permutation(n)
        iso = 5
        max_len = int(rng.integers(1000, MANY_PATHS_MAX_LEN + 1))
        body = p[: n - iso]
        e = np.stack([body[:-1], body[1:]], axis=1)
        # cut after every max_len-th atom at the latest: bond i joins body[i] and body[i + 1]
        cuts = np.arange(max_len - 1, len(e), max_len)
        extra = rng.integers(0, len(e), 3)
        e = np.delete(e, np.unique(np.concatenate([cuts, extra])), axis=0)
    elif shape == "balanced_tree":
        # atom i is bonded to atom (i - 1) // 3: depth ~ log3(n), up to 4 bonds per atom; random relabelling
        p = rng.permutation(n)
        child = ar(1, n)
        e = np.stack([p[(child - 1) // 3], p[child]], axis=1)
        e = e[rng.permutation(len(e))]
    else:
        raise ValueError(shape)
    bonds = np.concatenate([e, rng.integers(0, 10, (len(e), 1))], axis=1).astype(np.uint32)
    return n, bonds


def canonical_labels(lab):
    """Relabel a partition (label per atom) by order of first occurrence."""
    lab = np.asarray(lab)
    _, first, inv = np.unique(lab, return_index=True, return_inverse=True)
    rank = np.empty(len(first), dtype=np.int64)
    rank[np.argsort(first)] = np.arange(len(first))
    return rank[inv.reshape(-1)]


def _child_long(n, bonds, form, input_kind):
    """Runs in the sacrificial process.  Returns the molecule label of every atom."""
    import faulthandler

    import biotite.structure as struc

    faulthandler.disable()  # an expected SIGSEGV must not dump the worker's traceback
    bl = struc.BondList(n, bonds)
    if input_kind == "bondlist":
        obj = bl
    else:
        obj = struc.AtomArray(n)
        obj.res_id = np.arange(n)
        obj.bonds = bl
    lab = np.full(n, -1, dtype=np.int64)
    multiple = 0
    if form == "indices":
        mols = struc.get_molecule_indices(obj)
        k = len(mols)
        for m, idx in enumerate(mols):
            multiple += int((lab[idx] != -1).sum())
            lab[idx] = m
    elif form == "masks":
        masks = struc.get_molecule_masks(obj)
        k = len(masks)
        if masks.shape != (k, n) or masks.dtype != bool:
            return {"error": f"masks shape {masks.shape} dtype {masks.dtype}"}
        multiple = int((masks.sum(axis=0) > 1).sum())
        covered = masks.any(axis=0)
        lab[covered] = masks.argmax(axis=0)[covered]
    else:
        k = 0
        for m, mol in enumerate(struc.molecule_iter(obj)):
            idx = mol.res_id
            multiple += int((lab[idx] != -1).sum())
            lab[idx] = m
            k += 1
    return {"k": k, "multiple": multiple, "lab": lab.astype(np.int32).tobytes()}


def run_long(case):
    import biotite.structure  # noqa: F401  (before the fork)

    from vlib.sandbox import run_sandboxed

    o = Outcome()
    if case.get("narrowed"):
        o.exclude(F1)
    n, bonds = long_bonds(case["shape"], case["n"], case["seed"])
    o.label("shape=" + case["shape"], "form=" + case["form"], "input=" + case["input"])
    o.label("n>=%d" % (10 ** (len(str(n)) - 1)))
    # reference: union-find over the bond array
    uf = UnionFind(n)
    for a, b in bonds[:, :2].tolist():
        uf.union(a, b)
    ref = canonical_labels([uf.find(i) for i in range(n)])
    n_comp = int(ref.max()) + 1 if n else 0

    status, value = run_sandboxed(_child_long, n, bonds, case["form"], case["input"], timeout=300)
    if status == "timeout":
        # wall clock is not part of the oracle
        o.label("timeout")
        o.ambiguous += 1
        return o
    if status != "ok":
        o.fail(
            "any_size_no_crash",
            f"{case['form']} form on a {case['shape']} graph with {n} atoms ended the process: {status} {value}"
            + (" [process killed by a signal]" if status == "signal" else ""),
        )
        return o
    if "error" in value:
        o.fail("molecule_masks", value["error"])
        return o
    o.check_eq(value["k"], n_comp, "molecules_are_components", "number of molecules")
    o.check_eq(value["multiple"], 0, "molecules_are_components", "atoms reported in more than one molecule")
    lab = np.frombuffer(value["lab"], dtype=np.int32)
    if o.check(bool((lab >= 0).all()), "molecules_are_components", "atoms reported in no molecule"):
        o.check(
            np.array_equal(canonical_labels(lab), ref),
            "molecules_are_components",
            lambda: f"partition differs from the union-find components ({value['k']} vs {n_comp} molecules)",
        )
    o.mark_nontrivial(n >= 10_000)
    return o


# --------------------------------------------------------------------------
SUBS = [
    Sub(
        "residues",
        st_annotated,
        run_residues,
        quick=3000,
        thorough=120000,
        rule=">= 3 reference residues of differing size and a res id that occurs in two chain ids",
        clauses="residue boundaries; start/mask/position of an atom's residue; count; names; iteration and "
        "concatenation; apply per residue; spread; empty arrays",
    ),
    Sub(
        "chains",
        st_annotated,
        run_chains,
        quick=2500,
        thorough=100000,
        rule=">= 3 reference chains of differing size and a chain id that labels two separate chains",
        clauses="chain boundaries (chain id changes or res id decreases); the same derived views for chains",
    ),
    Sub(
        "molecules",
        st_graph,
        run_molecules,
        quick=2500,
        thorough=100000,
        rule=">= 2 connected components and at least one cycle",
        clauses="molecules == connected components; index, mask and iterator forms; AtomArray, stack and BondList input",
    ),
    Sub(
        "long_graphs",
        st_long,
        run_long,
        quick=160,
        thorough=3200,
        rule=">= 10^4 atoms",
        clauses="molecules of structures of any size: components of paths/rings/ladders/trees of 10^3..2x10^5 atoms, "
        "process exit status",
    ),
]


def _f1_stack_overflow(sub, case, clause, message):
    # the case class of the finding: one long connected component (every long shape except the ones built
    # from small / shallow components), the sacrificial process killed by a signal.  No size constant: where
    # the stack ends depends on the stack limit and on the build of the extension.
    return (
        sub == "long_graphs"
        and clause == "any_size_no_crash"
        and case["shape"] not in SHALLOW_SHAPES
        and "[process killed by a signal]" in message
    )


FINDINGS = {"find_connected_stack_overflow": _f1_stack_overflow}
