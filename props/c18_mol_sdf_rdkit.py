"""
C18  Small molecules survive MOL/SDF files (V2000/V3000) and the RDKit bridge.

Oracles (all independent of biotite's own tables):

* MOL: the molecule read back has the same elements (upper-cased) in the same
  order, coordinates within half a unit of the 4th decimal plus one float32
  ulp, the same charges and the same *typed bond set*; a bond type without a
  CTAB counterpart in the CTfile table used here (QUADRUPLE, AROMATIC_TRIPLE,
  COORDINATION) may come back as the documented ``default_bond_type`` or as
  itself (a target that learns to express it).
  Every line of a written V2000 CTAB is matched against the fixed *column
  positions* of the CTfile specification (counts line, coordinates, symbol,
  charge code, bond integers, ``M  CHG`` line with at most 8 entries); the
  content of fields the property does not talk about (mass difference, stereo,
  valence ..., other ``M  xxx`` property lines) is free.  Charges must be
  recoverable from the text: all listed in ``M  CHG``, or - without any
  ``M  CHG`` line - all encoded in the atom block.
  V2000 requested for >= 1000 atoms or bonds must raise (any exception);
  without a requested version V3000 has to be selected.  A coordinate that
  needs more than 10 columns must raise (any exception) or select V3000 -
  never a shifted column.
  Two "reading" clauses look at the written text from the other side:
  the V2000 atom block charge codes alone (``M  CHG`` lines removed) are read
  by the spec table, and a written V3000 CTAB whose atom indices are renumbered
  (allowed by the specification) is the same molecule.  The V3000 text is only
  parsed tolerantly (free format); a layout that is not recognised is labelled
  and the renumbered read is skipped.
* SDF: names and order of the records, every header field, metadata as a
  mapping (key parts -> value; a changed order is labelled, not failed) and the
  molecule of every record are equal after write/read.
* RDKit: ``from_mol(to_mol(x), add_hydrogen=False)``: same atom order,
  elements, charges, residue annotations, coordinates bit-identical (float32
  -> double -> float32), one conformer per model with IDs 0..m-1, bond types
  exact except: COORDINATION is SINGLE unless ``use_dative_bonds`` (documented),
  aromatic types come back as *some* aromatic type (the kekule order is
  RDKit's choice), ``kekulize=True`` removes aromaticity as documented
  (AROMATIC_X -> X; order-less AROMATIC -> any non-aromatic type).
"""

import io
import math
import os
import re
import tempfile
import warnings

import numpy as np
from hypothesis import strategies as st

from vlib import Enum, Outcome, Sub, findings

PROPERTY = "C18"
RULE = (
    "molecules with explicit atoms (1..30), seeded bulk molecules (31..60, thorough ..120) or seeded bulk "
    "molecules around the 999/1000 limits; non-trivial = >= 3 different bond types, or a charge beyond +-3, or >= 1000 atoms/bonds; "
    "SDF: >= 2 records or a registry key part or a multi-line value; RDKit: >= 3 bond types, a charge "
    "beyond +-3 or a stack of >= 2 models"
)

F1 = "C18-F1"  # edge blanks of free-text lines are stripped on read

# --------------------------------------------------------------------------
# constants written down from the CTfile specification / biotite's documentation
# (deliberately not imported from biotite)
# --------------------------------------------------------------------------
BT = {
    "ANY": 0,
    "SINGLE": 1,
    "DOUBLE": 2,
    "TRIPLE": 3,
    "QUADRUPLE": 4,
    "AROMATIC_SINGLE": 5,
    "AROMATIC_DOUBLE": 6,
    "AROMATIC_TRIPLE": 7,
    "COORDINATION": 8,
    "AROMATIC": 9,
}
BT_NAME = {v: k for k, v in BT.items()}
ALL_TYPES = sorted(BT.values())
# bond types with a CTAB counterpart (1 single, 2 double, 3 triple, 4 aromatic,
# 5 single-or-double / 8 any, 6 single-or-aromatic, 7 double-or-aromatic)
CTAB_EXPRESSIBLE = {
    BT["SINGLE"]: {1},
    BT["DOUBLE"]: {2},
    BT["TRIPLE"]: {3},
    BT["AROMATIC"]: {4},
    BT["ANY"]: {5, 8},
    BT["AROMATIC_SINGLE"]: {6},
    BT["AROMATIC_DOUBLE"]: {7},
}
DEFAULTS = sorted(CTAB_EXPRESSIBLE)
AROMATIC_TYPES = {BT["AROMATIC_SINGLE"], BT["AROMATIC_DOUBLE"], BT["AROMATIC_TRIPLE"], BT["AROMATIC"]}
KEKULIZED = {
    BT["AROMATIC_SINGLE"]: BT["SINGLE"],
    BT["AROMATIC_DOUBLE"]: BT["DOUBLE"],
    BT["AROMATIC_TRIPLE"]: BT["TRIPLE"],
    BT["AROMATIC"]: BT["ANY"],
}
# V2000 atom block charge code (CTfile formats, "ccc")
V2000_CHARGE_CODE = {0: 0, 3: 1, 2: 2, 1: 3, -1: 5, -2: 6, -3: 7}

ELEMENTS = (
    "H HE LI BE B C N O F NE NA MG AL SI P S CL AR K CA SC TI V CR MN FE CO NI CU ZN GA GE AS SE BR KR "
    "RB SR Y ZR NB MO TC RU RH PD AG CD IN SN SB TE I XE CS BA LA CE PR ND PM SM EU GD TB DY HO ER TM YB "
    "LU HF TA W RE OS IR PT AU HG TL PB BI PO AT RN FR RA AC TH PA U NP PU AM CM BK CF ES FM MD NO LR RF "
    "DB SG BH HS MT DS RG CN NH FL MC LV TS OG"
).split()
COMMON = ["C", "C", "C", "N", "O", "H", "H", "S", "P", "FE", "CL", "BR", "NA", "ZN"]

TEXT_ALPHABET = (
    "abcdefghijklmnopqrstuvwxyzABCDEFGHIJKLMNOPQRSTUVWXYZ0123456789"
    " !\"#$%&'()*+,-./:;<=>?@[\\]^_`{|}~" + "éµß"
)
SPECIAL_LINES = ["M  END", "M  V30 END CTAB", "M  CHG  1   1   1", "V2000", "0", "> x", "$$$"]

V2000_CHARGE_DECODE = {v: k for k, v in V2000_CHARGE_CODE.items()}
ALL_CTAB_CODES = set().union(*CTAB_EXPRESSIBLE.values())

R3 = r"(?:  \d| \d\d|\d\d\d)"
# an unused / optional 3-wide integer field: any right-aligned integer or blank
F3 = r"(?:   |  \d| \d\d|\d\d\d| -\d|-\d\d)"
RE_COUNTS = re.compile(rf"^({R3})({R3})(?:{F3}){{9}} V2000$")
RE_COORD = re.compile(r"^ *-?\d+\.\d{4}$")
RE_SYMBOL = re.compile(r"^(?:[A-Z]  |[A-Z][a-z] )$")
RE_F3 = re.compile(rf"^{F3}$")
RE_DD = re.compile(r"^(?:  | \d|-\d|\d\d)$")
RE_CHG = re.compile(rf"^M  CHG({R3})((?: {R3} (?:  \d| \d\d| -\d|-\d\d|  0)){{1,8}})$")


def f32(x):
    return float(np.float32(x))


def fits_columns(x):
    """Does the value fit the 10 columns of the V2000 atom block (xxxxx.xxxx)?"""
    if math.isnan(x) or math.isinf(x):
        return False
    return len(f"{x:.4f}") <= 10


# --------------------------------------------------------------------------
# building biotite objects from plain data
# --------------------------------------------------------------------------
def reduce_bonds(raw, n):
    """raw [[i, j, type]] with arbitrary non-negative ints -> dict {(lo, hi): type}."""
    out = {}
    for i, j, t in raw:
        i %= n
        j %= n
        if i == j:
            continue
        out[(min(i, j), max(i, j))] = int(t)
    return out


def bulk_molecule(spec):
    """Seeded bulk molecule: n atoms, exactly nb bonds (nb <= n(n-1)/2)."""
    n, nb, seed = spec["n"], spec["nb"], spec["seed"]
    rng = np.random.default_rng(seed)
    el = rng.choice(np.array(ELEMENTS), size=n)
    lim = [50.0, 9999.0, 99999.0][seed % 3]
    coord = rng.uniform(-min(lim, 9999.0), lim, size=(n, 3)).astype(np.float32)
    # knife edges: x.xxxx5 in some places
    k = rng.integers(0, n, size=max(1, n // 10))
    coord[k, 0] = (rng.integers(-99999, 99999, size=len(k)) / 10000.0 + 0.00005).astype(np.float32)
    mode = spec.get("charge_mode", 1)
    if mode == 0:
        charge = np.zeros(n, dtype=int)
    elif mode == 1:
        charge = np.where(rng.random(n) < 0.05, rng.integers(-15, 16, size=n), 0)
    else:
        charge = rng.integers(-15, 16, size=n)
        charge[charge == 0] = 7
    bonds = {}
    nb = min(nb, n * (n - 1) // 2)
    for i in range(min(nb, n - 1)):
        bonds[(i, i + 1)] = int(rng.integers(0, 10))
    while len(bonds) < nb:
        i, j = (int(v) for v in rng.integers(0, n, size=2))
        if i != j:
            bonds.setdefault((min(i, j), max(i, j)), int(rng.integers(0, 10)))
    atoms = [[str(el[i]), float(coord[i, 0]), float(coord[i, 1]), float(coord[i, 2]), int(charge[i])] for i in range(n)]
    return atoms, bonds


def mol_parts(case):
    """-> atoms [[el, x, y, z, charge]], bonds {(i, j): type}"""
    if case.get("bulk"):
        atoms, bonds = bulk_molecule(case["bulk"])
    else:
        atoms = [list(a) for a in case["atoms"]]
        bonds = reduce_bonds(case["bonds"], len(atoms))
    over = case.get("over")
    if over:
        i, axis, value = over
        # (the value as the float32 coordinate array will hold it)
        atoms[i % len(atoms)][1 + axis % 3] = f32(value) if math.isfinite(value) else value
    return atoms, bonds


def mk_atom_array(atoms, bonds, has_charge):
    import biotite.structure as struc

    n = len(atoms)
    arr = struc.AtomArray(n)
    arr.element = np.array([a[0] for a in atoms], dtype="U2")
    arr.coord = np.array([a[1:4] for a in atoms], dtype=np.float32).reshape(n, 3)
    if has_charge:
        arr.set_annotation("charge", np.array([a[4] for a in atoms], dtype=int))
    barr = np.array([[i, j, t] for (i, j), t in bonds.items()], dtype=np.uint32).reshape(-1, 3)
    arr.bonds = struc.BondList(n, barr)
    return arr


def mk_header(h, mol_name=None):
    import datetime

    from biotite.structure.io.mol import Header

    t = h["time"]
    return Header(
        mol_name=h["mol_name"] if mol_name is None else mol_name,
        initials=h["initials"],
        program=h["program"],
        time=None if t is None else datetime.datetime(*t),
        dimensions=h["dimensions"],
        scaling_factors=h["scaling_factors"],
        energy=h["energy"],
        registry_number=h["registry_number"],
        comments=h["comments"],
    )


def header_fields(header):
    t = header.time
    return {
        "mol_name": header.mol_name,
        "initials": header.initials,
        "program": header.program,
        "time": None if t is None else [t.year, t.month, t.day, t.hour, t.minute],
        "dimensions": header.dimensions,
        "scaling_factors": header.scaling_factors,
        "energy": header.energy,
        "registry_number": header.registry_number,
        "comments": header.comments,
    }


def typed_bond_set(bond_list):
    return {(int(min(i, j)), int(max(i, j)), int(t)) for i, j, t in bond_list.as_array()}


def fmt_bonds(s, limit=12):
    items = sorted(s)
    txt = ", ".join(f"{i}-{j}:{BT_NAME.get(t, t)}" for i, j, t in items[:limit])
    return txt + (" ..." if len(items) > limit else "")


# --------------------------------------------------------------------------
# oracle pieces
# --------------------------------------------------------------------------
def bond_alternatives(bonds, default):
    """{(i, j): set of acceptable types read back}.  A type with a CTAB counterpart must come back
    exactly; one without may come back as the documented default or - if the target learns to
    express it (the V3000 bond block e.g. defines 9 = coordination) - as itself."""
    return {k: ({t} if t in CTAB_EXPRESSIBLE else {t, default}) for k, t in bonds.items()}


def bond_dict(bond_list):
    return {(int(min(i, j)), int(max(i, j))): int(t) for i, j, t in bond_list.as_array()}


def check_molecule(o, got, atoms, want_bonds, want_charges, tag=""):
    """got: AtomArray read back.  want_bonds: {(i, j): set of acceptable types}."""
    n = len(atoms)
    if not o.check_eq(got.array_length(), n, "atom_count", tag + "number of atoms"):
        return False
    want_el = [a[0].upper() for a in atoms]
    o.check(
        got.element.tolist() == want_el,
        "elements_same_order",
        lambda: tag + f"elements {got.element.tolist()[:20]} want {want_el[:20]}",
    )
    want = np.array([a[1:4] for a in atoms], dtype=np.float32).reshape(n, 3)
    diff = np.abs(got.coord.astype(np.float64) - want.astype(np.float64))
    tol = 0.00005 + np.spacing(np.abs(want)).astype(np.float64)
    bad = np.argwhere(~(diff <= tol))
    o.check(
        len(bad) == 0,
        "coordinates_within_tolerance",
        lambda: tag + f"coord[{bad[0].tolist()}] = {got.coord[tuple(bad[0])]!r}, written {want[tuple(bad[0])]!r}",
    )
    if "charge" in got.get_annotation_categories():
        gc = [int(c) for c in got.charge]
    else:
        gc = None
    o.check(gc == list(want_charges), "charges", lambda: tag + f"charges {gc and gc[:20]} want {list(want_charges)[:20]}")
    gb = bond_dict(got.bonds)
    o.check(
        got.bonds.get_bond_count() == len(gb) and gb.keys() == want_bonds.keys() and all(gb[k] in want_bonds[k] for k in gb),
        "bonds_typed_set",
        lambda: tag
        + "missing ["
        + fmt_bonds({(i, j, min(ts)) for (i, j), ts in want_bonds.items() if gb.get((i, j)) not in ts})
        + "] unexpected ["
        + fmt_bonds({(i, j, t) for (i, j), t in gb.items() if t not in want_bonds.get((i, j), ())})
        + "]",
    )
    return True


def _fields3(tail, max_fields):
    """tail of a fixed-column line -> list of 3-wide fields, or None if one of them is not a
    right-aligned integer / blank (a cut-off last field may only hold blanks)."""
    if len(tail) > 3 * max_fields:
        return None
    out = []
    for q in range(0, len(tail), 3):
        f = tail[q : q + 3]
        if len(f) < 3:
            if f.strip():
                return None
            f = f.ljust(3)
        if not RE_F3.match(f):
            return None
        out.append(f)
    return out


def check_v2000_lines(o, ctab, atoms, bonds, charges, default):
    """ctab: lines from the counts line to 'M  END' of a V2000 CTAB.

    Only what the statement names is pinned: the *column positions* of counts, coordinates, symbol,
    charge code and the bond integers, and that the charges can be recovered from the text.  The
    content of the other fields and other property lines are free.  Returns None if the layout is
    broken, else {"ccc": [charge codes of the atom block], "foreign": bond keys written with a code
    outside the table of this module}."""
    n, nb = len(atoms), len(bonds)
    m = RE_COUNTS.match(ctab[0])
    if not o.check(m is not None, "v2000_counts_line_columns", lambda: f"counts line {ctab[0]!r}"):
        return None
    o.check_eq((int(m.group(1)), int(m.group(2))), (n, nb), "v2000_counts_line_columns", "counts")
    if not o.check(len(ctab) >= 1 + n + nb + 1, "v2000_line_count", f"{len(ctab)} lines for {n} atoms {nb} bonds"):
        return None
    ccc = []
    other_fields = False
    for k in range(n):
        line = ctab[1 + k]
        ok = len(line) >= 32 and all(RE_COORD.match(line[10 * g : 10 * g + 10]) for g in range(3)) and line[30] == " "
        ok = ok and RE_SYMBOL.match(line[31:34].ljust(3)) is not None
        rest = line[34:]
        dd, code, tail = rest[0:2].ljust(2), rest[2:5].ljust(3), _fields3(rest[5:], 10)
        ok = ok and RE_DD.match(dd) is not None and RE_F3.match(code) is not None and tail is not None
        if not o.check(bool(ok), "v2000_atom_line_columns", lambda: f"atom line {k + 1}: {line!r}"):
            return None
        o.check_eq(line[31:34].strip().upper(), atoms[k][0].upper(), "v2000_atom_line_columns", f"symbol of atom {k + 1}")
        ccc.append(int(code) if code.strip() else 0)
        if any(f.strip() not in ("", "0") for f in tail) or dd.strip() not in ("", "0"):
            other_fields = True
    if other_fields:
        o.label("v2000_atom_line_other_fields_used")
    seen = {}
    for k in range(nb):
        line = ctab[1 + n + k]
        tail = _fields3(line[9:], 4)
        ok = re.match(rf"^{R3}{R3}{R3}", line) is not None and tail is not None
        if not o.check(ok, "v2000_bond_line_columns", lambda: f"bond line {k + 1}: {line!r}"):
            return None
        i, j, t = int(line[0:3]), int(line[3:6]), int(line[6:9])
        if not o.check(1 <= i <= n and 1 <= j <= n and i != j, "v2000_bond_line_columns", lambda: f"bond line {line!r}"):
            return None
        seen[(min(i, j) - 1, max(i, j) - 1)] = t
    foreign = set()
    bad = []
    if seen.keys() == bonds.keys():
        for k, t in bonds.items():
            if t in CTAB_EXPRESSIBLE:
                if seen[k] not in CTAB_EXPRESSIBLE[t]:
                    bad.append(k)
            elif seen[k] in CTAB_EXPRESSIBLE[default]:
                pass
            elif seen[k] not in ALL_CTAB_CODES:
                # a code of its own for a type this module's table cannot express: must read back as that type
                foreign.add(k)
            else:
                bad.append(k)
    o.check(
        seen.keys() == bonds.keys() and not bad,
        "v2000_bond_type_code",
        lambda: "written "
        + str([(k, BT_NAME[bonds[k]], seen[k]) for k in sorted(bad)[:10]] if seen.keys() == bonds.keys() else sorted(seen.items())[:10])
        + f" (bond, type, code); codes by the spec table: {sorted((BT_NAME[t], sorted(v)) for t, v in CTAB_EXPRESSIBLE.items())}, default {BT_NAME[default]}",
    )
    if foreign:
        o.label("v2000_own_code_for_inexpressible_type")
    rest = ctab[1 + n + nb :]
    o.check_eq(rest[-1], "M  END", "v2000_terminator", "last line")
    o.check(not any(ln.startswith("M  END") for ln in rest[:-1]), "v2000_terminator", "'M  END' before the last line")
    listed = {}
    n_chg = 0
    other_lines = False
    for line in rest[:-1]:
        if not line.startswith("M  CHG"):
            # other property lines (M  RAD, M  ISO, atom lists ...) are none of this property's business
            other_lines = True
            continue
        n_chg += 1
        m = RE_CHG.match(line)
        if not o.check(m is not None, "v2000_chg_line_columns", lambda: f"property line {line!r}"):
            return None
        body = m.group(2)
        entries = [body[8 * q : 8 * q + 8] for q in range(len(body) // 8)]
        o.check_eq(int(m.group(1)), len(entries), "v2000_chg_line_columns", f"entry count of {line!r}")
        for e in entries:
            listed[int(e[1:4]) - 1] = int(e[5:8])
    if other_lines:
        o.label("v2000_other_property_line")
    want_listed = {k: c for k, c in enumerate(charges) if c != 0}
    if n_chg:
        # 'M  CHG' supersedes the atom block: every charge must be listed (explicit zeros are harmless);
        # the legacy code may additionally be filled or left 0
        o.label("v2000_charges_in_M_CHG")
        o.check_eq({k: c for k, c in listed.items() if c != 0}, want_listed, "v2000_chg_lines_list_all_charges", "M  CHG entries")
        want_codes = [{0, V2000_CHARGE_CODE.get(c, 0)} for c in charges]
    else:
        if want_listed:
            o.label("v2000_charges_in_atom_block_only")
        o.check(
            all(abs(c) <= 3 for c in charges),
            "v2000_chg_lines_list_all_charges",
            lambda: f"no M  CHG line although the charges {sorted(set(c for c in charges if abs(c) > 3))} have no atom block code",
        )
        want_codes = [{V2000_CHARGE_CODE.get(c, 0)} for c in charges]
    bad_codes = [(k + 1, charges[k], ccc[k]) for k in range(n) if ccc[k] not in want_codes[k]]
    o.check(not bad_codes, "v2000_atom_block_charge_code", lambda: f"(atom, charge, written code): {bad_codes[:10]}")
    if n_chg and any(ccc):
        o.label("v2000_legacy_charge_code_filled")
    return {"ccc": ccc, "foreign": foreign}


def parse_v3000(ctab):
    """Tolerant look at a V3000 CTAB (free format: only 'M  V30 ' prefix, BEGIN/END markers and
    blank-separated tokens are used).  -> {"counts": (na, nb) | None, "atom": [line positions],
    "bond": [line positions]} or None if the layout is not recognised (continuation lines, quoted
    tokens, missing atom block ...)."""
    where = None
    out = {"counts": None, "atom": [], "bond": []}
    closed = set()
    for pos, line in enumerate(ctab):
        if not line.startswith("M  V30 "):
            continue
        if line.rstrip().endswith("-") or '"' in line or "'" in line:
            return None
        tok = line[7:].split()
        if not tok:
            continue
        if tok[0] == "COUNTS" and where is None:
            if len(tok) >= 3 and tok[1].isdigit() and tok[2].isdigit():
                out["counts"] = (int(tok[1]), int(tok[2]))
        elif tok[0] == "BEGIN" and len(tok) >= 2:
            if tok[1] in ("ATOM", "BOND"):
                if where is not None or tok[1] in closed:
                    return None
                where = tok[1].lower()
            elif tok[1] != "CTAB":
                # a block this module does not know: leave the table alone
                return None
        elif tok[0] == "END" and len(tok) >= 2:
            if tok[1] in ("ATOM", "BOND"):
                if where != tok[1].lower():
                    return None
                closed.add(tok[1])
                where = None
        elif where == "atom":
            if len(tok) < 5 or not tok[0].isdigit():
                return None
            out["atom"].append(pos)
        elif where == "bond":
            if len(tok) < 4 or not all(t.isdigit() for t in tok[:4]):
                return None
            out["bond"].append(pos)
    if where is not None or "ATOM" not in closed:
        return None
    return out


def renumber_v3000(ctab, layout, reverse, mul, add):
    """The specification allows arbitrary positive atom indices: map the written index i
    to mul * p(i) + add with p = identity or reversal of the written order."""
    old = [int(ctab[pos][7:].split()[0]) for pos in layout["atom"]]
    if len(set(old)) != len(old):
        return None
    order = list(reversed(old)) if reverse else old
    rank = {idx: r for r, idx in enumerate(order)}
    new = {idx: mul * (rank[idx] + 1) + add for idx in old}
    out = list(ctab)
    for pos in layout["atom"]:
        tok = ctab[pos][7:].split()
        tok[0] = str(new[int(tok[0])])
        out[pos] = "M  V30 " + " ".join(tok)
    for pos in layout["bond"]:
        tok = ctab[pos][7:].split()
        if int(tok[2]) not in new or int(tok[3]) not in new:
            return None
        tok[2], tok[3] = str(new[int(tok[2])]), str(new[int(tok[3])])
        out[pos] = "M  V30 " + " ".join(tok)
    return out


def read_ctab_public(ctab):
    """Read a bare CTAB through the public file class (three empty header lines in front)."""
    import biotite.structure.io.mol as molio

    f = molio.MOLFile()
    f.lines = ["", "", ""] + list(ctab)
    return f.get_structure()


def write_read_text(obj, cls, io_mode):
    """obj.write -> text -> cls.read; through StringIO or a real file."""
    if io_mode == "path":
        fd, path = tempfile.mkstemp(prefix="c18_", suffix=".sdf")
        os.close(fd)
        try:
            obj.write(path)
            with open(path) as f:
                text = f.read()
            back = cls.read(path)
        finally:
            os.unlink(path)
        return text, back
    buf = io.StringIO()
    obj.write(buf)
    text = buf.getvalue()
    return text, cls.read(io.StringIO(text))


# --------------------------------------------------------------------------
# (a) MOL round trip
# --------------------------------------------------------------------------
def run_mol(case):
    import biotite.structure.io.mol as molio
    from biotite.file import InvalidFileError
    from biotite.structure import BondType

    o = Outcome()
    atoms, bonds = mol_parts(case)
    n, nb = len(atoms), len(bonds)
    if any(not math.isfinite(v) or abs(v) > 1e15 for a in atoms for v in a[1:4]):
        # outside "coordinates up to the column limits" and, for the width test of the writer, a
        # float -> int conversion whose result is platform dependent: not judged (stored cases only)
        o.invalid = True
        return o
    has_charge = case["has_charge"]
    charges = [a[4] if has_charge else 0 for a in atoms]
    version = case["version"]
    default = case["default"]
    arr = mk_atom_array(atoms, bonds, has_charge)
    types_used = {t for t in bonds.values()}
    api = case.get("api", "method")
    io_mode = case.get("io", "stringio")

    o.label(f"version={version}", f"default={BT_NAME[default]}", f"api={api}", f"io={io_mode}")
    o.label("n<=10" if n <= 10 else "n<=60" if n <= 60 else "n<1000" if n < 1000 else "n>=1000")
    if case.get("bulk"):
        o.label("bulk_molecule")
    if nb >= 1000:
        o.label("bonds>=1000")
    if n >= 1000 or nb >= 1000:
        o.label("atoms_or_bonds>=1000")
    if len(types_used) >= 3:
        o.label(">=3_bond_types")
    if any(abs(c) > 3 for c in charges):
        o.label("|charge|>3")
    if sum(1 for c in charges if c != 0) > 8:
        o.label(">8_charged_atoms")
    if any(t not in CTAB_EXPRESSIBLE for t in types_used):
        o.label("inexpressible_bond_type")
    if not has_charge:
        o.label("no_charge_annotation")
    o.mark_nontrivial(len(types_used) >= 3 or any(abs(c) > 3 for c in charges) or n >= 1000 or nb >= 1000)

    f = molio.MOLFile()
    hdr = case.get("header")

    def set_struct():
        if api == "convert":
            molio.set_structure(f, arr, default_bond_type=BondType(default), version=version)
        else:
            f.set_structure(arr, default_bond_type=BondType(default), version=version)

    if hdr is not None:
        o.label("header_first" if case.get("header_first", True) else "header_after_structure")
        if case.get("header_first", True):
            f.header = mk_header(hdr)

    coords_fit = all(fits_columns(v) for a in atoms for v in a[1:4])
    too_many = n >= 1000 or nb >= 1000
    if not coords_fit:
        o.label("coordinate_beyond_columns", f"coordinate_beyond_columns:version={version}")
    if version == "V2000" and too_many:
        o.label("v2000_requested_but_too_large")
    with warnings.catch_warnings():
        warnings.simplefilter("ignore")
        if coords_fit and not (version == "V2000" and too_many):
            set_struct()
        else:
            # "select V3000 or raise an error": no exception type is promised anywhere
            try:
                set_struct()
            except Exception as e:  # noqa: BLE001
                o.label(f"refused:{type(e).__name__}")
                o.label("coordinate_beyond_columns:raised" if not coords_fit else "v2000_too_large:raised")
                return o
            if version == "V2000" and too_many:
                o.fail("v2000_too_many_atoms_or_bonds_raises", f"{n} atoms {nb} bonds as V2000: no exception, counts line {f.lines[3]!r}")
                return o
            # a value beyond the columns was not refused: only acceptable as a V3000 table
            # (which is then read back and compared like any other)
            if version == "V2000" or not f.lines[3].endswith("V3000"):
                o.fail("value_beyond_v2000_columns_rejected", f"written: {f.lines[3:6]!r}")
                return o
            o.label("coordinate_beyond_columns:written_as_V3000")
    if hdr is not None and not case.get("header_first", True):
        f.header = mk_header(hdr)

    text, back = write_read_text(f, molio.MOLFile, io_mode)
    lines = text.splitlines()
    ctab = lines[3:]
    written_version = "V3000" if ctab[0].endswith("V3000") else "V2000" if ctab[0].endswith("V2000") else "?"
    o.label("written=" + written_version)
    if version is not None:
        o.check_eq(written_version, version, "requested_version_written", "CTAB version")
    else:
        want_version = "V3000" if (too_many or not coords_fit) else "V2000"
        o.check_eq(written_version, want_version, "automatic_version_selection", f"{n} atoms {nb} bonds")
        if too_many:
            o.label("V3000_auto_selected")

    want_bonds = bond_alternatives(bonds, default)

    v2 = v3 = None
    if written_version == "V2000":
        v2 = check_v2000_lines(o, ctab, atoms, bonds, charges, default)
        if v2 is not None:
            for k in v2["foreign"]:
                want_bonds[k] = {bonds[k]}
    elif written_version == "V3000":
        v3 = parse_v3000(ctab)
        if v3 is None:
            o.label("v3000_layout_unrecognised")
        else:
            o.check_eq(ctab[-1], "M  END", "v3000_terminator", "last line")
            if v3["counts"] is not None:
                o.check_eq(v3["counts"], (n, nb), "v3000_counts_line", "atom and bond count of the COUNTS line")
    else:
        o.fail("requested_version_written", f"counts line {ctab[0]!r}")
        return o

    with warnings.catch_warnings():
        warnings.simplefilter("ignore")
        if hdr is not None:
            o.label("with_header")
            if hdr["mol_name"].startswith("M  END") or hdr["comments"].startswith("M  END"):
                o.label("header_line_M_END")
            o.check_eq(header_fields(back.header), {**hdr}, "mol_header_fields", "header")
        try:
            if api == "convert":
                got = molio.get_structure(back)
            else:
                got = back.get_structure()
        except InvalidFileError as e:
            # the file was written by biotite from a valid molecule and header
            o.fail("written_mol_file_is_readable", f"get_structure(): InvalidFileError: {e}; header lines {lines[:3]!r}")
            return o
        if check_molecule(o, got, atoms, want_bonds, charges):
            gb = bond_dict(got.bonds)
            if any(t not in CTAB_EXPRESSIBLE and gb.get(k) == t and t != default for k, t in bonds.items()):
                o.label("inexpressible_bond_type_came_back_as_itself")

        if v2 is not None and any(v2["ccc"]):
            # the atom block alone (a V2000 file without the optional M  CHG property lines): the reader
            # has to take the charge codes that are written there by the table of the specification
            stripped = [ln for ln in ctab if not ln.startswith("M  CHG")]
            got2 = read_ctab_public(stripped)
            want2 = [V2000_CHARGE_DECODE.get(c) for c in v2["ccc"]]
            if None in want2:
                o.label("v2000_charge_code_outside_table")
            else:
                o.label("v2000_atom_block_charge_read")
                o.check(
                    [int(c) for c in got2.charge] == want2,
                    "v2000_atom_block_charge_read",
                    lambda: f"atom block charges read {[int(c) for c in got2.charge][:20]} want {want2[:20]}",
                )
        if v3 is not None:
            rev, mul, add = case.get("renumber", [True, 1, 0])
            renumbered = renumber_v3000(ctab, v3, rev, mul, add)
            if renumbered is None:
                o.label("v3000_layout_unrecognised")
            else:
                o.label("v3000_renumbered_read")
                got3 = read_ctab_public(renumbered)
                check_molecule(o, got3, atoms, want_bonds, charges, tag=f"[V3000 atom indices renumbered rev={rev} *{mul} +{add}] ")
    return o


def st_text(max_size, min_size=0, alphabet=TEXT_ALPHABET):
    """Printable text without blanks at either end."""
    return st.text(alphabet, min_size=min_size, max_size=max_size).map(str.strip).filter(lambda s: len(s) >= min_size)


def st_fixed_field(width):
    return st.one_of(
        st.just(""),
        st_text(width),
        st.text("abcXYZ019.-+", min_size=width, max_size=width),
    )


def st_time():
    return st.one_of(
        st.none(),
        st.tuples(
            st.one_of(st.integers(1969, 2068), st.sampled_from([1969, 1999, 2000, 2068])),
            st.integers(1, 12),
            st.integers(1, 28),
            st.integers(0, 23),
            st.integers(0, 59),
        ).map(list),
    )


def st_free_line(max_size=80):
    return st.one_of(
        st_text(16),
        st.builds(lambda a, k: (a * max_size)[:k], st_text(8, min_size=1), st.integers(max_size - 10, max_size)).map(str.strip),
        st.sampled_from(["", "M  END", "M  END ", "x" * max_size]).map(str.strip),
        st.sampled_from(SPECIAL_LINES),
    )


def st_header(with_name=True):
    h = _st_header(with_name)
    if not with_name:
        # (SD files) '$$$$' at the start of any line is the record delimiter of the format itself:
        # initials '$$' + a full-width program '$$......' would put it on the second header line
        h = h.filter(lambda d: not f"{d['initials']:>2.2}{d['program']:>8.8}".startswith("$$$$"))
    return h


def _st_header(with_name):
    return st.fixed_dictionaries(
        {
            "mol_name": st_free_line(80) if with_name else st.just(""),
            "initials": st_fixed_field(2),
            "program": st_fixed_field(8),
            "time": st_time(),
            "dimensions": st.sampled_from(["", "2D", "3D", "x"]),
            "scaling_factors": st_fixed_field(12),
            "energy": st_fixed_field(12),
            "registry_number": st_fixed_field(6),
            # ('$$$$' at the start of any line is the record delimiter of the SD format itself)
            "comments": st_free_line(80) if with_name else st_free_line(80).filter(lambda s: not s.startswith("$$$$")),
        }
    )


def st_element():
    return st.one_of(
        st.sampled_from(COMMON),
        st.sampled_from(ELEMENTS),
        st.sampled_from(ELEMENTS).map(str.capitalize),
        st.sampled_from(ELEMENTS).map(str.lower),
    )


KNIFE_VALUES = [
    0.0,
    -0.0,
    0.00005,
    -0.00005,
    0.00004999,
    1e-5,
    -1e-5,
    0.5,
    -0.99995,
    99999.9921875,
    -9999.9990234375,
    9999.9990234375,
    99999.0,
    -9999.0,
    1234.56789,
]


def st_coord():
    return st.one_of(
        st.floats(-50, 50, width=32),
        st.floats(-50, 50, width=32),
        st.floats(-9999.0, 99999.0, width=32),
        st.integers(-99_999_999, 999_999_999).map(lambda k: f32(k / 10000.0 + 0.00005)),
        st.integers(-500_000, 500_000).map(lambda k: f32(k / 10000.0 + 0.00005)),
        st.sampled_from(KNIFE_VALUES).map(f32),
    ).filter(fits_columns)


# values that need more than the 10 columns of the V2000 atom block.  Non-finite values and values
# beyond the int64 range are not drawn: outside "coordinates up to the column limits", and the width
# test of the writer converts float -> int, which is platform dependent for them (run_mol marks a
# stored case that holds one as invalid).
OVER_VALUES = [100000.0, -10000.0, 1e6, -99999.0, 123456.7, 100000.0078125, -10000.0009765625, 1e9, -1e12, -10000.5]


def st_charge():
    return st.one_of(st.just(0), st.integers(-3, 3), st.integers(-15, 15), st.sampled_from([-15, 15, 4, -4]))


def st_atoms(max_atoms, min_atoms=1):
    atom = st.tuples(st_element(), st_coord(), st_coord(), st_coord(), st_charge()).map(list)
    return st.lists(atom, min_size=min_atoms, max_size=max_atoms)


def st_bonds(max_atoms, max_bonds, min_bonds=0):
    return st.lists(
        st.tuples(st.integers(0, max_atoms - 1), st.integers(0, max_atoms - 1), st.sampled_from(ALL_TYPES)).map(list),
        min_size=min_bonds,
        max_size=max_bonds,
    )


def st_rarely(k):
    """True in roughly 1 of k cases.  Integer draws are biased towards their bounds,
    so the True entries are spread over the inside of a longer list."""
    return st.sampled_from([(i % k) == k // 2 for i in range(4 * k)])


def st_renumber():
    return st.tuples(st.booleans(), st.integers(1, 3), st.sampled_from([0, 0, 1, 7, 2000])).map(list)


def st_mol_common():
    return {
        "has_charge": st.sampled_from([True, True, True, False]),
        "version": st.sampled_from([None, None, "V2000", "V3000"]),
        "default": st.sampled_from([BT["ANY"], BT["ANY"], BT["SINGLE"]] + DEFAULTS),
        "renumber": st_renumber(),
    }


def st_mol_small(tier):
    max_atoms = 60 if tier == "quick" else 120
    # every strategy object is built once here, not per drawn case (building and validating them
    # anew for every example costs more than running the example)
    buckets = [(1, 3), (4, 12), (4, 12), (4, 12), (13, 30), (31, max_atoms)]
    s_bucket = st.sampled_from(buckets)
    s_atoms = {(lo, hi): st_atoms(hi, lo) for lo, hi in set(buckets) if lo <= 30}
    s_bonds = {(lo, hi, mb): st_bonds(hi, 2 * hi, mb) for lo, hi in set(buckets) if lo <= 30 for mb in (0, min(lo, 8))}
    s_header = st.one_of(st.none(), st_header())
    s_api = st.sampled_from(["method", "method", "convert"])
    s_io = st.sampled_from(["stringio"] * 7 + ["path"])
    s_common = st.fixed_dictionaries(st_mol_common())
    s_over = st.tuples(st.integers(0, max_atoms), st.integers(0, 2), st.sampled_from(OVER_VALUES)).map(list)
    s_rare = st_rarely(12)
    s_seed = st.integers(0, 2**31 - 1)
    s_bool = st.booleans()
    s_mode = st.integers(0, 2)

    @st.composite
    def gen(draw):
        lo, hi = draw(s_bucket)
        if lo > 30:
            # explicit atoms of this size cost more to generate than to check: seeded bulk molecule
            # (explicit, shrinkable atoms stay for 1..30)
            n = draw(st.integers(lo, hi))
            atoms = bonds = None
            bulk = {
                "n": n,
                "nb": draw(st.integers(0, 2 * n)),
                "seed": draw(s_seed),
                "charge_mode": draw(s_mode),
            }
        else:
            atoms = draw(s_atoms[(lo, hi)])
            bonds = draw(s_bonds[(lo, hi, min(lo, 8) if draw(s_bool) else 0)])
            bulk = None
        case = {
            "atoms": atoms,
            "bonds": bonds,
            "bulk": bulk,
            "header": draw(s_header),
            "header_first": draw(s_bool),
            "api": draw(s_api),
            "io": draw(s_io),
            "over": None,
        }
        case.update(draw(s_common))
        if draw(s_rare):
            case["over"] = draw(s_over)
        if case["io"] == "path" and case["header"] is not None:
            # a real file is written in the locale's encoding: keep it ASCII
            if not all(isinstance(v, str) and v.isascii() for k, v in case["header"].items() if k != "time"):
                case["io"] = "stringio"
        return case

    return gen()


def st_mol_large(tier):
    top = 1100 if tier == "quick" else 1500
    s_common = st.fixed_dictionaries(st_mol_common())

    @st.composite
    def gen(draw):
        kind = draw(st.sampled_from(["atoms", "bonds", "both", "below"]))
        edge = st.sampled_from([998, 999, 1000, 1001])
        if kind == "atoms":
            n = draw(st.one_of(edge, st.integers(1000, top)))
            nb = draw(st.integers(0, 999))
        elif kind == "bonds":
            n = draw(st.integers(60, 999))
            nb = draw(st.one_of(edge, st.integers(1000, top)))
        elif kind == "both":
            n = draw(st.one_of(edge, st.integers(1000, top)))
            nb = draw(st.one_of(edge, st.integers(1000, top)))
        else:
            n = draw(st.integers(900, 999))
            nb = draw(st.integers(900, 999))
        case = {
            "atoms": None,
            "bonds": None,
            "bulk": {"n": n, "nb": nb, "seed": draw(st.integers(0, 2**31 - 1)), "charge_mode": draw(st.integers(0, 2))},
            "header": None,
            "api": "method",
            "io": "stringio",
            "over": None,
        }
        case.update(draw(s_common))
        return case

    return gen()


def enum_limit_cases(tier):
    """The grid around the three-digit count limit, every version argument."""
    for n in (998, 999, 1000, 1001):
        for nb in (0, 998, 999, 1000, 1001):
            for version in (None, "V2000", "V3000"):
                yield {
                    "atoms": None,
                    "bonds": None,
                    "bulk": {"n": n, "nb": nb, "seed": n * 7 + nb, "charge_mode": (n + nb) % 3},
                    "header": None,
                    "api": "method",
                    "io": "stringio",
                    "over": None,
                    "has_charge": True,
                    "version": version,
                    "default": BT["ANY"] if nb % 2 == 0 else BT["SINGLE"],
                    "renumber": [True, 2, 5],
                }


# --------------------------------------------------------------------------
# (b) SDF
# --------------------------------------------------------------------------
def key_tuple(k):
    return [k.number, k.name, k.registry_internal, k.registry_external]


def check_metadata(o, metadata, want_items, what):
    """'survive unchanged' as a mapping: same keys (all four parts), same values; biotite's own
    Metadata.__eq__ ignores the order, so a changed order is labelled, not failed."""
    got = [(tuple(key_tuple(k)), v) for k, v in metadata.items()]
    want = [(tuple(k), v) for k, v in want_items]
    ok = o.check(
        len(got) == len(want) and dict(got) == dict(want),
        "sdf_metadata",
        lambda: f"{what}: got {[[list(k), v] for k, v in got]!r}, want {[[list(k), v] for k, v in want]!r}",
    )
    if ok and got != want:
        o.label("metadata_order_changed")
    return ok


def _name_only(meta):
    return len(meta) > 0 and all(k[0] is None and k[2] is None and k[3] is None for k, _ in meta)


def _sdf_header_line_is_delimiter(h):
    # '$$$$' at the start of any line is the record delimiter of the SD format itself
    return h is not None and f"{h['initials']:>2.2}{h['program']:>8.8}".startswith("$$$$")


def run_sdf(case):
    import biotite.structure.io.mol as molio
    from biotite.structure import BondType

    o = Outcome()
    if case.get("edge_ws_excluded"):
        o.exclude(F1)
    recs = case["records"]
    if any(_sdf_header_line_is_delimiter(r["header"]) for r in recs):
        # the format cannot carry it (stored cases only, the generator filters it)
        o.invalid = True
        return o
    sdf = molio.SDFile()
    parts = []
    for pos, r in enumerate(recs):
        atoms, bonds = bulk_molecule(r["mol"])
        parts.append((atoms, bonds))
        arr = mk_atom_array(atoms, bonds, True)
        key_meta = {
            molio.Metadata.Key(number=k[0], name=k[1], registry_internal=k[2], registry_external=k[3]): v
            for k, v in r["meta"]
        }
        fill_later = len(recs) >= 2 and (len(r["meta"]) + len(r["name"])) % 2 == 0
        # the documented forms of the metadata argument: Metadata, a Mapping with Metadata.Key or
        # (name-only keys) plain str keys, given to the constructor or assigned to the attribute
        form = (len(r["name"]) + r["mol"]["seed"]) % 4
        if _name_only(r["meta"]) and form in (1, 3):
            meta, meta_form = {k[1]: v for k, v in r["meta"]}, "metadata_given_as_str_mapping"
        elif form == 2:
            meta, meta_form = key_meta, "metadata_given_as_key_mapping"
        else:
            meta, meta_form = molio.Metadata(key_meta), "metadata_given_as_Metadata"
        if not fill_later:
            o.label(meta_form)
        if fill_later:
            # a default-constructed record that is filled through its attributes afterwards
            # (every record must own its metadata)
            o.label("record_filled_after_default_construction")
            record = molio.SDRecord() if r["header"] is None else molio.SDRecord(header=mk_header(r["header"], mol_name="to be replaced"))
            for key, value in key_meta.items():
                record.metadata[key] = value
        elif form == 3:
            o.label("metadata_assigned_to_attribute")
            record = molio.SDRecord() if r["header"] is None else molio.SDRecord(header=mk_header(r["header"], mol_name="to be replaced"))
            record.metadata = meta
        elif r["header"] is None:
            record = molio.SDRecord(metadata=meta)
        else:
            record = molio.SDRecord(header=mk_header(r["header"], mol_name="to be replaced"), metadata=meta)
        if r.get("api") == "convert":
            sdf[r["name"]] = record
            if pos == 0 and form % 2 == 0:
                # documented default: the first record of the file
                o.label("set_structure_default_record")
                molio.set_structure(sdf, arr, version=r["version"])
            else:
                molio.set_structure(sdf, arr, version=r["version"], record_name=r["name"])
        else:
            record.set_structure(arr, default_bond_type=BondType.ANY, version=r["version"])
            sdf[r["name"]] = record

    with warnings.catch_warnings():
        warnings.simplefilter("ignore")
        io_mode = case.get("io", "stringio")
        text, back = write_read_text(sdf, molio.SDFile, io_mode)
        names = [r["name"] for r in recs]
        o.label(f"records={len(recs)}", f"io={io_mode}")
        if case.get("edge_ws"):
            o.label("edge_blanks")
        if not o.check_eq(list(back.keys()), names, "record_names_and_order", "record names"):
            return o
        multi_line = registry = False
        for r, (atoms, bonds) in zip(recs, parts):
            if len(recs) == 1 and r["mol"]["seed"] % 2 == 0:
                o.label("SDFile.record")
                rec = back.record
            else:
                rec = back[r["name"]]
            want_hdr = dict(r["header"]) if r["header"] is not None else {
                "initials": "", "program": "", "time": None, "dimensions": "", "scaling_factors": "",
                "energy": "", "registry_number": "", "comments": "",
            }
            want_hdr["mol_name"] = r["name"]
            o.check_eq(header_fields(rec.header), want_hdr, "sdf_header_fields", f"header of record {r['name']!r}")
            check_metadata(o, rec.metadata, r["meta"], f"metadata of record {r['name']!r}")
            for k, v in r["meta"]:
                if "\n" in v:
                    multi_line = True
                if k[2] is not None or k[3] is not None:
                    registry = True
                o.label(
                    "key:" + "+".join(p for p, x in zip(("number", "name", "regint", "regext"), k) if x is not None)
                )
            charges = [a[4] for a in atoms]
            o.label(f"api={r.get('api', 'method')}")
            if any(charges):
                o.label("record_with_charges")
            if sum(1 for c in charges if c != 0) > 8:
                o.label("record_with_>8_charged_atoms")
            if any(charges) and r["meta"] and r["version"] != "V3000":
                o.label("M_CHG_lines_followed_by_metadata")
            if len(atoms) >= 1000 or len(bonds) >= 1000:
                o.label("record_with_>=1000_atoms_or_bonds")
            want_bonds = bond_alternatives(bonds, BT["ANY"])
            if r.get("api") == "convert":
                if len(recs) == 1 and r["mol"]["seed"] % 4 < 2:
                    # documented default: the sole record
                    o.label("get_structure_default_record")
                    got = molio.get_structure(back)
                else:
                    got = molio.get_structure(back, record_name=r["name"])
            else:
                got = rec.get_structure()
            check_molecule(o, got, atoms, want_bonds, charges, tag=f"[record {r['name']!r}] ")
        # a new file assembled from the (still unparsed) records of a parsed one through the
        # constructor argument, under new names and in reverse order
        fresh = molio.SDFile.read(io.StringIO(text))
        renamed = {f"renamed {i}": fresh[r["name"]] for i, r in reversed(list(enumerate(recs)))}
        merged = molio.SDFile(renamed)
        _, again = write_read_text(merged, molio.SDFile, "stringio")
        if o.check_eq(list(again.keys()), list(renamed.keys()), "record_names_and_order", "records given to the SDFile constructor under new names"):
            for i, r in enumerate(recs):
                rec = again[f"renamed {i}"]
                o.check_eq(rec.header.mol_name, f"renamed {i}", "sdf_header_fields", "mol_name of a renamed record")
                check_metadata(o, rec.metadata, r["meta"], f"metadata of renamed record {i}")
        # a parsed file is edited and written again: what is written is the metadata the records
        # hold after the edits (op-list; indices are reduced at interpretation time)
        edits = case.get("edits") or []
        if edits:
            run_sdf_edits(o, molio, text, recs, edits)
        if multi_line:
            o.label("multi_line_value")
        if registry:
            o.label("registry_key")
        if any(r["header"] is not None for r in recs):
            o.label("with_header")
        if any(r["version"] == "V3000" for r in recs):
            o.label("has_V3000_record")
        o.mark_nontrivial(len(recs) >= 2 or registry or multi_line)
    return o


def run_sdf_edits(o, molio, text, recs, edits):
    """Op-list on the metadata of the records of a file that was read from text:
    ["set", r, k, _, value] overwrites the value of the k-th existing key in place,
    ["del", r, k, _, _] removes the k-th existing key, ["add", r, _, key, value] stores a value under
    a (mostly new) key, ["swap", r, _, _, _] assigns a new Metadata object holding the same items,
    ["write", ...] writes the file and goes on with the file read back.  The model is the list of
    (key parts, value) pairs the record held when it was read; after the final write/read every
    record must hold the model."""
    edited = molio.SDFile.read(io.StringIO(text))
    names = [r["name"] for r in recs]
    model = {}

    def touch(name):
        rec = edited[name]
        if name not in model:
            model[name] = [[key_tuple(k), v] for k, v in rec.metadata.items()]
        return rec, model[name]

    def settle(what):
        nonlocal edited
        _, again = write_read_text(edited, molio.SDFile, "stringio")
        if not o.check_eq(list(again.keys()), names, "record_names_and_order", what + ": record names"):
            return False
        for name, want in model.items():
            check_metadata(o, again[name].metadata, want, f"{what}: metadata of record {name!r}")
        edited = again
        return True

    for op, ri, ki, key, value in edits:
        name = names[ri % len(names)]
        if op == "write":
            o.label("edit:write_between")
            if not settle("edited file written and read"):
                return
            continue
        rec, items = touch(name)
        if op == "set":
            if not items:
                continue
            pos = ki % len(items)
            real_key = list(rec.metadata.keys())[pos]
            if key_tuple(real_key) != items[pos][0]:
                # (order differs from the model: find it by its parts)
                real_key = next(k for k in rec.metadata.keys() if key_tuple(k) == items[pos][0])
            rec.metadata[real_key] = value
            items[pos][1] = value
            o.label("edit:value_of_existing_key_overwritten")
        elif op == "del":
            if not items:
                continue
            pos = ki % len(items)
            real_key = next(k for k in rec.metadata.keys() if key_tuple(k) == items[pos][0])
            del rec.metadata[real_key]
            del items[pos]
            o.label("edit:key_deleted")
        elif op == "add":
            new_key = molio.Metadata.Key(number=key[0], name=key[1], registry_internal=key[2], registry_external=key[3])
            rec.metadata[new_key] = value
            hit = [it for it in items if it[0] == list(key)]
            if hit:
                hit[0][1] = value
                o.label("edit:value_of_existing_key_overwritten")
            else:
                items.append([list(key), value])
                o.label("edit:key_added")
        elif op == "swap":
            rec.metadata = molio.Metadata(dict(rec.metadata.items()))
            o.label("edit:new_Metadata_assigned")
    settle("edited file written and read")


KEY_NAME_ALPHABET = "abcXYZ019_." + "é"


def st_key():
    name = st.one_of(
        st.sampled_from(["a", "0", "PUBCHEM_COMPOUND_CID", "x.y_z", "A1"]),
        st.builds(lambda h, t: h + t, st.sampled_from("aZ09"), st.text(KEY_NAME_ALPHABET, max_size=12)),
    )
    number = st.one_of(st.integers(0, 12), st.integers(0, 10**12))
    regint = st.one_of(st.integers(0, 12), st.integers(0, 10**12))
    regext = st.one_of(st.just(""), st.text("abcXYZ019_.-", max_size=10), st.sampled_from(["CAS-50-00-0", "-", ".", "_"]))

    @st.composite
    def gen(draw):
        kind = draw(st.sampled_from(["name", "name", "number", "both", "both"]))
        k = [None, None, None, None]
        if kind in ("number", "both"):
            k[0] = draw(number)
        if kind in ("name", "both"):
            k[1] = draw(name)
        if draw(st_rarely(3)):
            k[2] = draw(regint)
        if draw(st_rarely(3)):
            k[3] = draw(regext)
        return k

    return gen()


def _value_line_ok(s):
    # a line starting with '>' is a data header and '$$$$' the record delimiter in the
    # SD format itself; an empty line terminates the data item
    return len(s) > 0 and not s.startswith(">") and not s.startswith("$$$$")


def st_value():
    line = st.one_of(
        st_text(12, min_size=1),
        st.sampled_from(["M  END", "0", "a  b", "x" * 200, "<a>", "a > b", "$$$", "1.5 2.5", "C1=CC=CC=C1"]),
    ).filter(_value_line_ok)
    return st.lists(line, min_size=1, max_size=4).map("\n".join)


def st_record_name():
    return st.one_of(
        st_text(12),
        st_text(12),
        st.builds(lambda a, k: (a * 80)[:k], st_text(8, min_size=1), st.integers(70, 80)).map(str.strip),
        st.sampled_from(["", "M  END", "ALA", "x" * 80, "> <a>", "$$$", "0"]),
    ).filter(lambda s: not s.startswith("$$$$"))


def st_sdf(tier):
    max_atoms = 6 if tier == "quick" else 20
    f1_open = findings.is_open(F1)

    # (strategy objects built once, see st_mol_small)
    s_meta = st.lists(st.tuples(st_key(), st_value()).map(list), max_size=4, unique_by=lambda kv: tuple(kv[0]))
    s_size = st.sampled_from(["tiny"] * 6 + ["charged", "charged", "large?"])
    s_rare8, s_rare10 = st_rarely(8), st_rarely(10)
    s_tiny = st.tuples(st.integers(1, max_atoms), st.integers(0, max_atoms), st.sampled_from([0, 1, 1, 2]))
    s_charged = st.tuples(st.integers(9, 20), st.integers(0, 12), st.just(2))
    s_large = st.tuples(st.sampled_from([999, 1000, 1003]), st.sampled_from([0, 999, 1000]), st.just(1))
    s_version = st.sampled_from([None, "V2000", "V3000"])
    s_name = st_record_name()
    s_header = st.one_of(st.none(), st_header(with_name=False))
    s_seed = st.integers(0, 2**31 - 1)
    s_api = st.sampled_from(["method", "method", "convert"])
    s_io = st.sampled_from(["stringio"] * 2 + ["path"])

    @st.composite
    def record(draw):
        meta = draw(s_meta)
        # mostly tiny molecules; sometimes enough charged atoms for two 'M  CHG' lines in front of the
        # metadata; thorough: now and then a record beyond the V2000 count limit
        size = draw(s_size)
        if size == "large?":
            size = "large" if tier != "quick" and draw(s_rare8) else "tiny"
        n, nb, mode = draw({"tiny": s_tiny, "charged": s_charged, "large": s_large}[size])
        version = draw(s_version)
        if size == "large" and version == "V2000":
            version = None
        return {
            "name": draw(s_name),
            "header": draw(s_header),
            "meta": meta,
            "mol": {"n": n, "nb": nb, "seed": draw(s_seed), "charge_mode": mode},
            "version": version,
            "api": draw(s_api),
        }

    s_records = st.lists(record(), min_size=1, max_size=4, unique_by=lambda r: r["name"])
    s_spot, s_pad = st.integers(0, 5), st.sampled_from([" ", "  ", "\t"])
    # edits of the metadata of a file that was read (interpreted by run_sdf_edits)
    s_edit = st.tuples(
        st.sampled_from(["set", "set", "set", "add", "del", "swap", "write"]),
        st.integers(0, 3),
        st.integers(0, 3),
        st_key(),
        st_value(),
    ).map(list)
    s_edits = st.one_of(st.just([]), st.lists(s_edit, min_size=1, max_size=4))

    @st.composite
    def gen(draw):
        recs = draw(s_records)
        # (a real file only for all-ASCII cases, see below: about 1 in 10 of the drawn "path" cases survives)
        case = {"records": recs, "io": draw(s_io)}
        if draw(s_rare10):
            # blanks at the edges of free-text lines (record name, comments, metadata value lines)
            if f1_open:
                case["edge_ws_excluded"] = True
            else:
                case["edge_ws"] = True
                spot = draw(s_spot)
                r = recs[draw(st.integers(0, len(recs) - 1))]
                pad = draw(s_pad)
                if spot in (0, 1) and r["meta"]:
                    kv = r["meta"][0]
                    kv[1] = pad + kv[1] if spot == 0 else kv[1] + pad
                elif spot in (2, 3) and r["header"] is not None and r["header"]["comments"]:
                    c = r["header"]["comments"]
                    r["header"]["comments"] = pad + c if spot == 2 else c + pad
                elif len(r["name"]) < 78 and r["name"]:
                    new = pad + r["name"] if spot % 2 == 0 else r["name"] + pad
                    if new not in [q["name"] for q in recs]:
                        r["name"] = new
        case["edits"] = draw(s_edits)
        if case["io"] == "path" and not _case_is_ascii(case):
            case["io"] = "stringio"
        return case

    return gen()


def _case_is_ascii(obj):
    if isinstance(obj, str):
        return obj.isascii()
    if isinstance(obj, dict):
        return all(_case_is_ascii(v) for v in obj.values())
    if isinstance(obj, (list, tuple)):
        return all(_case_is_ascii(v) for v in obj)
    return True


# --------------------------------------------------------------------------
# (c) RDKit bridge
# --------------------------------------------------------------------------
def rdkit_parts(case):
    """atoms with ring atoms forced to neutral carbon; bonds {(i, j): type}"""
    atoms = [list(a) for a in case["atoms"]]
    n = len(atoms)
    bonds = reduce_bonds(case["bonds"], n)
    ring_edges = {}
    for r, pattern in enumerate(case["rings"]):
        base = 6 * r
        if base + 6 > n:
            break
        for k in range(6):
            i, j = base + k, base + (k + 1) % 6
            ring_edges[(min(i, j), max(i, j))] = pattern[k]
            atoms[base + k][0] = "C"
            atoms[base + k][1] = 0
    bonds.update(ring_edges)
    return atoms, bonds, set(ring_edges)


def rdkit_coords(seed, mode, m, n):
    """Seeded float32 coordinates: 'narrow' = -100..100, 'wide' = random bit patterns over the whole
    finite float32 range (incl. subnormals and both zeros)."""
    rng = np.random.default_rng(seed)
    if mode == "wide":
        bits = rng.integers(0, 2**32, size=(m, n, 3), dtype=np.uint64).astype(np.uint32)
        coord = bits.view(np.float32).copy()
        coord[~np.isfinite(coord)] = np.float32(-0.0)
        return coord
    return rng.uniform(-100, 100, size=(m, n, 3)).astype(np.float32)


def mk_rdkit_input(case):
    import biotite.structure as struc

    atoms, bonds, ring_edges = rdkit_parts(case)
    n = len(atoms)
    m = case["models"]
    if case.get("coords") is not None:
        coord = np.array(case["coords"], dtype=np.float32)[: m * n * 3].reshape(m, n, 3)
    else:
        coord = rdkit_coords(case["coord_seed"], case["coord_mode"], m, n)
    for k, flat in enumerate(case.get("planar") or []):
        # a model without z-extent (a molecule drawn in the x-y plane)
        if flat and k < m:
            coord[k, :, 2] = 0.0
    if case["stack"]:
        arr = struc.AtomArrayStack(m, n)
        arr.coord = coord
    else:
        arr = struc.AtomArray(n)
        arr.coord = coord[0]
    arr.element = np.array([a[0] for a in atoms], dtype="U2")
    if case["has_charge"]:
        arr.set_annotation("charge", np.array([a[1] for a in atoms], dtype=int))
    arr.atom_name = np.array([a[2] for a in atoms], dtype="U6")
    arr.res_name = np.array([a[3] for a in atoms], dtype="U5")
    arr.chain_id = np.array([a[4] for a in atoms], dtype="U4")
    arr.res_id = np.array([a[5] for a in atoms], dtype=int)
    arr.ins_code = np.array([a[6] for a in atoms], dtype="U1")
    arr.hetero = np.array([a[7] for a in atoms], dtype=bool)
    if case["extras"]:
        arr.set_annotation("b_factor", np.array([a[8] for a in atoms], dtype=float))
        arr.set_annotation("occupancy", np.array([a[9] for a in atoms], dtype=float))
        arr.set_annotation("label_alt_id", np.array([a[10] for a in atoms], dtype="U1"))
    barr = np.array([[i, j, t] for (i, j), t in bonds.items()], dtype=np.uint32).reshape(-1, 3)
    arr.bonds = struc.BondList(n, barr)
    return arr, atoms, bonds, ring_edges, coord


def run_rdkit(case):
    import biotite.interface.rdkit as brd
    import biotite.structure as struc
    from rdkit import Chem

    o = Outcome()
    arr, atoms, bonds, ring_edges, coord = mk_rdkit_input(case)
    n = len(atoms)
    m = case["models"] if case["stack"] else 1
    coord = coord[:m]
    dative, kekulize, explicit_h = case["use_dative"], case["kekulize"], case["explicit_h"]
    # biotite's convention (and to_mol's test) for a hydrogen atom is the element "H"; whether another
    # spelling ("h") counts as hydrogen is not stated anywhere
    has_h = any(a[0] == "H" for a in atoms)
    odd_h = not has_h and any(a[0].upper() == "H" for a in atoms)
    types_used = set(bonds.values())
    charges = [a[1] if case["has_charge"] else 0 for a in atoms]

    o.label("stack" if case["stack"] else "array", f"models={m}", f"dative={dative}", f"kekulize={kekulize}")
    if len(types_used) >= 3:
        o.label(">=3_bond_types")
    if any(abs(c) > 3 for c in charges):
        o.label("|charge|>3")
    if BT["COORDINATION"] in types_used:
        o.label("has_coordination_bond")
    if ring_edges:
        o.label("has_aromatic_ring")
    if has_h:
        o.label("has_hydrogen")
    if not case["has_charge"]:
        o.label("no_charge_annotation")
    if case["extras"]:
        o.label("with_b_factor_occupancy_altloc")
    o.label(f"explicit_h={explicit_h}")
    flat = [bool(np.all(coord[k, :, 2] == 0)) for k in range(m)]
    if m >= 2 and any(flat) and not all(flat):
        o.label("some_but_not_all_models_planar")
    elif any(flat):
        o.label("all_models_planar")
    o.mark_nontrivial(len(types_used) >= 3 or any(abs(c) > 3 for c in charges) or m >= 2)

    with warnings.catch_warnings():
        warnings.simplefilter("ignore")
        if explicit_h is False and has_h:
            o.label("explicit_hydrogen_false_with_H")
            o.expect_raises(
                struc.BadStructureError,
                lambda: brd.to_mol(arr, kekulize=kekulize, use_dative_bonds=dative, explicit_hydrogen=False),
                "explicit_hydrogen_false_with_hydrogens_raises",
                "to_mol",
            )
            return o
        if explicit_h is False and odd_h:
            # hydrogen in another spelling: refused like "H" (documented type) or converted like any atom
            o.label("explicit_hydrogen_false_with_h_in_other_spelling")
            try:
                mol = brd.to_mol(arr, kekulize=kekulize, use_dative_bonds=dative, explicit_hydrogen=False)
            except struc.BadStructureError:
                o.label("other_spelling_refused_as_hydrogen")
                return o
        else:
            mol = brd.to_mol(arr, kekulize=kekulize, use_dative_bonds=dative, explicit_hydrogen=explicit_h)

        # --- the RDKit molecule itself (documented: same atom order, one conformer per model, IDs from 0)
        if not o.check_eq(mol.GetNumAtoms(), n, "rdkit_atom_count", "Mol.GetNumAtoms()"):
            return o
        o.check_eq([a.GetSymbol().upper() for a in mol.GetAtoms()], [a[0].upper() for a in atoms], "rdkit_mol_atom_order", "symbols")
        o.check_eq([a.GetFormalCharge() for a in mol.GetAtoms()], charges, "rdkit_mol_atom_order", "formal charges")
        confs = list(mol.GetConformers())
        if not o.check_eq(len(confs), m, "models_become_conformers", "number of conformers"):
            return o
        o.check_eq([c.GetId() for c in confs], list(range(m)), "conformer_ids_count_from_zero", "conformer IDs")
        for k, c in enumerate(confs):
            o.check_array_eq(np.asarray(c.GetPositions()), coord[k].astype(np.float64), "models_become_conformers", f"positions of conformer {k}")
        if dative:
            for b in mol.GetBonds():
                key = (min(b.GetBeginAtomIdx(), b.GetEndAtomIdx()), max(b.GetBeginAtomIdx(), b.GetEndAtomIdx()))
                if bonds.get(key) == BT["COORDINATION"]:
                    o.check(
                        b.GetBondType() == Chem.BondType.DATIVE,
                        "coordination_becomes_dative_when_requested",
                        lambda: f"bond {key} is {b.GetBondType()}",
                    )

        # --- and back
        back = brd.from_mol(mol, add_hydrogen=False)
        if not o.check(isinstance(back, struc.AtomArrayStack), "conformers_return_as_models", f"from_mol returned {type(back).__name__}"):
            return o
        if not o.check_eq((back.stack_depth(), back.array_length()), (m, n), "conformers_return_as_models", "(models, atoms)"):
            return o
        o.check_array_eq(back.coord, coord, "rdkit_coordinates_exact", "coordinates of all models")
        o.check(back.coord.dtype == np.float32, "rdkit_coordinates_exact", f"dtype {back.coord.dtype}")
        o.check_eq(back.element.tolist(), [a[0].upper() for a in atoms], "rdkit_elements_same_order", "elements")
        o.check_eq([int(c) for c in back.charge], charges, "rdkit_charges", "charges")
        for col, name in ((2, "atom_name"), (3, "res_name"), (4, "chain_id"), (5, "res_id"), (6, "ins_code"), (7, "hetero")):
            o.check_eq(back.get_annotation(name).tolist(), [a[col] for a in atoms], "rdkit_residue_annotations", name)
        if case["extras"]:
            # (nothing documents the float width these travel in: single precision is enough)
            for col, name in ((8, "b_factor"), (9, "occupancy")):
                want_f = np.array([float(a[col]) for a in atoms])
                got_f = np.asarray(back.get_annotation(name), dtype=float)
                close = np.abs(got_f - want_f) <= 2.0**-22 * np.abs(want_f) + 1e-30
                o.check(bool(close.all()), "rdkit_residue_annotations", lambda: f"{name}: got {got_f.tolist()!r}, want {want_f.tolist()!r}")
                if not np.array_equal(got_f, want_f):
                    o.label(f"{name}_within_float32_only")
            o.check_eq(back.label_alt_id.tolist(), [a[10] for a in atoms], "rdkit_residue_annotations", "label_alt_id")

        got = {}
        for i, j, t in back.bonds.as_array():
            got[(int(min(i, j)), int(max(i, j)))] = int(t)
        if o.check(got.keys() == bonds.keys(), "rdkit_bond_graph", lambda: f"bonds {sorted(got)} want {sorted(bonds)}"):
            for key, t in sorted(bonds.items()):
                g = got[key]
                if t in AROMATIC_TYPES:
                    if kekulize and t == BT["AROMATIC"]:
                        # documented is AROMATIC_{ORDER} -> {ORDER}; what an order-less AROMATIC bond becomes
                        # (ANY today, an order chosen by a real kekulisation) is not: it must only lose aromaticity
                        o.check(g not in AROMATIC_TYPES and g in BT_NAME, "kekulize_removes_aromaticity", lambda: f"bond {key} AROMATIC came back as {BT_NAME.get(g, g)}")
                        o.label(f"kekulized_AROMATIC_became_{BT_NAME.get(g, g)}")
                    elif kekulize:
                        o.check_eq(g, KEKULIZED[t], "kekulize_removes_aromaticity", f"bond {key} {BT_NAME[t]}")
                    else:
                        o.check(g in AROMATIC_TYPES, "aromatic_bonds_stay_aromatic", lambda: f"bond {key} {BT_NAME[t]} came back as {BT_NAME.get(g, g)}")
                elif t == BT["COORDINATION"]:
                    want = BT["COORDINATION"] if dative else BT["SINGLE"]
                    o.check_eq(g, want, "coordination_bond_round_trip" if dative else "coordination_is_single_without_dative", f"bond {key}")
                else:
                    o.check_eq(g, t, "rdkit_bond_types_exact", f"bond {key} {BT_NAME[t]}")

        # --- single conformers by ID (documented: IDs start from 0)
        for k in range(m):
            try:
                one = brd.from_mol(mol, conformer_id=k, add_hydrogen=False)
            except ValueError as e:
                o.fail("conformer_ids_count_from_zero", f"from_mol(mol, conformer_id={k}) of {m} models: ValueError: {e}")
                break
            if o.check(isinstance(one, struc.AtomArray), "conformers_return_as_models", f"conformer_id={k}: {type(one).__name__}"):
                o.check_array_eq(one.coord, coord[k], "conformers_return_as_models", f"from_mol(mol, conformer_id={k}).coord")

        # --- documented: "2D" / "3D" select the conformers of that kind, the default returns all of them
        # (which model is flagged as which kind is not documented: only the partition is checked;
        # "no conformer of that kind" is documented to give one model of NaN)
        if case["stack"]:
            picked = []
            for kind in ("2D", "3D"):
                part = brd.from_mol(mol, conformer_id=kind, add_hydrogen=False)
                if not o.check(isinstance(part, struc.AtomArrayStack), "conformers_return_as_models", f"conformer_id={kind!r}: {type(part).__name__}"):
                    break
                if part.stack_depth() == 1 and np.isnan(part.coord).all():
                    o.label(f"no_{kind}_conformer")
                    continue
                o.label(f"has_{kind}_conformer")
                picked.extend(part.coord)
            else:
                rows = sorted(np.asarray(c, dtype=np.float32).tobytes() for c in picked)
                o.check(
                    rows == sorted(coord[k].tobytes() for k in range(m)),
                    "conformers_return_as_models",
                    lambda: f"models selected by conformer_id='2D' and '3D' together: {len(picked)} of {m} models, or other coordinates",
                )
    return o


NAME_ALPHABET = "ABCXYZabc0189'*+-_"


def st_rdkit(tier):
    max_atoms = 24 if tier == "quick" else 48
    generic_types = [BT[k] for k in ("ANY", "SINGLE", "DOUBLE", "TRIPLE", "QUADRUPLE", "COORDINATION")]

    def s_str(width):
        return st.one_of(st.just(""), st.text(NAME_ALPHABET, max_size=width), st.text(NAME_ALPHABET, min_size=width, max_size=width))

    atom = st.tuples(
        # hydrogen only in biotite's spelling "H": whether "h" counts as a hydrogen atom is not stated
        st_element().map(lambda e: "H" if e.upper() == "H" else e),
        st_charge(),
        s_str(6),
        s_str(5),
        s_str(4),
        st.one_of(st.integers(-10, 2000), st.integers(-(2**31), 2**31 - 1)),
        s_str(1),
        st.booleans(),
        st.floats(-1000, 1000, allow_nan=False),
        st.floats(0, 1),
        s_str(1),
    ).map(list)
    ring = st.one_of(
        st.just([6, 5, 6, 5, 6, 5]),
        st.just([5, 6, 5, 6, 5, 6]),
        st.just([9] * 6),
        st.lists(st.sampled_from(sorted(AROMATIC_TYPES)), min_size=6, max_size=6),
    )

    # (strategy objects built once, see st_mol_small)
    buckets = [(1, 3), (4, 8), (4, 8), (7, 14), (12, max_atoms)]
    s_bucket = st.sampled_from(buckets)
    s_atoms = {b: st.lists(atom, min_size=b[0], max_size=b[1]) for b in set(buckets)}
    bond = st.tuples(st.integers(0, max_atoms - 1), st.integers(0, max_atoms - 1), st.sampled_from(generic_types)).map(list)
    s_bonds = {(lo, size, mb): st.lists(bond, min_size=mb, max_size=2 * size) for lo, size in set(buckets) for mb in (0, min(lo, 6))}
    s_rings = [st.lists(ring, max_size=k) for k in range(max_atoms // 6 + 1)]
    s_bool = st.booleans()
    s_models = st.sampled_from([1, 2, 2, 3, 4])
    s_planar = {m: st.lists(st_rarely(5), min_size=m, max_size=m) for m in (1, 2, 3, 4)}
    s_third = st.sampled_from([True, False, False])
    s_seed = st.integers(0, 2**31 - 1)
    s_rare4 = st_rarely(4)
    s_quarter = st.sampled_from([False, False, False, True])
    s_explicit = st.sampled_from([None, None, None, True, False])

    @st.composite
    def gen(draw):
        lo, size = draw(s_bucket)
        atoms = draw(s_atoms[(lo, size)])
        n = len(atoms)
        stack = draw(s_bool)
        m = draw(s_models) if stack else 1
        # coordinates from one seed (m * n * 3 single draws cost more than the whole conversion);
        # models without z-extent are an explicit class
        planar = draw(s_planar[m]) if draw(s_third) else []
        return {
            "atoms": atoms,
            "models": m,
            "stack": stack,
            "coords": None,
            "coord_seed": draw(s_seed),
            "coord_mode": "wide" if draw(s_rare4) else "narrow",
            "planar": planar,
            # (bond indices are reduced modulo the number of atoms)
            "bonds": draw(s_bonds[(lo, size, min(lo, 6) if draw(s_bool) else 0)]),
            "rings": draw(s_rings[n // 6]),
            "use_dative": draw(s_bool),
            "kekulize": draw(s_quarter),
            "has_charge": not draw(s_quarter),
            "explicit_h": draw(s_explicit),
            "extras": draw(s_bool),
        }

    return gen()


# --------------------------------------------------------------------------
SUBS = [
    Sub(
        "mol_roundtrip",
        st_mol_small,
        run_mol,
        quick=2400,
        thorough=100000,
        rule=">= 3 bond types or a charge beyond +-3",
        clauses="MOL V2000/V3000: elements, coordinates, charges, typed bonds, header; V2000 fixed column positions, "
        "charges recoverable from the text; values beyond the columns raise (any exception) or select V3000; "
        "atom block charge codes read by the spec table; V3000 arbitrary atom indices",
    ),
    Sub(
        "mol_large",
        st_mol_large,
        run_mol,
        quick=48,
        thorough=1600,
        rule=">= 1000 atoms or bonds (or within 100 of the limit with >= 3 bond types)",
        clauses="count limit of V2000: automatic V3000 selection, an exception for requested V2000, round trip of large tables",
    ),
    Sub(
        "sdf_roundtrip",
        st_sdf,
        run_sdf,
        quick=1200,
        thorough=50000,
        rule=">= 2 records or a key with a registry part or a multi-line value",
        clauses="SDF: record names and order, header fields, metadata keys/values (as a mapping), molecule of every "
        "record; every documented form of the metadata argument; default record of get/set_structure; "
        "op-list of metadata edits (overwrite / add / delete / new Metadata) on a parsed file, written and read again",
    ),
    Sub(
        "rdkit_bridge",
        st_rdkit,
        run_rdkit,
        quick=2000,
        thorough=80000,
        rule=">= 3 bond types, a charge beyond +-3 or a stack of >= 2 models",
        clauses="to_mol/from_mol: atom order, elements, charges, residue annotations, exact coordinates, "
        "models <-> conformers (by ID, all, '2D' + '3D' partition), bond types (dative, aromatic, kekulize)",
    ),
]

ENUMS = [
    Enum(
        "v2000_count_limit_grid",
        enum_limit_cases,
        run_mol,
        rule="every case has >= 998 atoms",
        clauses="atoms in {998..1001} x bonds in {0, 998..1001} x version in {None, V2000, V3000}: "
        "selection / refusal / round trip",
        exhaustive=True,
    )
]


def _is_edge_blank_case(sub, case, clause, message):
    return sub == "sdf_roundtrip" and bool(case.get("edge_ws")) and clause in (
        "record_names_and_order",
        "sdf_header_fields",
        "sdf_metadata",
    )


FINDINGS = {"sdf_free_text_edge_blanks": _is_edge_blank_case}
