"""
C14  Cell-list neighbour search is exact.

Oracle: brute force in float64 on the float32 values biotite stores
(coordinates, queries, radii and box are rounded to float32 first, then cast to
float64).  Periodic: all lattice images with shifts -2..2 of the reduced
displacement (125 images), so the minimum image and every image inside the
radius are enumerated explicitly.  Every ``d <= r`` decision is three-valued
with ``tol = 64 * eps32 * scale`` (DESIGN section 3): definitely-in atoms must
be returned, definitely-out atoms must not, atoms inside the band may or may
not (counted in ``Outcome.ambiguous``).  ``scale`` is taken per query: largest
magnitude among the atom coordinates, that query, its radius and (periodic) the
extent of the replicated boxes, floored by the nominal extent of the case.

What the implementation can support when periodic (27 stored images, query
moved into the box): every image closer than the smallest box height is among
the stored ones, so for ``r < 0.9 * h_min`` set *and* multiplicity are decided;
for larger radii only the set is decided and a definitely-in atom is demanded
only if its minimum image has fractional components |f| < 0.9 (always true for
orthorhombic boxes), otherwise it is counted as ambiguous.

Resource bound: get_atoms allocates ``m * (2*ceil(r/cell)+1)**3 * max_cell_len``
int32 elements, so the effective radius is capped so that this stays below
MAX_ELEMS; the int32 overflow of that product is open finding C14-F1.

Outcomes that are accepted although the unchanged tree does not show them (nothing in the
statement or the docstrings rules them out; the label tells which one occurred): a refusal of an
all-False selection with any exception; ValueError for a periodic radius >= 0.9 x the smallest box
height (only 27 images can be searched); ValueError / OverflowError for queries with +-inf
components or so far away that the cell index does not fit a C int (NaN rows are ordinary input:
biotite's lDDT code relies on them).  After such a refusal an ordinary query must still be answered.
Kept because a docstring fixes them: dtype int32 of the index form ("dtype=int32"), no -1 in the
result for a single position (class example: ``atom_array[cell_list.get_atoms(pos, radius=7.0)]``).
"""

import itertools
import math
import os
import warnings

import numpy as np
from hypothesis import strategies as st

from vlib import Outcome, Sub, findings

PROPERTY = "C14"
RULE = (
    "1..60 float32 points (uniform, clustered, collinear, duplicated, on multiples of the cell size; "
    "extent 1e-3..1e3, optional offset, sometimes integral), cell size extent/50..10*extent, optional selection, "
    "float32/float64/int64 ndarray (C order, row/column strided, Fortran order) or AtomArray input, optional "
    "orthorhombic/triclinic box (argument or attribute; lower triangular, axes permuted, one axis flipped = "
    "left-handed, rotated about an axis); query batches inside, on "
    "the border of, outside and far outside the bounding box with scalar or per-query radii "
    "(0, tiny, around the k-th neighbour distance, multiples of the cell size, > extent). "
    "Non-trivial = >= 5 selected atoms in >= 2 cells and a query whose result is neither empty nor everything"
)

EPS32 = float(np.finfo(np.float32).eps)
TOLF_DEFAULT = 64.0  # DESIGN section 3
# calibration/debug knob only; a value other than the default is written into the labels of every case
TOLF = float(os.environ.get("VERIF_C14_TOLF", TOLF_DEFAULT))
MAX_ELEMS = 1_000_000  # int32 elements of the worst-case index array of one call
MAX_ELEMS_SINGLE = 10_000_000  # ... when there is one query only (cell radius 53 > the 50 cells of the finest grid)
INT_RANGE = 2.0**30  # |query - origin| / cell_size beyond this: the cell index does not fit a C int
MAX_CELLS = 400_000  # cells of the grid
INT32_MAX = 2**31 - 1

F1 = "C14-F1"  # int32 overflow of the worst-case length
F2 = "C14-F2"  # non-contiguous selection rejected

SHIFTS27 = np.array(list(itertools.product((-1, 0, 1), repeat=3)), dtype=np.float64)
SHIFTS125 = np.array(list(itertools.product(range(-2, 3), repeat=3)), dtype=np.float64)


# --------------------------------------------------------------------------
# float helpers / reference geometry (float64, independent of biotite)
# --------------------------------------------------------------------------
def _r32(x):
    """Round a python float to the nearest float32 (returned as python float)."""
    with np.errstate(over="ignore", invalid="ignore"):
        return float(np.float32(x))


def _a32(x, shape=None):
    with np.errstate(over="ignore", invalid="ignore"):
        a = np.array(x, dtype=np.float64).astype(np.float32)
    if shape is not None:
        a = a.reshape(shape)
    return a


def box_from_cell(la, lb, lc, alpha, beta, gamma):
    """Lower-triangular box from lengths and angles (degrees); None if degenerate."""
    ca, cb, cg = (math.cos(math.radians(x)) for x in (alpha, beta, gamma))
    sg = math.sin(math.radians(gamma))
    if sg < 1e-6:
        return None
    cy = (ca - cb * cg) / sg
    cz2 = 1.0 - cb * cb - cy * cy
    if cz2 <= 0:
        return None
    # exact zeros for right angles (cos(90 deg) is 6e-17 in floating point)
    ca, cb, cg = (0.0 if abs(c) < 1e-15 else c for c in (ca, cb, cg))
    cy = (ca - cb * cg) / sg
    return [
        [la, 0.0, 0.0],
        [lb * cg, lb * sg, 0.0],
        [lc * cb, lc * cy, lc * math.sqrt(1.0 - cb * cb - cy * cy)],
    ]


def box_heights(B):
    """Distances between opposite faces of the parallelepiped."""
    B = np.asarray(B, dtype=np.float64)
    vol = abs(np.linalg.det(B))
    a, b, c = B
    areas = [np.linalg.norm(np.cross(b, c)), np.linalg.norm(np.cross(a, c)), np.linalg.norm(np.cross(a, b))]
    return np.array([vol / ar if ar > 0 else 0.0 for ar in areas])


def ref_open(A, Q):
    """(m, n) Euclidean and Chebyshev distances."""
    with np.errstate(invalid="ignore", over="ignore"):
        diff = A[None, :, :] - Q[:, None, :]
        return np.sqrt((diff * diff).sum(-1)), np.abs(diff).max(-1)


def ref_periodic(A, Q, B):
    """(m, n, 125) distances of all images with reduced displacement + shift,
    and their fractional components (m, n, 125, 3)."""
    inv = np.linalg.inv(B)
    with np.errstate(invalid="ignore", over="ignore"):
        f = (A[None, :, :] - Q[:, None, :]) @ inv
        f = f - np.round(f)
        fi = f[:, :, None, :] + SHIFTS125[None, None, :, :]
        v = fi @ B
        d = np.sqrt((v * v).sum(-1))
    return d, fi


def ref_stored_coords(A, B):
    """float64 version of what the cell list stores when periodic (used for the
    resource plan only, never for the oracle)."""
    inv = np.linalg.inv(B)
    with np.errstate(invalid="ignore"):
        f = A @ inv
        f = f - np.floor(f)
        base = f @ B
    return (base[None, :, :] + (SHIFTS27 @ B)[:, None, :]).reshape(-1, 3)


# --------------------------------------------------------------------------
# plain-data case -> arrays
# --------------------------------------------------------------------------
def case_arrays(case):
    A32 = _a32(case["pts"], (-1, 3))
    n = len(A32)
    sel = np.ones(n, dtype=bool) if case.get("sel") is None else np.array(case["sel"], dtype=bool)
    B32 = None
    if case.get("box") is not None:
        B32 = _a32(case["box"], (3, 3))
    Q32 = _a32(case["queries"], (-1, 3)) if case.get("queries") is not None else np.zeros((0, 3), np.float32)
    return A32, sel, B32, Q32


def with_layout(a, how):
    """The same values in another memory layout: "row" = every second row of a larger array,
    "col" = every second column, "F" = Fortran order (1-D arrays: strided for every kind).
    The skipped elements hold a sentinel, so that reading with the wrong strides shows."""
    if how is None:
        return a
    a = np.asarray(a)
    if a.ndim == 1 or how == "row":
        big = np.full((2 * a.shape[0],) + a.shape[1:], 77, dtype=a.dtype)
        big[::2] = a
        return big[::2]
    if how == "col":
        big = np.full((a.shape[0], 2 * a.shape[1]), 77, dtype=a.dtype)
        big[:, ::2] = a
        return big[:, ::2]
    return np.asfortranarray(a)


def plan(A64, sel, B64, cs, periodic):
    """Approximate picture of the grid the implementation builds (float64):
    dims, number of cells, max occupancy (upper bound used for the resource
    cap), occupied cells of selected atoms."""
    if periodic:
        S = ref_stored_coords(A64, B64)
        sel_s = np.tile(sel, 27)
    else:
        S = A64
        sel_s = sel
    fin = np.isfinite(S).all(axis=1)
    if not fin.any():
        return None
    lo = S[fin].min(axis=0)
    hi = S[fin].max(axis=0)
    dims = np.floor((hi - lo) / cs).astype(np.int64) + 1
    use = sel_s & fin
    idx = np.floor((S[use] - lo) / cs).astype(np.int64)
    if len(idx):
        _, counts = np.unique(idx, axis=0, return_counts=True)
        occ = int(counts.max())
        ncell = len(counts)
    else:
        occ, ncell = 0, 0
    ntot = int(use.sum())
    return {
        "dims": dims,
        "cells": int(np.prod(dims.astype(float))) if np.prod(dims.astype(float)) < 1e15 else 10**15,
        "occ": occ,
        "occ_bound": max(1, min(ntot, 8 * occ)),
        "occupied": ncell,
        "lo": lo,
        "hi": hi,
        "ntot": ntot,
    }


def max_cell_radius(m, occ_bound):
    """largest c with m * (2c+1)^3 * occ_bound <= MAX_ELEMS (at least 1); a single query may use
    MAX_ELEMS_SINGLE so that "cell radius larger than the finest grid in all dimensions" is reached."""
    elems = MAX_ELEMS_SINGLE if m <= 1 else MAX_ELEMS
    side = (elems / (max(m, 1) * occ_bound)) ** (1.0 / 3.0)
    return max(1, int((side - 1) // 2))


# --------------------------------------------------------------------------
# building the CellList from the case
# --------------------------------------------------------------------------
def build(case, o):
    """Returns a context dict, or None if the case ended at construction."""
    import biotite.structure as struc
    from biotite.structure import CellList

    A32, sel, B32, Q32 = case_arrays(case)
    n = len(A32)
    periodic = bool(case.get("periodic"))
    cs = _r32(case["cell_size"])  # the constructor takes a C float
    A64 = A32.astype(np.float64)
    B64 = None if B32 is None else B32.astype(np.float64)
    for fid in case.get("narrowed", []):
        o.exclude(fid)

    if not (cs > 0) or n == 0 or not np.isfinite(A64[sel]).all():
        o.invalid = True
        return None
    if periodic:
        if B64 is None or abs(np.linalg.det(B64)) <= 0:
            o.invalid = True
            return None
        # stated domain: extents 1e-3 .. 1e3.  A box whose float32 inverse overflows (denormal
        # lengths, reached only by shrinking) is degenerate in the arithmetic biotite uses.
        if float(box_heights(B64).min()) < 1e-5 or float(np.abs(B64).max()) > 1e6:
            o.invalid = True
            o.label("invalid_box_magnitude_outside_domain")
            return None
    pl = plan(A64, sel, B64, cs, periodic)
    if pl is None or pl["cells"] > MAX_CELLS:
        o.invalid = True
        o.label("invalid_grid_too_large")
        return None

    kind = case.get("input", "f32")
    if kind == "i64" and not (np.isfinite(A64).all() and (A64 == np.round(A64)).all()):
        kind = "f64"  # reached by shrinking only: integer input needs integral coordinates
    box_via = case.get("box_via", "arg" if periodic else None)
    box_dtype = np.float64 if case.get("box_f64") else np.float32
    kwargs = {}
    if TOLF != TOLF_DEFAULT:
        o.label(f"TOLF={TOLF:g}")
    cs_arg = cs
    if case.get("cs_int") and cs == int(cs):
        cs_arg = int(cs)  # docstring example: CellList(atom_array, cell_size=5)
        o.label("cell_size_int")
    if kind == "atoms":
        atoms = struc.AtomArray(n)
        atoms.coord = A32.copy()
        if B32 is not None and box_via in ("attr", "both"):
            if box_via == "both":
                # decoy attribute: the argument must win
                atoms.box = (B32 * np.float32(1.75))[::-1].copy()
            else:
                atoms.box = B32.copy()
        arg0 = atoms
    elif kind == "i64":
        arg0 = A64.astype(np.int64)
    elif kind == "f64":
        arg0 = A64.copy()
    else:
        arg0 = A32.copy()
    if kind != "atoms" and case.get("coord_layout"):
        arg0 = with_layout(arg0, case["coord_layout"])
        o.label("coord_layout_" + case["coord_layout"])
    if B32 is not None and (kind != "atoms" or box_via in ("arg", "both")):
        kwargs["box"] = B32.astype(box_dtype)
        if case.get("box_layout"):
            kwargs["box"] = with_layout(kwargs["box"], case["box_layout"])
            o.label("box_layout_" + case["box_layout"])
    if periodic:
        kwargs["periodic"] = True
    if case.get("sel") is not None:
        if case.get("sel_strided"):
            kwargs["selection"] = np.repeat(sel, 2)[::2]
        else:
            kwargs["selection"] = sel.copy()
    if periodic and case.get("box_reused") and (case.get("sel") is None or sel.any()):
        # history: build a periodic cell list for a *scaled* box held in the very same array
        # object, then overwrite that array in place with the real box
        o.label("box_object_reused")
        scale = np.float32(1.75)
        if "box" in kwargs:
            holder = kwargs["box"]
            real = holder.copy()
            holder[...] = real * scale
            CellList(arg0, cs * float(scale), **kwargs)
            holder[...] = real
        else:
            real = arg0.box.copy()
            arg0.box[...] = real * scale
            CellList(arg0, cs * float(scale), **kwargs)
            arg0.box[...] = real

    o.label("in_" + kind, "periodic" if periodic else "open")
    if case.get("sel") is None:
        o.label("sel_none")
    elif sel.all():
        o.label("sel_all_true")
    elif not sel.any():
        o.label("sel_all_false")
    else:
        o.label("sel_partial")
    if not np.isfinite(A64).all():
        o.label("nan_unselected")
    if periodic:
        G = B64 @ B64.T
        dg = np.sqrt(np.diag(G))
        ortho = bool(all(abs(G[i, j]) <= 1e-6 * dg[i] * dg[j] for i, j in ((0, 1), (0, 2), (1, 2))))
        o.label("orthorhombic" if ortho else "triclinic", "box_" + str(box_via))
        lower = bool(B64[0, 1] == 0 and B64[0, 2] == 0 and B64[1, 2] == 0)
        if case.get("orient") not in (None, "identity"):
            o.label("box_" + str(case["orient"]))
        if not lower:
            o.label("box_not_lower_triangular")
        if np.linalg.det(B64) < 0:
            o.label("box_lefthanded")
    elif B32 is not None:
        o.label("open_with_ignored_box")

    if case.get("sel") is not None and not sel.any():
        # nothing is documented for an empty selection: the constructor may refuse it (with
        # whatever exception) or build a list that never returns anything
        try:
            cl = CellList(arg0, cs_arg, **kwargs)
        except Exception as e:  # noqa: BLE001 - only the constructor call is inside the try
            o.label("all_false_refused_" + type(e).__name__)
            return None
        o.label("all_false_accepted")
    elif case.get("sel_strided"):
        # C14-F2: a strided view of the documented dtype / shape.  Reported under the harness' clause
        # for escaping exceptions, but pinned to the constructor call.
        try:
            cl = CellList(arg0, cs_arg, **kwargs)
        except ValueError as e:
            o.fail("unexpected_exception", f"ValueError: {e} [CellList constructor, strided selection]")
            return None
        o.label("sel_strided")
    else:
        cl = CellList(arg0, cs_arg, **kwargs)

    hmin = None
    if periodic:
        hmin = float(box_heights(B64).min())
    return {
        "cl": cl,
        "A": A64,
        "sel": sel,
        "B": B64,
        "Q32": Q32,
        "n": n,
        "cs": cs,
        "periodic": periodic,
        "plan": pl,
        "hmin": hmin,
        "amax": float(np.abs(A64[np.isfinite(A64)]).max()) if np.isfinite(A64).any() else 0.0,
        "bext": 0.0 if B64 is None else 2.0 * float(np.abs(B64).sum(axis=0).max()),
    }


def query_array(case, Q32, single, o=None):
    q = Q32[0] if single else Q32
    integral = bool(np.isfinite(q).all() and (q == np.round(q)).all() and (np.abs(q) < 2.0**31).all())
    if case.get("q_int") and integral:
        q = q.astype(np.int64)  # docstring example: get_atoms(np.array([1,2,3]), radius=7.0)
        if o is not None:
            o.label("q_int")
    elif case.get("q_f64"):
        q = q.astype(np.float64)
    else:
        q = q.copy()
    if case.get("q_layout"):
        q = with_layout(q, case["q_layout"])
        if o is not None:
            o.label("q_layout_" + case["q_layout"])
    return q


def out_of_int_range(ctx, Q64):
    """Per query: a +-inf component, or a finite query so far away that its cell index does not fit a
    C int (periodic: |q| / box height that large).  Neither the statement ("inside, on the border of,
    outside and far outside") nor a docstring covers these; NaN rows are not in this class (biotite's
    own lDDT code queries with NaN rows)."""
    with np.errstate(invalid="ignore", over="ignore"):
        inf = np.isinf(Q64).any(axis=1)
        if ctx["periodic"]:
            ratio = np.abs(Q64).max(axis=1) / ctx["hmin"]
        else:
            ratio = np.abs(Q64 - ctx["plan"]["lo"][None, :]).max(axis=1) / ctx["cs"]
        far = np.isfinite(Q64).all(axis=1) & (ratio >= INT_RANGE)
    return inf | far


def _vm_bytes():
    try:
        with open("/proc/self/statm") as f:
            return int(f.read().split()[0]) * os.sysconf("SC_PAGE_SIZE")
    except Exception:  # noqa: BLE001
        return 4 << 30


def _call_nocap(o, fn):
    """Calls whose resource cap was lifted (only the stored reproducer of C14-F1 does that) run in a
    forked child with an address-space limit: should the worst-case length ever be computed in 64 bit,
    the same call asks for gigabytes, which must neither kill the shard nor count as an alarm."""
    from vlib.sandbox import run_sandboxed

    def child():
        import resource

        soft, hard = resource.getrlimit(resource.RLIMIT_AS)
        lim = _vm_bytes() + (2 << 30)
        if hard != resource.RLIM_INFINITY:
            lim = min(lim, hard)
        resource.setrlimit(resource.RLIMIT_AS, (lim, hard))
        return fn()

    status, val = run_sandboxed(child, timeout=300.0)
    if status == "ok":
        o.label("nocap_value_returned")
        return True, val
    if status == "exc":
        tname, text = val
        if "MemoryError" in tname:
            o.label("nocap_refused_MemoryError")
            return False, None
        o.fail("unexpected_exception", f"{tname}: {text} [sandboxed call, resource cap lifted]")
        return False, None
    if status == "timeout":
        o.label("nocap_timeout")
        return False, None
    o.fail("unexpected_exception", f"process ended with {status} {val} [sandboxed call, resource cap lifted]")
    return False, None


def call_query(o, case, fn, accepted):
    """(True, value of fn()) or (False, None).  `accepted` maps a label to the exception types that
    nothing in the statement or the docstrings rules out for this input class (the label records which
    one occurred); every other exception escapes to the harness (clause unexpected_exception)."""
    if case.get("nocap"):
        return _call_nocap(o, fn)
    types = tuple(t for ts in accepted.values() for t in ts)
    try:
        return True, fn()
    except types as e:
        for label, ts in accepted.items():
            if isinstance(e, ts):
                o.label(label + "_" + type(e).__name__)
                break
        return False, None


def refusal_classes(o, ctx, Q64, radii, tol):
    """Input classes for which a refusal of the query is tolerated (audit A2, A3)."""
    accepted = {}
    if Q64 is not None and bool(out_of_int_range(ctx, Q64).any()):
        o.label("q_out_of_int_range")
        accepted["q_out_of_int_range_refused"] = (ValueError, OverflowError)
    if ctx["periodic"] and any(float(r) + float(t) >= 0.9 * ctx["hmin"] for r, t in zip(radii, tol)):
        # only 27 images can be searched: a radius of the order of the box height may be rejected
        accepted["periodic_large_radius_refused"] = (ValueError,)
    return accepted


def after_refusal(o, ctx, case):
    """A refused query must leave the cell list usable: an ordinary query (first selected atom, small
    radius) is still answered exactly."""
    sel = ctx["sel"]
    if not sel.any():
        return
    i = int(np.flatnonzero(sel)[0])
    Q64 = ctx["A"][i : i + 1]
    r = _r32(0.5 * ctx["cs"] if not ctx["periodic"] else min(0.5 * ctx["cs"], 0.2 * ctx["hmin"]))
    tol = TOLF * EPS32 * scales(ctx, Q64, [r], case)
    must, may, mult, _ = classify(ctx, Q64, [r], tol, case)
    what = f"get_atoms(atom {i}, {r!r}) after a refused query"
    res = ctx["cl"].get_atoms(Q64[0].astype(np.float32), r)
    rows = split_index_result(o, res, True, 1, ctx["n"], what)
    if rows is not None:
        check_rows(o, rows, must, may, ctx["n"], "get_atoms", what, mult=mult)
    o.label("checked_after_refusal")


def scales(ctx, Q64, radii, case):
    with np.errstate(invalid="ignore"):
        qmax = np.where(np.isfinite(Q64).all(axis=1), np.abs(Q64).max(axis=1), 0.0)
    s = np.maximum.reduce(
        [
            qmax,
            np.full(len(Q64), ctx["amax"]),
            np.asarray(radii, dtype=np.float64),
            np.full(len(Q64), ctx["bext"] + (ctx["amax"] if ctx["periodic"] else 0.0)),
            np.full(len(Q64), float(case.get("E", 0.0))),
        ]
    )
    return s


# --------------------------------------------------------------------------
# three-valued membership
# --------------------------------------------------------------------------
def classify(ctx, Q64, radii, tol, case):
    """Per (query, atom): must_in, may (ambiguous), and for periodic the
    multiplicity bounds (lo, hi) or None when not decidable."""
    A, sel, n = ctx["A"], ctx["sel"], ctx["n"]
    m = len(Q64)
    r = np.asarray(radii, dtype=np.float64)[:, None]
    t = np.asarray(tol, dtype=np.float64)[:, None]
    if not ctx["periodic"]:
        d, _ = ref_open(A, Q64)
        with np.errstate(invalid="ignore"):
            exact0 = (A[None, :, :] == Q64[:, None, :]).all(-1)
            must = (d < r - t) | exact0
            may = (np.abs(d - r) <= t) & ~exact0
        must &= sel[None, :]
        may &= sel[None, :]
        return must, may, None, d
    dimg, fi = ref_periodic(A, Q64, ctx["B"])
    with np.errstate(invalid="ignore"):
        inside = dimg < (r - t)[:, :, None]
        band = np.abs(dimg - r[:, :, None]) <= t[:, :, None]
    n_in = inside.sum(-1)
    n_amb = band.sum(-1)
    must = n_in >= 1
    may = (n_in == 0) & (n_amb >= 1)
    # supported radius: below the smallest box height every image within r is stored
    small = (r[:, 0] + t[:, 0]) < 0.9 * ctx["hmin"]
    with np.errstate(invalid="ignore"):
        dsafe = np.where(np.isnan(dimg), np.inf, dimg)
    kmin = dsafe.argmin(-1)
    fmin = np.take_along_axis(fi, kmin[:, :, None, None], axis=2)[:, :, 0, :]
    with np.errstate(invalid="ignore"):
        guard = (np.abs(fmin) < 0.9).all(-1)
    unsupported = must & ~small[:, None] & ~guard
    must = must & ~unsupported
    may = may | unsupported
    must &= sel[None, :]
    may &= sel[None, :]
    mult_lo = np.where(sel[None, :], n_in, 0)
    mult_hi = np.where(sel[None, :], n_in + n_amb, 0)
    mult = (mult_lo, mult_hi, small)
    return must, may, mult, dsafe.min(-1)


def check_rows(o, rows, must, may, n, clause_prefix, what, mult=None, allow_dup=False):
    """rows: list of 1-D int arrays (padding already verified and removed)."""
    for j, row in enumerate(rows):
        got = np.zeros(n, dtype=bool)
        got[row] = True
        missing = must[j] & ~got
        extra = got & ~must[j] & ~may[j]
        if missing.any():
            o.fail(clause_prefix + "_missing", f"{what}: query {j}: atoms {np.flatnonzero(missing).tolist()} within the radius are not returned (got {sorted(set(row.tolist()))})")
        if extra.any():
            o.fail(clause_prefix + "_extra", f"{what}: query {j}: atoms {np.flatnonzero(extra).tolist()} outside the radius (or unselected) are returned")
        counts = np.bincount(row, minlength=n)
        if mult is None:
            if not allow_dup and (counts > 1).any():
                o.fail(clause_prefix + "_duplicate", f"{what}: query {j}: indices returned more than once: {np.flatnonzero(counts > 1).tolist()}")
        else:
            lo, hi, small = mult
            if small[j]:
                bad = (counts < lo[j]) | (counts > hi[j])
                if bad.any():
                    i = int(np.flatnonzero(bad)[0])
                    o.fail(
                        "periodic_multiplicity",
                        f"{what}: query {j}: atom {i} returned {int(counts[i])} times, {int(lo[j][i])}..{int(hi[j][i])} periodic copies are within the radius",
                    )


def split_index_result(o, res, single, m, n, what):
    """Validate the documented layout of an index result and return the rows
    without padding (None if the layout is wrong)."""
    res = np.asarray(res)
    if not o.check(res.dtype == np.int32, "index_layout", lambda: f"{what}: dtype {res.dtype}"):
        return None
    if single:
        if not o.check(res.ndim == 1, "index_layout", lambda: f"{what}: shape {res.shape} for a single position"):
            return None
        res2 = res[None, :]
    else:
        if not o.check(res.ndim == 2 and res.shape[0] == m, "index_layout", lambda: f"{what}: shape {res.shape} for {m} positions"):
            return None
        res2 = res
    rows = []
    for j in range(res2.shape[0]):
        row = res2[j]
        pad = row == -1
        k = int(pad.argmax()) if pad.any() else len(row)
        if not o.check(bool(pad[k:].all()), "padding_trailing", lambda: f"{what}: row {j} = {row.tolist()}"):
            return None
        row = row[:k]
        if not o.check(bool(((row >= 0) & (row < n)).all()), "index_range", lambda: f"{what}: row {j} = {row.tolist()} for {n} atoms"):
            return None
        rows.append(row)
    if single and res.ndim == 1:
        # "trailing -1" is documented for batches only; a single position returns the plain indices
        o.check(len(rows[0]) == len(res), "single_no_padding", lambda: f"{what}: {res.tolist()}")
    return rows


def check_mask_agrees(o, mask, rows, single, m, n, what):
    mask = np.asarray(mask)
    want_shape = (n,) if single else (m, n)
    if not o.check(mask.dtype == np.bool_ and mask.shape == want_shape, "mask_layout", lambda: f"{what}: dtype {mask.dtype} shape {mask.shape}, want bool {want_shape}"):
        return
    mask2 = mask[None, :] if single else mask
    for j, row in enumerate(rows):
        want = np.zeros(n, dtype=bool)
        want[row] = True
        if not np.array_equal(mask2[j], want):
            o.fail("mask_equals_indices", f"{what}: query {j}: mask {np.flatnonzero(mask2[j]).tolist()} vs indices {sorted(set(row.tolist()))}")
            return


# --------------------------------------------------------------------------
# effective radii (resource cap, C14-F1 narrowing)
# --------------------------------------------------------------------------
def effective_radii(o, ctx, case, radii, m):
    """Cap the radii so that the worst-case index array stays below MAX_ELEMS."""
    cs = ctx["cs"]
    pl = ctx["plan"]
    radii = [_r32(r) for r in radii]
    if case.get("nocap"):
        return radii
    cmax = max_cell_radius(m, pl["occ_bound"])
    cap = _r32(cmax * cs * 0.999)
    out = []
    capped = False
    overflow = False
    for r in radii:
        c = math.ceil(r / cs) if math.isfinite(r) else 10**9
        if c > cmax:
            capped = True
            if (2 * c + 1) ** 3 * max(pl["occ"], 1) > INT32_MAX:
                overflow = True
            r = cap
        out.append(r)
    if capped:
        o.label("radius_capped_for_memory")
    if overflow and findings.is_open(F1):
        o.exclude(F1)
    return out


def radius_labels(o, ctx, radii, case):
    ext = float(np.max(ctx["plan"]["hi"] - ctx["plan"]["lo"])) if not ctx["periodic"] else float(np.abs(ctx["B"]).sum(axis=0).max())
    for r in radii:
        if r == 0:
            o.label("r_zero")
        elif r <= 1e-3 * max(ext, float(case.get("E", 0.0))):
            o.label("r_tiny")
        elif r > ext:
            o.label("r_gt_extent")
        else:
            o.label("r_typical")
    if ctx["periodic"]:
        if any(r >= 0.9 * ctx["hmin"] for r in radii):
            o.label("r_ge_box_height")
        if any(0.5 * ctx["hmin"] < r < 0.9 * ctx["hmin"] for r in radii):
            o.label("r_gt_half_box_height")


def query_labels(o, ctx, Q64):
    lo, hi = ctx["plan"]["lo"], ctx["plan"]["hi"]
    if ctx["periodic"]:
        # bounding box of the original atoms is what "outside" refers to
        fin = np.isfinite(ctx["A"]).all(axis=1)
        lo, hi = ctx["A"][fin].min(axis=0), ctx["A"][fin].max(axis=0)
    ext = max(float((hi - lo).max()), 1e-30)
    for q in Q64:
        if not np.isfinite(q).all():
            o.label("q_nonfinite")
            continue
        out = np.maximum(lo - q, q - hi).max()
        if out > 5 * ext:
            o.label("q_far_outside")
        elif out > 0:
            o.label("q_outside")
        elif ((q == lo) | (q == hi)).any():
            o.label("q_on_border")
        else:
            o.label("q_inside")


def result_labels(o, ctx, must, may):
    nsel = int(ctx["sel"].sum())
    nontriv = False
    for j in range(len(must)):
        k = int(must[j].sum())
        k2 = int((must[j] | may[j]).sum())
        if k == 0 and k2 == 0:
            o.label("res_empty")
        elif k == nsel:
            o.label("res_everything")
        elif k > 0 and k2 < nsel:
            o.label("res_partial")
            nontriv = True
        else:
            o.label("res_only_ambiguous")
    if ctx["plan"]["occupied"] >= 2:
        o.label("cells>=2")
    o.label("n>=5" if nsel >= 5 else "n<5")
    o.mark_nontrivial(nontriv and nsel >= 5 and ctx["plan"]["occupied"] >= 2)


# --------------------------------------------------------------------------
# run: get_atoms
# --------------------------------------------------------------------------
def run_get_atoms(case):
    o = Outcome()
    ctx = build(case, o)
    if ctx is None:
        return o
    cl, n = ctx["cl"], ctx["n"]
    Q32 = ctx["Q32"]
    m = len(Q32)
    if m == 0:
        # documented helper for "no coordinates": an empty array
        res = cl.get_atoms(np.zeros((0, 3), dtype=np.float32), 1.0)
        o.check(np.asarray(res).size == 0, "empty_query", f"indices for no query: {res!r}")
        res = cl.get_atoms(np.zeros((0, 3), dtype=np.float32), 1.0, as_mask=True)
        o.check(np.asarray(res).size == 0, "empty_query", f"mask for no query: {res!r}")
        o.label("q_none")
        return o
    single = bool(case.get("single")) and m == 1
    scalar = bool(case.get("scalar_radius")) or single
    radii = list(case["radii"])
    if scalar:
        radii = [radii[0]] * m
    radii = effective_radii(o, ctx, case, radii, m)
    Q64 = Q32.astype(np.float64)
    tol = TOLF * EPS32 * scales(ctx, Q64, radii, case)
    must, may, mult, _ = classify(ctx, Q64, radii, tol, case)
    o.ambiguous += int(may.sum())
    if mult is not None and bool(((mult[0] >= 2) & mult[2][:, None]).any()):
        o.label("periodic_several_copies_in_radius")

    q = query_array(case, Q32, single, o)
    if scalar:
        if case.get("r_int") and math.isfinite(radii[0]) and radii[0] == int(radii[0]):
            rad_arg = int(radii[0])
            o.label("r_int")
        else:
            rad_arg = radii[0] if not case.get("radius_np_scalar") else np.float32(radii[0])
    else:
        rad_arg = np.array(radii, dtype=np.float64 if case.get("r_f64") else np.float32)
        if case.get("r_strided"):
            rad_arg = with_layout(rad_arg, "row")
            o.label("r_strided")
    what = f"get_atoms(cell={ctx['cs']!r}, radii={radii!r})"
    o.label("single" if single else ("batch1" if m == 1 else "batch"), "r_scalar" if scalar else "r_per_query")
    radius_labels(o, ctx, radii, case)
    query_labels(o, ctx, Q64)
    result_labels(o, ctx, must, may)
    if int(ctx["plan"]["dims"].max()) >= 30 and any(math.isfinite(r) and math.ceil(r / ctx["cs"]) >= int(ctx["plan"]["dims"].max()) for r in radii):
        o.label("cell_radius_exceeds_fine_grid")
    accepted = refusal_classes(o, ctx, Q64, radii, tol)
    ok, val = call_query(o, case, lambda: (cl.get_atoms(q, rad_arg), cl.get_atoms(q, rad_arg, as_mask=True)), accepted)
    if not ok:
        if not o.violations and not case.get("nocap"):
            after_refusal(o, ctx, case)
        return o
    res, mask = val
    rows = split_index_result(o, res, single, m, n, what)
    if rows is not None:
        check_rows(o, rows, must, may, n, "get_atoms", what, mult=mult)
        check_mask_agrees(o, mask, rows, single, m, n, what)
    return o


# --------------------------------------------------------------------------
# run: get_atoms_in_cells
# --------------------------------------------------------------------------
def run_cells(case):
    o = Outcome()
    ctx = build(case, o)
    if ctx is None:
        return o
    cl, n, cs = ctx["cl"], ctx["n"], ctx["cs"]
    Q32 = ctx["Q32"]
    m = len(Q32)
    if m == 0:
        o.invalid = True
        return o
    single = bool(case.get("single")) and m == 1
    scalar = bool(case.get("scalar_radius")) or single
    crs = [int(c) for c in case["cell_radii"]]
    if scalar:
        crs = [crs[0]] * m
    if not case.get("nocap"):
        cmax = max_cell_radius(m, ctx["plan"]["occ_bound"])
        if any(c > cmax for c in crs):
            o.label("radius_capped_for_memory")
            if any((2 * c + 1) ** 3 * max(ctx["plan"]["occ"], 1) > INT32_MAX for c in crs) and findings.is_open(F1):
                o.exclude(F1)
        crs = [min(c, cmax) for c in crs]
    Q64 = Q32.astype(np.float64)
    dist = [c * cs for c in crs]
    tol = TOLF * EPS32 * scales(ctx, Q64, dist, case)
    sel = ctx["sel"]
    if ctx["periodic"]:
        # statement level: every atom whose minimum-image distance is within c*cell
        must, may, _, _ = classify(ctx, Q64, dist, tol, case)
        # only images closer than the smallest box height are stored for certain
        small = (np.asarray(dist) + tol) < 0.9 * ctx["hmin"]
        dimg, fi = ref_periodic(ctx["A"], Q64, ctx["B"])
        with np.errstate(invalid="ignore"):
            dmin = np.where(np.isnan(dimg), np.inf, dimg).min(-1)
        closer = dmin < 0.9 * ctx["hmin"]
        must = must & (small[:, None] | closer)
        clause = "cells_superset_euclid"
    else:
        d, cheb = ref_open(ctx["A"], Q64)
        r = np.asarray(dist)[:, None]
        t = tol[:, None]
        with np.errstate(invalid="ignore"):
            must = (cheb < r - t) | (ctx["A"][None, :, :] == Q64[:, None, :]).all(-1)
            must_e = d < r - t
        must &= sel[None, :]
        must_e &= sel[None, :]
        clause = "cells_superset_per_axis"
    o.ambiguous += 0

    q = query_array(case, Q32, single, o)
    if scalar:
        cr_arg = crs[0]
    else:
        cr_arg = np.array(crs, dtype=np.int64 if case.get("r_f64") else np.int32)
        if case.get("r_strided"):
            cr_arg = with_layout(cr_arg, "row")
            o.label("r_strided")
    what = f"get_atoms_in_cells(cell={cs!r}, cell_radius={crs!r})"
    o.label("single" if single else ("batch1" if m == 1 else "batch"), "r_scalar" if scalar else "r_per_query")
    for c in crs:
        o.label("cell_radius=0" if c == 0 else ("cell_radius=1" if c == 1 else "cell_radius>=2"))
    if int(ctx["plan"]["dims"].max()) >= 30 and any(c >= int(ctx["plan"]["dims"].max()) for c in crs):
        o.label("cell_radius_exceeds_fine_grid")
    query_labels(o, ctx, Q64)
    if ctx["plan"]["occupied"] >= 2:
        o.label("cells>=2")
    exotic = out_of_int_range(ctx, Q64)
    accepted = refusal_classes(o, ctx, Q64, [], [])
    if case.get("default_radius") and scalar and crs[0] == 1:
        o.label("default_cell_radius")
        ok, val = call_query(o, case, lambda: (cl.get_atoms_in_cells(q), cl.get_atoms_in_cells(q, as_mask=True)), accepted)
    else:
        ok, val = call_query(o, case, lambda: (cl.get_atoms_in_cells(q, cr_arg), cl.get_atoms_in_cells(q, cr_arg, as_mask=True)), accepted)
    if not ok:
        if not o.violations and not case.get("nocap"):
            after_refusal(o, ctx, case)
        return o
    res, mask = val
    rows = split_index_result(o, res, single, m, n, what)
    if rows is not None:
        nontriv = False
        for j, row in enumerate(rows):
            got = np.zeros(n, dtype=bool)
            got[row] = True
            if not ctx["periodic"]:
                miss_e = must_e[j] & ~got
                if miss_e.any():
                    o.fail("cells_superset_euclid", f"{what}: query {j}: atoms {np.flatnonzero(miss_e).tolist()} within {dist[j]!r} are missing")
                if not exotic[j]:
                    # docstring: "radius of 0 = only the atoms in the same cell ... 1 = this cell and the
                    # surrounding cells": whatever the grid origin and the rounding of the cell index
                    # (floor or truncation), nothing farther than (c + 2) cells per axis can be returned
                    with np.errstate(invalid="ignore"):
                        beyond = got & (cheb[j] > (crs[j] + 2) * cs + tol[j])
                    if beyond.any():
                        o.fail("cells_not_beyond_shell", f"{what}: query {j}: atoms {np.flatnonzero(beyond).tolist()} are more than {crs[j]} + 2 cells away on one axis")
            miss = must[j] & ~got
            if miss.any():
                o.fail(clause, f"{what}: query {j}: atoms {np.flatnonzero(miss).tolist()} within {dist[j]!r} (per axis) are missing")
            if (got & ~sel).any():
                o.fail("cells_no_unselected", f"{what}: query {j}: unselected atoms {np.flatnonzero(got & ~sel).tolist()} returned")
            if not ctx["periodic"]:
                counts = np.bincount(row, minlength=n)
                if (counts > 1).any():
                    o.fail("cells_duplicate", f"{what}: query {j}: indices returned more than once: {np.flatnonzero(counts > 1).tolist()}")
            k = int(must[j].sum())
            if 0 < k and int(got.sum()) < int(sel.sum()):
                nontriv = True
                o.label("res_partial")
            elif k == 0:
                o.label("res_none_required")
            else:
                o.label("res_everything")
        check_mask_agrees(o, mask, rows, single, m, n, what)
        nsel = int(sel.sum())
        o.mark_nontrivial(nontriv and nsel >= 5 and ctx["plan"]["occupied"] >= 2)
    return o


# --------------------------------------------------------------------------
# run: create_adjacency_matrix
# --------------------------------------------------------------------------
def run_adjacency(case):
    o = Outcome()
    ctx = build(case, o)
    if ctx is None:
        return o
    cl, n, sel = ctx["cl"], ctx["n"], ctx["sel"]
    nsel = int(sel.sum())
    thr = effective_radii(o, ctx, case, [case["threshold"]], max(nsel, 1))[0]
    A = ctx["A"]
    # unselected atoms may hold NaN; they never take part
    Aq = np.where(sel[:, None], A, 0.0)
    tol = TOLF * EPS32 * scales(ctx, Aq, [thr] * n, case)
    must, may, _, dref = classify(ctx, Aq, [thr] * n, tol, case)
    must &= sel[:, None]
    may &= sel[:, None]
    if ctx["periodic"]:
        # the stored (moved, float32) coordinates are moved again when queried: the
        # self distance is zero up to rounding, not exactly
        pass
    o.ambiguous += int(may.sum())
    what = f"create_adjacency_matrix(cell={ctx['cs']!r}, thr={thr!r})"
    radius_labels(o, ctx, [thr], case)
    if ctx["plan"]["occupied"] >= 2:
        o.label("cells>=2")
    o.label("n>=5" if nsel >= 5 else "n<5")
    thr_arg = thr
    if case.get("r_int") and math.isfinite(thr) and thr == int(thr):
        thr_arg = int(thr)  # docstring example: create_adjacency_matrix(5)
        o.label("r_int")
    accepted = refusal_classes(o, ctx, None, [thr], [float(np.max(tol))])
    ok, M = call_query(o, case, lambda: np.asarray(cl.create_adjacency_matrix(thr_arg)), accepted)
    if not ok:
        if not o.violations and not case.get("nocap"):
            after_refusal(o, ctx, case)
        return o
    if o.check(M.shape == (n, n) and M.dtype == np.bool_, "adjacency_layout", lambda: f"{what}: shape {M.shape} dtype {M.dtype}"):
        missing = must & ~M
        extra = M & ~must & ~may
        if missing.any():
            o.fail("adjacency_missing", f"{what}: pairs {np.argwhere(missing)[:5].tolist()} are within the threshold but False")
        if extra.any():
            o.fail("adjacency_extra", f"{what}: pairs {np.argwhere(extra)[:5].tolist()} are True but beyond the threshold or unselected")
        decided = ~may & ~may.T
        asym = (M != M.T) & decided
        if asym.any():
            o.fail("adjacency_symmetric", f"{what}: asymmetric at {np.argwhere(asym)[:5].tolist()}")
        off = ~np.eye(n, dtype=bool) & sel[:, None] & sel[None, :]
        k_true = int((must & off).sum())
        k_false = int((~must & ~may & off).sum())
        if k_true and k_false:
            o.label("res_partial")
        elif k_true:
            o.label("res_everything")
        else:
            o.label("res_empty")
        o.mark_nontrivial(k_true > 0 and k_false > 0 and nsel >= 5 and ctx["plan"]["occupied"] >= 2)
    return o


# --------------------------------------------------------------------------
# strategies
# --------------------------------------------------------------------------
u01 = st.floats(0.0, 1.0, width=32)
small_int = st.integers(-1, 1)


def _chance(k):
    """True with probability ~1/k (sampled_from is not biased towards small values)."""
    return st.sampled_from([False] * (k - 1) + [True])


def _log_uniform(lo, hi):
    return st.floats(math.log10(lo), math.log10(hi)).map(lambda e: 10.0**e)


def _draw_box(draw, ref_len):
    """Random orthorhombic or reduced triclinic box (angles 60..120 deg, pulled
    towards 90 deg until the smallest height is >= 0.45 * the shortest edge)."""
    Ls = [ref_len * draw(st.one_of(st.sampled_from([1.0, 0.5, 2.0]), st.floats(0.3, 3.0))) for _ in range(3)]
    if draw(st.booleans()):
        ang = [90.0, 90.0, 90.0]
    else:
        ang = [draw(st.one_of(st.sampled_from([60.0, 90.0, 120.0]), st.floats(60.0, 120.0))) for _ in range(3)]
    B = None
    for _ in range(8):
        B = box_from_cell(Ls[0], Ls[1], Ls[2], *ang)
        if B is not None and box_heights(B).min() >= 0.45 * min(Ls):
            break
        ang = [90.0 + 0.6 * (a - 90.0) for a in ang]
    else:
        B = box_from_cell(Ls[0], Ls[1], Ls[2], 90.0, 90.0, 90.0)
    return [[_r32(x) for x in row] for row in B]


FACE_FRACS = [0.0, 0.0, 0.03, 0.97, 0.5, 0.25]

# orientations of a periodic system (box rows and atoms are multiplied from the right): the boxes
# drawn above are lower triangular (a along x, b in the xy plane, right-handed), which is only one
# of the valid ways to write down a box
ORIENT = {
    "identity": [[1, 0, 0], [0, 1, 0], [0, 0, 1]],
    "perm_yxz": [[0, 1, 0], [1, 0, 0], [0, 0, 1]],
    "perm_zyx": [[0, 0, 1], [0, 1, 0], [1, 0, 0]],
    "perm_xzy": [[1, 0, 0], [0, 0, 1], [0, 1, 0]],
    "perm_yzx": [[0, 1, 0], [0, 0, 1], [1, 0, 0]],
    "perm_zxy": [[0, 0, 1], [1, 0, 0], [0, 1, 0]],
    "flip_x": [[-1, 0, 0], [0, 1, 0], [0, 0, 1]],
    "flip_z": [[1, 0, 0], [0, 1, 0], [0, 0, -1]],
    "rot_x": [[1, 0, 0], [0, 0.6, 0.8], [0, -0.8, 0.6]],
    "rot_y": [[0.6, 0, -0.8], [0, 1, 0], [0.8, 0, 0.6]],
    "rot_z": [[0.6, 0.8, 0], [-0.8, 0.6, 0], [0, 0, 1]],
}
ORIENT_DRAW = ["identity"] * 8 + [k for k in ORIENT if k != "identity"]
LAYOUT_DRAW = [None] * 9 + ["row", "col", "F"]


@st.composite
def st_base(draw, tier, periodic, fine=False):
    """Atoms, cell size, selection, input form, box."""
    thorough = tier == "thorough"
    E = draw(st.one_of(st.sampled_from([1e-3, 1.0, 10.0, 1e3]), _log_uniform(1e-3, 1e3)))
    kinds = ["uniform", "uniform", "clustered", "collinear", "duplicated", "lattice"]
    if periodic:
        kinds += ["boxfaces", "boxfaces"]
    kind = draw(st.sampled_from(kinds))
    n = draw(st.integers(1, 4)) if draw(_chance(8)) else draw(st.one_of(st.integers(5, 12), st.integers(5, 25), st.integers(20, 60)))
    case = {"E": E, "kind": kind, "periodic": bool(periodic)}
    lattice_cs = None
    def triples(elem, count):
        flat = draw(st.lists(elem, min_size=3 * count, max_size=3 * count))
        return [flat[3 * i : 3 * i + 3] for i in range(count)]

    if kind == "uniform":
        U = triples(u01, n)
    elif kind == "clustered":
        k = draw(st.integers(1, 4))
        centers = [[draw(u01) for _ in range(3)] for _ in range(k)]
        spread = draw(st.sampled_from([1e-4, 1e-3, 1e-2, 0.1]))
        which = draw(st.lists(st.integers(0, k - 1), min_size=n, max_size=n))
        jit = triples(u01, n)
        U = [[centers[which[i]][a] + spread * (jit[i][a] - 0.5) for a in range(3)] for i in range(n)]
    elif kind == "collinear":
        p0 = [draw(u01) for _ in range(3)]
        dirv = draw(st.tuples(small_int, small_int, small_int).filter(lambda t: any(t)))
        ts = draw(st.lists(u01, min_size=n, max_size=n))
        U = [[p0[a] + t * dirv[a] for a in range(3)] for t in ts]
    elif kind == "duplicated":
        k = draw(st.integers(1, 5))
        base = [[draw(u01) for _ in range(3)] for _ in range(k)]
        which = draw(st.lists(st.integers(0, k - 1), min_size=n, max_size=n))
        U = [list(base[w]) for w in which]
    elif kind == "boxfaces":
        # atoms close to the faces, edges and corners of the periodic box (some in neighbouring boxes)
        B0 = _draw_box(draw, E)
        case["box"] = B0
        Bm = np.array(B0, dtype=np.float64)
        U = None
        pts = []
        for _ in range(n):
            f = [draw(st.sampled_from(FACE_FRACS)) + 0.04 * draw(u01) for _ in range(3)]
            if draw(_chance(4)):
                a = draw(st.integers(0, 2))
                f[a] += draw(st.sampled_from([-2, -1, 1, 2]))
            pts.append([_r32(x) for x in (np.array(f) @ Bm)])
    else:  # lattice: exact multiples of the cell size
        G = draw(st.integers(1, 8))
        mant = draw(st.sampled_from([1.0, 1.5, 3.0, 0.1, 0.7]))
        lattice_cs = _r32(E * mant / G)
        if lattice_cs >= 1.0 and draw(_chance(2)):
            # integral coordinates (given as an integer array in some cases)
            lattice_cs = float(round(lattice_cs))
        org = [draw(st.integers(-3, 3)) for _ in range(3)]
        ints = triples(st.integers(0, G), n)
        case["lattice"] = {"G": G, "org": org}
        U = None
        pts = [[_r32((org[a] + p[a]) * lattice_cs) for a in range(3)] for p in ints]
    if U is not None:
        off_kind = draw(st.sampled_from(["zero", "zero", "small", "neg", "large"]))
        if off_kind == "zero":
            off = [0.0, 0.0, 0.0]
        elif off_kind == "small":
            off = [E * draw(u01) for _ in range(3)]
        elif off_kind == "neg":
            off = [-E * (0.5 + draw(u01)) for _ in range(3)]
        else:
            off = [E * draw(st.sampled_from([-100.0, 30.0, 100.0])) for _ in range(3)]
        pts = [[_r32(off[a] + E * u[a]) for a in range(3)] for u in U]
    if E >= 8.0 and draw(_chance(6)):
        # integral coordinates (both docstring examples pass integers); given as an integer array in some cases
        pts = [[float(round(x)) for x in p] for p in pts]
        case["rounded"] = True
    A = np.array(pts, dtype=np.float64).reshape(-1, 3)

    # selection
    sel_kind = draw(st.sampled_from(["none", "none", "partial", "partial", "all_true", "all_false", "nan_unselected"]))
    sel = None
    if sel_kind == "partial" or sel_kind == "nan_unselected":
        sel = draw(st.lists(st.booleans(), min_size=n, max_size=n))
        if not any(sel):
            sel[draw(st.integers(0, n - 1))] = True
        if sel_kind == "nan_unselected":
            for i in range(n):
                if not sel[i]:
                    pts[i] = [float("nan")] * 3
    elif sel_kind == "all_true":
        sel = [True] * n
    elif sel_kind == "all_false":
        if draw(_chance(5)):
            sel = [False] * n
        else:
            sel = None
    case["pts"] = pts
    case["sel"] = sel
    strided = sel is not None and draw(_chance(8))
    if strided and findings.is_open(F2):
        strided = False
        case["narrowed"] = [F2]
    case["sel_strided"] = strided
    A = np.array(pts, dtype=np.float64).reshape(-1, 3)
    fin = np.isfinite(A).all(axis=1)
    lo, hi = A[fin].min(axis=0), A[fin].max(axis=0)
    ext = float((hi - lo).max())
    if ext <= 0:
        ext = E

    # box
    B = None
    want_box = periodic or draw(_chance(6))
    if case.get("box") is not None:
        B = case["box"]
        case["box_f64"] = draw(st.booleans())
    elif want_box:
        if kind == "lattice" and draw(st.booleans()):
            # faces on multiples of the cell size
            Ls = [lattice_cs * draw(st.integers(1, 10)) for _ in range(3)]
            B = box_from_cell(Ls[0], Ls[1], Ls[2], 90.0, 90.0, 90.0)
        else:
            B = _draw_box(draw, ext)
        B = [[_r32(x) for x in row] for row in B]
        case["box"] = B
        case["box_f64"] = draw(st.booleans())
    else:
        case["box"] = None

    # orientation of a periodic system
    if periodic:
        orient = draw(st.sampled_from(ORIENT_DRAW))
        case["orient"] = orient
        if orient != "identity":
            Mo = np.array(ORIENT[orient], dtype=np.float64)
            with np.errstate(invalid="ignore"):
                pts = [[_r32(x) for x in row] for row in (np.array(pts, dtype=np.float64).reshape(-1, 3) @ Mo)]
            B = [[_r32(x) for x in row] for row in (np.array(B, dtype=np.float64) @ Mo)]
            case["pts"] = pts
            case["box"] = B
            A = np.array(pts, dtype=np.float64).reshape(-1, 3)

    # input form
    integral = bool(fin.all() and (A == np.round(A)).all() and float(np.abs(A).max()) < 2.0**31)
    inp = draw(st.sampled_from(["f32", "f64", "atoms", "atoms"] + (["i64"] * 4 if integral else [])))
    case["input"] = inp
    if inp != "atoms":
        case["coord_layout"] = draw(st.sampled_from(LAYOUT_DRAW))
    if integral:
        case["cs_int"] = draw(st.booleans())
        case["q_int"] = draw(st.booleans())
        case["r_int"] = draw(st.booleans())
    if B is not None:
        if inp == "atoms":
            case["box_via"] = draw(st.sampled_from(["attr", "attr", "arg", "both"]))
        else:
            case["box_via"] = "arg"
        if case["box_via"] in ("arg", "both"):
            case["box_layout"] = draw(st.sampled_from(LAYOUT_DRAW))
        # the same box array object served an earlier cell list with other values and was then
        # updated in place (successive frames of a trajectory): results must not depend on that
        case["box_reused"] = bool(periodic and draw(st.sampled_from([False, False, True])))

    # cell size
    if periodic:
        S = ref_stored_coords(np.where(fin[:, None], A, 0.0), np.array(B, dtype=np.float64))
        ext_eff = float((S.max(axis=0) - S.min(axis=0)).max())
        # "extent" of a periodic system is the box
        ref_len = float(np.abs(np.array(B)).sum(axis=0).max())
    else:
        ext_eff = ext
        ref_len = ext
    kmax = 50.0 if not periodic else 60.0
    if lattice_cs is not None and lattice_cs >= ext_eff / kmax:
        cs = lattice_cs
    else:
        if fine:
            choice = draw(st.sampled_from(["fine", "fine", "fine", "log", "one"]))
        else:
            choice = draw(st.sampled_from(["log", "fine", "log", "fine", "one", "coarse"]))
        if choice == "log":
            cs = ref_len * draw(_log_uniform(1.0 / 50.0, 10.0))
        elif choice == "one":
            cs = ref_len * draw(st.sampled_from([1.0, 0.5, 0.25, 2.0]))
        elif choice == "fine":
            cs = ref_len / draw(st.integers(3, 50))
        else:
            cs = ref_len * draw(st.floats(1.0, 10.0))
        cs = max(cs, ext_eff / kmax)
    case["cell_size"] = _r32(cs)
    return case


def _bbox(case):
    A = np.array(case["pts"], dtype=np.float64).reshape(-1, 3)
    fin = np.isfinite(A).all(axis=1)
    return A, fin, A[fin].min(axis=0), A[fin].max(axis=0)


@st.composite
def st_queries(draw, case, tier):
    """Query batch positioned relative to the atoms' bounding box (and the box)."""
    A, fin, lo, hi = _bbox(case)
    E = case["E"]
    D = max(float((hi - lo).max()), 0.1 * E)
    cs = case["cell_size"]
    mmax = 6 if tier == "quick" else 12
    m = draw(st.one_of(st.just(1), st.integers(1, mmax)))
    kinds = ["inside", "inside", "atom", "atom", "border", "border", "outside", "outside", "far", "far"]
    Bm = None
    if case.get("periodic"):
        kinds = kinds + ["boxfrac"] * 5
        Bm = np.array(case["box"], dtype=np.float64)
    Q = []
    for _ in range(m):
        k = draw(st.sampled_from(["vfar", "nonfinite"])) if draw(_chance(16)) else draw(st.sampled_from(kinds))
        if k == "inside":
            q = [lo[a] + draw(u01) * (hi[a] - lo[a]) for a in range(3)]
        elif k == "atom":
            i = draw(st.integers(0, len(A) - 1))
            q = list(A[i]) if fin[i] else list(lo)
            if draw(_chance(4)):
                # one cell size away along an axis: on the cell border of that atom's neighbour
                a = draw(st.integers(0, 2))
                q[a] = q[a] + cs * draw(st.sampled_from([-2, -1, 1, 2]))
        elif k == "border":
            q = []
            for a in range(3):
                w = draw(st.sampled_from(["lo", "hi", "in", "lo-", "hi+"]))
                if w == "lo":
                    q.append(lo[a])
                elif w == "hi":
                    q.append(hi[a])
                elif w == "lo-":
                    q.append(float(np.nextafter(np.float32(lo[a]), np.float32(-np.inf))))
                elif w == "hi+":
                    q.append(float(np.nextafter(np.float32(hi[a]), np.float32(np.inf))))
                else:
                    q.append(lo[a] + draw(u01) * (hi[a] - lo[a]))
            if draw(st.booleans()):
                a = draw(st.integers(0, 2))
                q[a] = draw(st.sampled_from([lo[a], hi[a]]))
        elif k == "outside":
            q = []
            for a in range(3):
                w = draw(st.sampled_from(["below", "above", "in"]))
                if w == "below":
                    q.append(lo[a] - D * 2.0 * draw(u01))
                elif w == "above":
                    q.append(hi[a] + D * 2.0 * draw(u01))
                else:
                    q.append(lo[a] + draw(u01) * (hi[a] - lo[a]))
            a = draw(st.integers(0, 2))
            q[a] = draw(st.sampled_from([lo[a] - D * (0.01 + draw(u01)), hi[a] + D * (0.01 + draw(u01))]))
        elif k == "far":
            f = draw(_log_uniform(10.0, 1e5))
            q = [lo[a] + draw(st.sampled_from([-1.0, 0.0, 1.0])) * D * f for a in range(3)]
            a = draw(st.integers(0, 2))
            q[a] = lo[a] + draw(st.sampled_from([-1.0, 1.0])) * D * f
        elif k == "boxfrac":
            # near faces / edges / corners of the periodic box, possibly in another box
            f = [draw(st.sampled_from(FACE_FRACS + [1.0])) + 0.04 * draw(u01) * draw(st.sampled_from([-1.0, 0.0, 1.0])) for _ in range(3)]
            if draw(_chance(4)):
                a = draw(st.integers(0, 2))
                f[a] += draw(st.sampled_from([-3, -1, 1, 2]))
            q = list(np.array(f) @ Bm)
        elif k == "vfar":
            q = [draw(st.sampled_from([-1.0, 0.0, 1.0])) * draw(st.sampled_from([1e9, 1e15, 1e30, 3e38])) for _ in range(3)]
        else:
            q = [lo[a] + draw(u01) * (hi[a] - lo[a]) for a in range(3)]
            q[draw(st.integers(0, 2))] = draw(st.sampled_from([float("nan"), float("inf"), float("-inf")]))
        if case.get("q_int") and all(math.isfinite(x) and abs(x) < 2.0**24 for x in q):
            q = [float(round(x)) for x in q]  # given as an integer array if the whole batch is integral
        Q.append([_r32(x) for x in q])
    return Q


def _query_distances(case, Q):
    """Sorted reference distances of every query to the selected atoms."""
    A32, sel, B32, _ = case_arrays(case)
    A = A32.astype(np.float64)
    Q64 = np.array(Q, dtype=np.float64).reshape(-1, 3)
    if case["periodic"]:
        d, _ = ref_periodic(A, Q64, B32.astype(np.float64))
        d = np.where(np.isnan(d), np.inf, d).min(-1)
    else:
        d, _ = ref_open(A, Q64)
    d = np.where(np.isnan(d), np.inf, d)
    d = d[:, sel]
    return np.sort(d, axis=1)


@st.composite
def st_radius(draw, case, dsorted_row, diameter):
    E = case["E"]
    cs = case["cell_size"]
    kind = draw(
        st.sampled_from(["zero", "tiny", "kth", "kth", "kth", "kth", "cs_mult", "big", "big", "huge"])
    )
    finite = dsorted_row[np.isfinite(dsorted_row)]
    if kind == "kth" and len(finite) == 0:
        kind = "cs_mult"
    if kind == "zero":
        r = 0.0
    elif kind == "tiny":
        r = E * draw(_log_uniform(1e-6, 1e-3))
    elif kind == "kth":
        k = draw(st.integers(0, len(finite) - 1))
        f = draw(st.sampled_from([0.5, 0.9, 0.999, 1.0, 1.001, 1.1, 1.5]))
        r = float(finite[k]) * f
        if r == 0.0:
            r = 0.0
    elif kind == "cs_mult":
        r = cs * draw(st.integers(1, 4))
    elif kind == "big":
        r = diameter * draw(st.floats(1.0, 3.0))
    else:
        r = diameter * draw(_log_uniform(3.0, 3000.0))
    return _r32(r)


def _diameter(case):
    A, fin, lo, hi = _bbox(case)
    d = float(np.linalg.norm(hi - lo))
    if case["periodic"]:
        d = float(np.abs(np.array(case["box"], dtype=np.float64)).sum(axis=0).max())
    return d if d > 0 else case["E"]


def st_get_atoms(periodic):
    def strategy(tier):
        @st.composite
        def gen(draw):
            case = draw(st_base(tier, periodic))
            if draw(_chance(50)):
                case["queries"] = []
                case["radii"] = []
                return case
            Q = draw(st_queries(case, tier))
            case["queries"] = Q
            m = len(Q)
            ds = _query_distances(case, Q)
            diam = _diameter(case)
            case["single"] = m == 1 and draw(st.booleans())
            case["scalar_radius"] = draw(st.booleans())
            if case["scalar_radius"] or case["single"]:
                j = draw(st.integers(0, m - 1))
                r = draw(st_radius(case, ds[j], diam))
                if case.get("r_int") and math.isfinite(r):
                    r = float(math.ceil(r))  # passed as a python int (docstring examples)
                case["radii"] = [r] * m
                case["radius_np_scalar"] = draw(st.booleans())
            else:
                case["radii"] = [draw(st_radius(case, ds[j], diam)) for j in range(m)]
            if periodic and not draw(_chance(4)):
                # keep most periodic radii below the smallest box height (multiplicity decidable)
                hmin = float(box_heights(np.array(case["box"], dtype=np.float64)).min())
                f = draw(st.sampled_from([0.3, 0.49, 0.51, 0.7, 0.85]))
                case["radii"] = [r if r < 0.88 * hmin else _r32(f * hmin) for r in case["radii"]]
            case["q_f64"] = draw(st.booleans())
            case["r_f64"] = draw(st.booleans())
            case["q_layout"] = draw(st.sampled_from(LAYOUT_DRAW))
            case["r_strided"] = draw(_chance(4))
            return case

        return gen()

    return strategy


def st_cells(tier):
    @st.composite
    def gen(draw):
        periodic = draw(_chance(3))
        case = draw(st_base(tier, periodic, fine=True))
        Q = draw(st_queries(case, tier))
        case["queries"] = Q
        m = len(Q)
        case["single"] = m == 1 and draw(st.booleans())
        case["scalar_radius"] = draw(st.booleans())
        cr = st.sampled_from([0, 0, 1, 1, 1, 2, 2, 3, 4, 6, 10, 40, 700, 5000])
        if case["scalar_radius"] or case["single"]:
            case["cell_radii"] = [draw(cr)] * m
            case["default_radius"] = draw(st.booleans())
        else:
            case["cell_radii"] = [draw(cr) for _ in range(m)]
        case["q_f64"] = draw(st.booleans())
        case["r_f64"] = draw(st.booleans())
        case["q_layout"] = draw(st.sampled_from(LAYOUT_DRAW))
        case["r_strided"] = draw(_chance(4))
        return case

    return gen()


def st_adjacency(tier):
    @st.composite
    def gen(draw):
        periodic = draw(st.booleans())
        case = draw(st_base(tier, periodic))
        A32, sel, B32, _ = case_arrays(case)
        idx = np.flatnonzero(sel)
        diam = _diameter(case)
        if len(idx) == 0:
            case["threshold"] = _r32(diam)
            return case
        i = int(idx[draw(st.integers(0, len(idx) - 1))])
        ds = _query_distances(case, [[float(x) for x in A32[i]]])
        r = draw(st_radius(case, ds[0], diam))
        if case.get("r_int") and math.isfinite(r):
            r = float(math.ceil(r))
        if periodic and not draw(_chance(4)):
            hmin = float(box_heights(B32.astype(np.float64)).min())
            if r >= 0.88 * hmin or draw(_chance(3)):
                r = _r32(draw(st.sampled_from([0.3, 0.49, 0.51, 0.7, 0.85])) * hmin)
        case["threshold"] = r
        return case

    return gen()


# --------------------------------------------------------------------------
# registration
# --------------------------------------------------------------------------
def _per_case_labels(run):
    """Labels are emitted per query/radius; count each at most once per case."""

    def wrapped(case):
        # NaN / inf / 1e38 inputs make numpy emit RuntimeWarnings inside biotite (box.py); with
        # PYTHONWARNINGS=error in the caller's environment they would surface as exceptions
        with warnings.catch_warnings():
            warnings.simplefilter("ignore", RuntimeWarning)
            o = run(case)
        o.labels = sorted(set(o.labels))
        return o

    wrapped.__name__ = run.__name__
    return wrapped


run_get_atoms = _per_case_labels(run_get_atoms)
run_cells = _per_case_labels(run_cells)
run_adjacency = _per_case_labels(run_adjacency)

# --------------------------------------------------------------------------
# large periodic systems (size dependent code paths in the image replication)
# --------------------------------------------------------------------------
def st_periodic_large(tier):
    sizes = [4097, 4200, 5000, 6500, 3000]
    if tier == "thorough":
        sizes += [8193, 12000, 20000]
    return st.fixed_dictionaries(
        {
            "n": st.sampled_from(sizes),
            "seed": st.integers(0, 2**31 - 1),
            "lengths": st.tuples(st.sampled_from([20.0, 30.0, 45.0]), st.sampled_from([20.0, 25.0, 40.0]), st.sampled_from([20.0, 35.0])),
            "angles": st.sampled_from([[90.0, 90.0, 90.0], [75.0, 100.0, 110.0], [60.0, 60.0, 90.0], [110.0, 80.0, 70.0], [90.0, 90.0, 120.0]]),
            "via": st.sampled_from(["arg", "attr"]),
        }
    )


def run_periodic_large(case):
    import biotite.structure as struc
    from biotite.structure import CellList

    o = Outcome()
    B = box_from_cell(*case["lengths"], *case["angles"])
    if B is None:
        o.invalid = True
        return o
    B32 = np.array(B, dtype=np.float32)
    B64 = B32.astype(np.float64)
    hmin = float(box_heights(B64).min())
    if hmin < 5.0:
        o.invalid = True
        return o
    rng = np.random.default_rng(case["seed"])
    n = case["n"]
    A32 = (rng.uniform(0, 1, (n, 3)) @ B64).astype(np.float32)
    A64 = A32.astype(np.float64)
    r = 0.2 * hmin
    cs = float(np.float32(r * 0.75))
    ortho = case["angles"] == [90.0, 90.0, 90.0]
    o.label("orthorhombic" if ortho else "triclinic", f"n>{4096 if n > 4096 else 0}", "box_" + case["via"])
    if case["via"] == "attr":
        atoms = struc.AtomArray(n)
        atoms.coord = A32.copy()
        atoms.box = B32.copy()
        cl = CellList(atoms, cs, periodic=True)
    else:
        cl = CellList(A32.copy(), cs, periodic=True, box=B32.copy())
    # queries: some atoms themselves, points near faces and corners, points outside the box
    qi = rng.integers(0, n, 6)
    Q = np.concatenate(
        [
            A64[qi],
            np.array([[0.01, 0.5, 0.5], [0.99, 0.99, 0.01], [0.5, 0.0, 1.0], [1.3, -0.4, 0.5], [-0.2, 1.7, 2.2]]) @ B64,
        ]
    ).astype(np.float32)
    got = cl.get_atoms(Q, np.float32(r))
    Q64 = Q.astype(np.float64)
    shifts = np.array([[i, j, k] for i in (-1, 0, 1) for j in (-1, 0, 1) for k in (-1, 0, 1)], dtype=np.float64) @ B64
    # queries may lie outside the box: reduce them first (lattice translation does not change the result)
    frac = Q64 @ np.linalg.inv(B64)
    Qin = (frac - np.floor(frac)) @ B64
    scale = float(np.abs(B64).sum())
    tol = 64 * EPS32 * scale if "EPS32" in globals() else 64 * float(np.finfo(np.float32).eps) * scale
    for qidx in range(len(Q)):
        d = np.min(np.linalg.norm(A64[None, :, :] + shifts[:, None, :] - Qin[qidx][None, None, :], axis=2), axis=0)
        row = np.asarray(got[qidx])
        row = row[row != -1]
        have = set(int(x) for x in row)
        must = set(np.nonzero(d <= r - tol)[0].tolist())
        may = set(np.nonzero(d <= r + tol)[0].tolist())
        o.ambiguous += len(may) - len(must)
        missing = sorted(must - have)[:5]
        extra = sorted(have - may)[:5]
        o.check(not missing, "get_atoms_missing", lambda: f"n={n} query {qidx}: atoms {missing} within r={r:.3f} (min-image) are not returned")
        o.check(not extra, "get_atoms_extra", lambda: f"n={n} query {qidx}: atoms {extra} outside r={r:.3f} are returned")
        o.check(len(have) == len(row), "get_atoms_extra", f"n={n} query {qidx}: duplicate indices for r < half the smallest box height")
    o.mark_nontrivial(not ortho)
    return o


# --------------------------------------------------------------------------
# large non-periodic systems: cells holding hundreds of atoms (growth of the per-cell arrays, long
# worst-case rows), through all three methods
# --------------------------------------------------------------------------
def st_open_large(tier):
    sizes = [300, 800, 1500, 3000, 5000]
    if tier == "thorough":
        sizes += [9000, 20000]
    return st.fixed_dictionaries(
        {
            "n": st.sampled_from(sizes),
            "seed": st.integers(0, 2**31 - 1),
            "E": st.sampled_from([1.0, 30.0, 400.0]),
            "cluster_frac": st.sampled_from([0.0, 0.1, 0.3, 0.6]),
            "grid": st.sampled_from([4, 8, 15]),
            "selection": st.sampled_from(["none", "none", "partial"]),
            "input": st.sampled_from(["f32", "f64", "atoms"]),
        }
    )


def run_open_large(case):
    import biotite.structure as struc
    from biotite.structure import CellList

    o = Outcome()
    rng = np.random.default_rng(case["seed"])
    n, E = case["n"], float(case["E"])
    ncl = int(n * case["cluster_frac"])
    centre = rng.uniform(0.2, 0.8, 3) * E
    A32 = np.concatenate(
        [
            rng.uniform(0, E, (n - ncl, 3)),
            centre + rng.uniform(-0.004, 0.004, (ncl, 3)) * E,  # one tight cluster: far smaller than a cell
        ]
    ).astype(np.float32)
    A32 = A32[rng.permutation(n)]
    A = A32.astype(np.float64)
    sel = np.ones(n, dtype=bool) if case["selection"] == "none" else rng.random(n) < 0.7
    if not sel.any():
        sel[0] = True
    cs = float(np.float32(E / case["grid"]))
    if case["input"] == "atoms":
        arg0 = struc.AtomArray(n)
        arg0.coord = A32.copy()
    else:
        arg0 = A32.astype(np.float64) if case["input"] == "f64" else A32.copy()
    kwargs = {} if case["selection"] == "none" else {"selection": sel.copy()}
    cl = CellList(arg0, cs, **kwargs)
    idx = np.floor((A[sel] - A[sel].min(axis=0)) / cs).astype(np.int64)
    occ = int(np.unique(idx, axis=0, return_counts=True)[1].max())
    o.label(f"n={n}", "in_" + case["input"], "sel_" + case["selection"], "max_cell_len>=100" if occ >= 100 else "max_cell_len<100")

    qi = rng.integers(0, n, 3)
    Q32 = np.concatenate(
        [
            A[qi],
            [centre, A.min(axis=0), A.max(axis=0) + 0.3 * cs, [-0.4 * E, 0.5 * E, 1.2 * E]],
            rng.uniform(0, E, (2, 3)),
        ]
    ).astype(np.float32)
    Q = Q32.astype(np.float64)
    m = len(Q)
    # radii up to two cells: m * 5^3 * occ elements in the worst-case array
    radii = np.array([0.0, 0.004 * E, 0.5 * cs, 1.7 * cs, 0.9 * cs, 2.0 * cs, 1.0 * cs, 0.3 * cs, 1.3 * cs], dtype=np.float32)[:m]
    if m * 125 * 8 * occ > 4 * MAX_ELEMS_SINGLE:
        radii = np.minimum(radii, np.float32(0.99 * cs))
        o.label("radii_capped_one_cell")
    r = radii.astype(np.float64)
    scale = max(float(np.abs(A).max()), float(np.abs(Q).max()), E)
    tol = TOLF * EPS32 * scale
    d, cheb = ref_open(A, Q)
    exact0 = (A[None, :, :] == Q[:, None, :]).all(-1)
    must = ((d < r[:, None] - tol) | exact0) & sel[None, :]
    may = (np.abs(d - r[:, None]) <= tol) & ~exact0 & sel[None, :]
    o.ambiguous += int(may.sum())
    what = f"n={n} get_atoms(cell={cs!r})"
    res = cl.get_atoms(Q32, radii)
    rows = split_index_result(o, res, False, m, n, what)
    if rows is not None:
        check_rows(o, rows, must, may, n, "get_atoms", what)
        check_mask_agrees(o, cl.get_atoms(Q32, radii, as_mask=True), rows, False, m, n, what)
    # cells: superset per axis, nothing unselected, nothing beyond the shell
    crs = np.array([0, 1, 2, 1, 0, 2, 1, 1, 0], dtype=np.int32)[:m]
    if m * 125 * 8 * occ > 4 * MAX_ELEMS_SINGLE:
        crs = np.minimum(crs, 1)
    dist = crs.astype(np.float64) * cs
    what = f"n={n} get_atoms_in_cells(cell={cs!r})"
    res = cl.get_atoms_in_cells(Q32, crs)
    rows = split_index_result(o, res, False, m, n, what)
    if rows is not None:
        for j, row in enumerate(rows):
            got = np.zeros(n, dtype=bool)
            got[row] = True
            miss = (((cheb[j] < dist[j] - tol) | exact0[j]) & sel) & ~got
            o.check(not miss.any(), "cells_superset_per_axis", lambda: f"{what}: query {j}: atoms {np.flatnonzero(miss)[:5].tolist()} within {dist[j]!r} (per axis) are missing")
            o.check(not (got & ~sel).any(), "cells_no_unselected", lambda: f"{what}: query {j}: unselected atoms returned")
            o.check(len(row) == int(got.sum()), "cells_duplicate", lambda: f"{what}: query {j}: indices returned more than once")
            beyond = got & (cheb[j] > (crs[j] + 2) * cs + tol)
            o.check(not beyond.any(), "cells_not_beyond_shell", lambda: f"{what}: query {j}: atoms {np.flatnonzero(beyond)[:5].tolist()} are more than {crs[j]} + 2 cells away on one axis")
        check_mask_agrees(o, cl.get_atoms_in_cells(Q32, crs, as_mask=True), rows, False, m, n, what)
    # adjacency (threshold below the cell size: 27 cells per atom), only while n * 27 * occ stays small
    if n <= 1500 and n * 27 * 8 * occ <= 4 * MAX_ELEMS_SINGLE:
        thr = float(np.float32(0.6 * cs))
        dd = np.zeros((n, n))
        for a in range(3):  # per axis: no (n, n, 3) temporary
            dd += (A[:, a][:, None] - A[:, a][None, :]) ** 2
        dd = np.sqrt(dd)
        pair = sel[:, None] & sel[None, :]
        must_a = ((dd < thr - tol) | np.eye(n, dtype=bool)) & pair
        may_a = (np.abs(dd - thr) <= tol) & pair & ~np.eye(n, dtype=bool)
        M = np.asarray(cl.create_adjacency_matrix(thr))
        what = f"n={n} create_adjacency_matrix(cell={cs!r}, thr={thr!r})"
        if o.check(M.shape == (n, n) and M.dtype == np.bool_, "adjacency_layout", lambda: f"{what}: shape {M.shape} dtype {M.dtype}"):
            o.check(not (must_a & ~M).any(), "adjacency_missing", lambda: f"{what}: pairs {np.argwhere(must_a & ~M)[:5].tolist()} are within the threshold but False")
            o.check(not (M & ~must_a & ~may_a).any(), "adjacency_extra", lambda: f"{what}: pairs {np.argwhere(M & ~must_a & ~may_a)[:5].tolist()} are True but beyond the threshold or unselected")
            o.check(not ((M != M.T) & ~may_a & ~may_a.T).any(), "adjacency_symmetric", lambda: f"{what}: asymmetric outside the tolerance band")
        o.label("adjacency_checked")
    o.mark_nontrivial(occ >= 100)
    return o


run_open_large = _per_case_labels(run_open_large)

SUBS = [
    Sub(
        "get_atoms",
        st_get_atoms(False),
        run_get_atoms,
        quick=2400,
        thorough=96000,
        rule=">= 5 selected atoms in >= 2 cells and a query with a result that is neither empty nor everything",
        clauses="get_atoms returns exactly the atoms with d <= r (index and mask form, selection, queries outside the bounding box)",
    ),
    Sub(
        "get_atoms_periodic",
        st_get_atoms(True),
        run_get_atoms,
        quick=1600,
        thorough=64000,
        rule=">= 5 selected atoms in >= 2 cells and a query with a result that is neither empty nor everything",
        clauses="get_atoms with periodic=True uses the minimum-image distance; multiplicity = number of copies within r",
    ),
    Sub(
        "periodic_large",
        st_periodic_large,
        run_periodic_large,
        quick=32,
        thorough=640,
        rule="3000..6500 atoms (thorough up to 20000) in a triclinic periodic box",
        clauses="periodic get_atoms exact for large atom counts (size dependent code paths)",
    ),
    Sub(
        "open_large",
        st_open_large,
        run_open_large,
        quick=32,
        thorough=640,
        rule="300..5000 atoms (thorough up to 20000), optionally 10-60 % of them in one cluster far smaller than a cell; non-trivial = a cell holding >= 100 atoms",
        clauses="get_atoms, get_atoms_in_cells and create_adjacency_matrix exact for cells holding hundreds of atoms (non-periodic)",
    ),
    Sub(
        "cells",
        st_cells,
        run_cells,
        quick=1200,
        thorough=48000,
        rule=">= 5 selected atoms in >= 2 cells; >= 1 atom required and not every selected atom returned",
        clauses="get_atoms_in_cells is a superset of the atoms within cell_radius*cell_size and never returns unselected atoms",
    ),
    Sub(
        "adjacency",
        st_adjacency,
        run_adjacency,
        quick=1200,
        thorough=48000,
        rule=">= 5 selected atoms in >= 2 cells; both adjacent and non-adjacent pairs",
        clauses="create_adjacency_matrix equals the thresholded distance matrix and is symmetric outside the ambiguous band",
    ),
]


def _is_unexpected(clause):
    return clause == "unexpected_exception"


# Matched on the input class (flag of the case), the clause and the exception type - not on the wording
# of the message, which is NumPy's in both cases.  The bracketed suffixes are written by this module
# (_call_nocap / build) and pin the call that failed.
FINDINGS = {
    "celllist_length_int_overflow": lambda sub, case, clause, message: (
        _is_unexpected(clause)
        and bool(case.get("nocap"))
        and message.startswith("ValueError")
        and message.endswith("[sandboxed call, resource cap lifted]")
    ),
    "selection_not_contiguous": lambda sub, case, clause, message: (
        _is_unexpected(clause)
        and bool(case.get("sel_strided"))
        and message.startswith("ValueError")
        and message.endswith("[CellList constructor, strided selection]")
    ),
}
