"""
C15  Geometry is rigid-motion invariant; periodic helpers act by lattice vectors.

All oracles are evaluated in float64 on exactly the float32 values biotite
receives (``biotite.structure.coord()`` casts every ndarray to float32), so the
rounding of the *inputs* never enters a comparison.  Every tolerance below is
``C * eps32 * conditioning * magnitude`` with the conditioning factor computed
from the case (``1/sin(angle)`` for arccos/atan2 based quantities, the condition
number of the box matrix for everything that goes through fractional
coordinates).  Elements whose conditioning is outside the stated band (bond
angle with sin < 1e-2, coincident points) are not decided (counted as
``ambiguous``); they are still executed, so an exception there is a violation.

Sub-checks
  measure     textbook distance / angle / dihedral / displacement / centroid,
              rigid-motion invariance, index_* == plain variants (no box)
  periodic    displacement / distance / angle / dihedral with a box: lattice
              vector difference, shortest image, per-model boxes, index_* with
              periodic=True, box attribute vs box argument
  boxconv     vectors_from_unitcell / unitcell_from_vectors, box_volume,
              is_orthogonal, coord_to_fraction / fraction_to_coord,
              move_inside_box
  repeat      repeat_box_coord / repeat_box
  remove_pbc  remove_pbc / remove_pbc_from_coord on wrapped molecules
  transform   translate / rotate / rotate_centered / rotate_about_axis /
              align_vectors / orient_principal_components
  backbone    dihedral_backbone == textbook phi / psi / omega
"""

import itertools
import math

import numpy as np
from hypothesis import strategies as st

from vlib import Outcome, Sub, findings

PROPERTY = "C15"
RULE = (
    "coordinates of shapes (3,), (n,3), (m,n,3) with extents 1e-2..1e3 (float32 values; measure: also 1e-9..1e-4), "
    "rotations from unit quaternions, boxes from unit-cell parameters (orthorhombic, cubic, "
    "monoclinic, hexagonal, rhombohedral, triclinic with heights >= 0.2 x length, strongly skewed "
    "with angles 15..165 degrees and heights >= 0.05 x length; optionally rotated as a whole, box "
    "vectors optionally in another order / one of them reversed = left-handed boxes; per-model "
    "boxes for stacks), points placed by fractional coordinate + integer "
    "lattice shift in -2..2, molecules = paths / trees / rings with bonds < quarter of the smallest "
    "box height and an independent lattice shift per atom.  Non-trivial = (triclinic box or >= 2 "
    "models) and at least one pair whose minimum image is not the plain difference (periodic "
    "sub-checks); for the non-periodic ones the rule is stated per sub-check"
)

EPS32 = float(np.finfo(np.float32).eps)
HALF_PI = math.pi / 2
F1 = "C15-F1"
# float32 squares of lengths below ~1e-15 leave the normal range (underflow): distances
# get this absolute floor, directions of shorter vectors are not decided
TINY = 1e-15

_SHIFTS = np.array(list(itertools.product(range(-2, 3), repeat=3)), dtype=float)  # 5^3 images


# --------------------------------------------------------------------------
# float64 reference formulas
# --------------------------------------------------------------------------
def rot_from_quat(q):
    """Proper rotation matrix of a (not necessarily normalised) quaternion."""
    if q is None:
        return np.eye(3)
    q = np.asarray(q, dtype=float)
    n = float(np.linalg.norm(q))
    if n < 1e-3:
        return np.eye(3)
    w, x, y, z = q / n
    return np.array(
        [
            [1 - 2 * (y * y + z * z), 2 * (x * y - z * w), 2 * (x * z + y * w)],
            [2 * (x * y + z * w), 1 - 2 * (x * x + z * z), 2 * (y * z - x * w)],
            [2 * (x * z - y * w), 2 * (y * z + x * w), 1 - 2 * (x * x + y * y)],
        ]
    )


def _norm(v):
    return np.sqrt((v * v).sum(axis=-1))


def _dot(a, b):
    return (a * b).sum(axis=-1)


def ref_distance(a, b):
    return _norm(b - a)


def ref_angle_from_vectors(v1, v2):
    """angle between v1 and v2 (atan2 of |cross| and dot), plus sin(angle)."""
    c = np.cross(v1, v2)
    with np.errstate(all="ignore"):
        ang = np.arctan2(_norm(c), _dot(v1, v2))
        sin = _norm(c) / (_norm(v1) * _norm(v2))
    return ang, sin


def ref_dihedral_from_vectors(b1, b2, b3):
    """IUPAC dihedral of the bond vectors b1 = 2-1, b2 = 3-2, b3 = 4-3:
    atan2(|b2| b1.(b2 x b3), (b1 x b2).(b2 x b3)); positive = clockwise looking along b2."""
    n1 = np.cross(b1, b2)
    n2 = np.cross(b2, b3)
    with np.errstate(all="ignore"):
        y = _norm(b2) * _dot(b1, n2)
        x = _dot(n1, n2)
        dih = np.arctan2(y, x)
        s1 = _norm(n1) / (_norm(b1) * _norm(b2))
        s2 = _norm(n2) / (_norm(b2) * _norm(b3))
    return dih, s1, s2


def angle_tol(sin, v1n, v2n, vec_err=0.0, c=16.0):
    """Tolerance for an angle computed as arccos(dot of normalised float32 vectors).

    c*eps32/sin: rounding of the dot product seen through d(arccos)/dx = 1/sin;
    vec_err/|v|: direction change of a vector whose absolute error is vec_err.
    Not decided (inf) when sin < 1e-2, a vector has (nearly) zero length or is so
    short against vec_err that the bound exceeds 0.1 rad."""
    with np.errstate(all="ignore"):
        tol = c * EPS32 / sin + 2.0 * vec_err * (1.0 / v1n + 1.0 / v2n)
    bad = ~(sin >= 1e-2) | ~(v1n > TINY) | ~(v2n > TINY) | ~(tol < 0.1)
    return np.where(bad, np.inf, tol)


def dihedral_tol(s1, s2, b1n, b2n, b3n, vec_err=0.0, c=32.0):
    with np.errstate(all="ignore"):
        tol = c * EPS32 / (s1 * s2) + 2.0 * vec_err * (
            (1.0 / b1n + 1.0 / b2n) / s1 + (1.0 / b2n + 1.0 / b3n) / s2
        )
    bad = ~(s1 >= 1e-2) | ~(s2 >= 1e-2) | ~(b1n > TINY) | ~(b2n > TINY) | ~(b3n > TINY) | ~(tol < 0.1)
    return np.where(bad, np.inf, tol)


def box_from_params(la, lb, lc, al, be, ga):
    """Textbook lower-triangular box (a along x, b in the xy-plane); None if the
    angles do not span a volume."""
    ca, cb, cg = (0.0 if a == HALF_PI else math.cos(a) for a in (al, be, ga))
    sg = math.sin(ga)
    if sg <= 0:
        return None
    cy = (ca - cb * cg) / sg
    cz2 = 1.0 - cb * cb - cy * cy
    if cz2 <= 1e-9:
        return None
    return np.array(
        [[la, 0.0, 0.0], [lb * cg, lb * sg, 0.0], [lc * cb, lc * cy, lc * math.sqrt(cz2)]]
    )


def heights(box):
    a, b, c = box
    vol = abs(float(np.linalg.det(box)))
    return np.array(
        [
            vol / np.linalg.norm(np.cross(b, c)),
            vol / np.linalg.norm(np.cross(a, c)),
            vol / np.linalg.norm(np.cross(a, b)),
        ]
    )


def cell_params(cell):
    """Plain-data cell -> (la, lb, lc, alpha, beta, gamma), box64 (unrotated), kind label.

    The angle deviations from 90 degrees are shrunk (x0.7 repeatedly) until the
    cell has positive volume and every height is >= 0.2 x the vector length
    (0.05 x for the kind "skew")."""
    s = 10.0 ** cell["exp"]
    r = cell["rel"]
    u = cell["ang"]
    kind = cell["kind"]
    la, lb, lc = s * r[0], s * r[1], s * r[2]
    dev = [0.0, 0.0, 0.0]
    if kind == "cubic":
        lb = lc = la
    elif kind == "mono":
        dev = [0.0, 50.0 * u[1], 0.0]
    elif kind == "hex":
        lb = la
        dev = [0.0, 0.0, 30.0]
    elif kind == "rhombo":
        lb = lc = la
        dev = [28.0 * u[0]] * 3
    elif kind == "tri":
        dev = [50.0 * u[0], 50.0 * u[1], 50.0 * u[2]]
    elif kind == "skew":  # strongly skewed: angles 15..165 degrees, flat cells allowed
        dev = [75.0 * u[0], 75.0 * u[1], 75.0 * u[2]]
    min_height = 0.05 if kind == "skew" else 0.2
    box = None
    angles = None
    for _ in range(60):
        angles = [HALF_PI if d == 0 else math.radians(90.0 + d) for d in dev]
        box = box_from_params(la, lb, lc, *angles)
        if box is not None and float(np.min(heights(box) / np.array([la, lb, lc]))) >= min_height:
            break
        dev = [d * 0.7 for d in dev]
    else:  # pragma: no cover - 0.7**60 is 0
        angles = [HALF_PI] * 3
        box = box_from_params(la, lb, lc, *angles)
    ortho = all(a == HALF_PI for a in angles)
    return (la, lb, lc, angles[0], angles[1], angles[2]), box, ortho


def _params_of(box):
    """Textbook cell parameters of arbitrary box vectors (float64)."""
    a, b, c = box

    def ang(x, y):
        return math.atan2(float(np.linalg.norm(np.cross(x, y))), float(np.dot(x, y)))

    return (float(np.linalg.norm(a)), float(np.linalg.norm(b)), float(np.linalg.norm(c)), ang(b, c), ang(a, c), ang(a, b))


class Box:
    """One box as biotite receives it (dtype-rounded) with its float64 view."""

    def __init__(self, cell, quat, dtype, perm=None):
        self.params, raw, self.ortho = cell_params(cell)
        self.kind = cell["kind"]
        self.rotated = quat is not None and float(np.linalg.norm(quat)) >= 1e-3 and list(quat[1:]) != [0, 0, 0]
        raw = raw @ rot_from_quat(quat).T
        self.permuted = self.left_handed = False
        if perm is not None:
            # the same lattice given by other box vectors: rows in another order and / or one
            # vector reversed (a left-handed box when the parity is odd)
            order = list(perm["order"])
            raw = raw[order]
            if perm["flip"] is not None:
                raw[perm["flip"]] = -raw[perm["flip"]]
            self.permuted = order != [0, 1, 2] or perm["flip"] is not None
            self.left_handed = float(np.linalg.det(raw)) < 0
            if self.permuted:
                self.params = _params_of(raw)
        self.given = raw.astype(np.float32 if dtype == "f4" else np.float64)
        self.b = self.given.astype(np.float64)
        self.inv = np.linalg.inv(self.b)
        self.h = heights(self.b)
        self.hmin = float(self.h.min())
        self.L = float(np.max(np.linalg.norm(self.b, axis=1)))
        self.cond = float(np.linalg.cond(self.b))

    def tol(self, coord_mag, c=32.0):
        """Absolute tolerance of a float32 result that went through fractional space."""
        return c * EPS32 * self.cond * (coord_mag + self.L)

    def min_image(self, diff):
        """Brute-force shortest image of diff over 5^3 lattice translates of the
        fraction-rounded vector: (vector, norm)."""
        f = diff @ self.inv
        f0 = f - np.round(f)
        cand = (f0[..., None, :] + _SHIFTS) @ self.b
        n = _norm(cand)
        i = np.argmin(n, axis=-1)
        vec = np.take_along_axis(cand, i[..., None, None], axis=-2)[..., 0, :]
        return vec, np.take_along_axis(n, i[..., None], axis=-1)[..., 0]

    def lattice(self, vec):
        """Nearest lattice point of vec: (integer coefficients, Cartesian residual norm)."""
        k = np.round(vec @ self.inv)
        return k, _norm(vec - k @ self.b)

    def outside(self, coord):
        """Cartesian distance by which coord lies outside 0 <= fraction <= 1."""
        f = coord @ self.inv
        return np.max(np.maximum(np.maximum(-f, f - 1.0), 0.0) * self.h, axis=-1)


def _cmp(o, got, want, tol, clause, what, wrap=False, soft=None):
    """|got - want| <= tol elementwise; elements with tol = inf or non-finite
    reference are not decided.  ``soft`` (<= tol) is the bound an evaluation in the
    precision of the *arguments* would meet: elements between soft and tol are
    counted as ambiguous (biotite's working precision is float32 by design)."""
    got = np.asarray(got, dtype=float)
    want = np.asarray(want, dtype=float)
    if got.shape != want.shape:
        o.fail(clause, f"{what}: result shape {got.shape}, expected {want.shape}")
        return False
    tol = np.broadcast_to(np.asarray(tol, dtype=float), want.shape)
    with np.errstate(all="ignore"):
        d = got - want
        if wrap:
            d = (d + math.pi) % (2 * math.pi) - math.pi
        decided = np.isfinite(tol) & np.isfinite(want)
        bad = decided & ~(np.abs(d) <= tol)
        if soft is not None:
            soft = np.broadcast_to(np.asarray(soft, dtype=float), want.shape)
            o.ambiguous += int((decided & ~bad & ~(np.abs(d) <= soft)).sum())
    o.ambiguous += int((~decided).sum())
    if bad.any():
        i = tuple(int(x) for x in np.argwhere(bad)[0])
        o.fail(clause, f"{what}: got {got[i]!r}, want {want[i]!r}, tol {tol[i]:.3g} at index {i}")
        return False
    return True


# --------------------------------------------------------------------------
# strategies: shared pieces
# --------------------------------------------------------------------------
def st_unit(lo=-1.0, hi=1.0):
    return st.floats(lo, hi, allow_nan=False, allow_infinity=False, width=32)


def st_vec(k, lo=-1.0, hi=1.0):
    return st.lists(st_unit(lo, hi), min_size=k, max_size=k)


def st_quat(none_ok=True):
    q = st_vec(4)
    return st.one_of(st.none(), q, q) if none_ok else q


_KINDS = ["ortho", "ortho", "cubic", "mono", "hex", "rhombo", "tri", "tri", "tri", "skew"]


@st.composite
def st_cell(draw, kinds=None):
    return {
        "kind": draw(st.sampled_from(kinds or _KINDS)),
        "exp": draw(st.floats(-2.0, 2.0, allow_nan=False)),
        "rel": draw(st.lists(st.floats(1.0, 8.0, allow_nan=False), min_size=3, max_size=3)),
        "ang": draw(st_vec(3)),
    }


def _boxes(case):
    dtype = case["box_dtype"]
    if case.get("container") == "atoms_box":
        dtype = "f4"  # the box attribute of an AtomArray is always float32
    return [Box(c, case["box_rot"], dtype, case.get("box_perm")) for c in case["cells"]]


@st.composite
def st_box_perm(draw):
    """None (3 of 4) or another choice of box vectors for the same lattice."""
    if draw(st.integers(0, 3)) != 3:
        return None
    return {"order": draw(st.permutations([0, 1, 2])), "flip": draw(st.sampled_from([None, None, 0, 1, 2]))}


def _box_labels(o, boxes):
    if any(b.permuted for b in boxes):
        o.label("box_vectors_permuted_or_reversed")
    if any(b.left_handed for b in boxes):
        o.label("left_handed_box")
    if any(b.kind == "skew" for b in boxes):
        o.label("skewed_cell")


def _atoms(coord32, box=None, bonds=None):
    """AtomArray for (n,3), AtomArrayStack for (m,n,3)."""
    import biotite.structure as struc

    if coord32.ndim == 2:
        a = struc.AtomArray(coord32.shape[0])
    else:
        a = struc.AtomArrayStack(coord32.shape[0], coord32.shape[1])
    a.coord = coord32
    n = coord32.shape[-2]
    a.chain_id[:] = "A"
    a.res_id[:] = np.arange(n) // 3 + 1
    a.res_name[:] = "LIG"
    a.atom_name[:] = [f"C{i}" for i in range(n)]
    a.element[:] = "C"
    if box is not None:
        a.box = box
    if bonds is not None:
        arr = np.array([[i, j, 1] for i, j in bonds], dtype=np.uint32).reshape(-1, 3)
        a.bonds = struc.BondList(n, arr)
    return a


# --------------------------------------------------------------------------
# measure: textbook formulas, rigid-motion invariance, index variants
# --------------------------------------------------------------------------
def st_measure(tier):
    big = tier == "thorough"

    @st.composite
    def gen(draw):
        m = draw(st.integers(1, 3))
        n = draw(st.integers(4, 9 if big else 6))
        # length unit: extents 1e-2..1e3, and (one case in five) the same geometry expressed in a
        # much smaller unit (extents 1e-9..1e-4: all vectors far below any absolute cutoff)
        # (one_of() over equal strategies does not weight them: the choice is drawn as an integer)
        small_unit = draw(st.integers(0, 4)) == 4
        ranks = draw(st.lists(st.integers(1, 3), min_size=4, max_size=4))
        if draw(st.integers(0, 9)) == 9:
            ranks = [ranks[0]] * 4  # all arguments of the same rank
        return {
            "exp": draw(st.floats(-9.0, -4.0, allow_nan=False) if small_unit else st.floats(-2.0, 3.0, allow_nan=False)),
            "m": m,
            "n": n,
            "pts": draw(st_vec(m * n * 3)),
            "ranks": ranks,
            "quat": draw(st_quat(none_ok=False)),
            "trans": draw(st_vec(3, -2.0, 2.0)),
            "idx": draw(st.lists(st.lists(st.integers(0, 8), min_size=4, max_size=4), min_size=1, max_size=5)),
            "container": draw(st.sampled_from(["ndarray", "ndarray64", "atoms"])),
            "degenerate": draw(st.sampled_from([None] * 8 + ["coincident", "collinear"])),
        }

    return gen()


def _pick(pool, j, rank):
    a = np.roll(pool, -j, axis=1)
    if rank == 3:
        return a
    if rank == 2:
        return a[0]
    return a[0, 0]


def _wrap_container(x, container):
    import biotite.structure as struc

    if container == "ndarray":
        return x
    if container == "ndarray64":
        return x.astype(np.float64)
    if x.ndim == 1:
        return struc.Atom(x)
    return _atoms(x)


def _measure_all(args):
    """biotite results for the four argument arrays."""
    import biotite.structure as struc

    a, b, c, d = args
    with np.errstate(all="ignore"):
        return {
            "disp": struc.displacement(a, b),
            "dist": struc.distance(a, b),
            "angle": struc.angle(a, b, c),
            "dihedral": struc.dihedral(a, b, c, d),
        }


def _measure_ref(args64):
    a, b, c, d = args64
    ang, sin = ref_angle_from_vectors(a - b, c - b)
    dih, s1, s2 = ref_dihedral_from_vectors(b - a, c - b, d - c)
    bshape = np.broadcast(a, b, c, d).shape
    return {
        "disp": np.broadcast_to(b - a, np.broadcast(a, b).shape),
        "dist": ref_distance(a, b),
        "angle": ang,
        "angle_tol": (sin, _norm(a - b), _norm(c - b)),
        "dihedral": np.broadcast_to(dih, bshape[:-1]),
        "dihedral_tol": (s1, s2, _norm(b - a), _norm(c - b), _norm(d - c)),
    }


def run_measure(case):
    import biotite.structure as struc

    o = Outcome()
    m, n = case["m"], case["n"]
    scale = 10.0 ** case["exp"]
    pool = np.array(case["pts"], dtype=float).reshape(m, n, 3) * scale
    if case["degenerate"] == "coincident":
        pool[:, 1] = pool[:, 0]
    elif case["degenerate"] == "collinear":
        pool[:, 2] = 2 * pool[:, 1] - pool[:, 0]
    p32 = pool.astype(np.float32)
    p = p32.astype(np.float64)
    rot = rot_from_quat(case["quat"])
    t = np.array(case["trans"], dtype=float) * scale
    q32 = (p @ rot.T + t).astype(np.float32)
    q = q32.astype(np.float64)
    ranks = case["ranks"]
    cont = case["container"]
    o.label(f"ranks={''.join(map(str, sorted(ranks)))}", cont, f"m={m}")
    if case["exp"] < -3.5:
        o.label("small_length_unit")
    if case["degenerate"]:
        o.label(case["degenerate"])

    def args(pool32, wrap=True):
        out = [_pick(pool32, j, r) for j, r in enumerate(ranks)]
        return [_wrap_container(x, cont) for x in out] if wrap else out

    got = _measure_all(args(p32))
    ref = _measure_ref([x.astype(np.float64) for x in args(p32, wrap=False)])

    # textbook definitions (same float32 inputs: only biotite's own rounding)
    _cmp(o, got["disp"], ref["disp"], 2 * EPS32 * np.abs(ref["disp"]) + TINY, "displacement_is_difference", "displacement(a,b)")
    _cmp(o, got["dist"], ref["dist"], 8 * EPS32 * ref["dist"] + TINY, "distance_textbook", "distance(a,b)")
    a_tol = angle_tol(*ref["angle_tol"])
    _cmp(o, got["angle"], ref["angle"], a_tol, "angle_textbook", "angle(a,b,c)")
    d_tol = dihedral_tol(*ref["dihedral_tol"])
    _cmp(o, got["dihedral"], ref["dihedral"], d_tol, "dihedral_textbook_iupac_sign", "dihedral(a,b,c,d)", wrap=True)
    decided = bool(np.isfinite(np.broadcast_to(d_tol, ref["dihedral"].shape)).any())

    # rigid motion of the whole system: x -> R x + t (rounded to float32 again:
    # every moved coordinate carries an absolute error <= eps32/2 * magnitude)
    smax = float(max(np.abs(p).max(), np.abs(q).max()))
    e = 2.0 * math.sqrt(3.0) * 0.5 * EPS32 * smax
    got2 = _measure_all(args(q32))
    ref2 = _measure_ref([x.astype(np.float64) for x in args(q32, wrap=False)])
    _cmp(o, got2["dist"], got["dist"], e + 16 * EPS32 * ref["dist"], "distance_rigid_invariant", "distance after R x + t")
    want_disp = np.asarray(got["disp"], dtype=float) @ rot.T
    _cmp(o, got2["disp"], want_disp, e + 8 * EPS32 * np.abs(want_disp).max(initial=0.0), "displacement_rigid_equivariant", "displacement after R x + t")
    sin, v1n, v2n = ref["angle_tol"]
    ia_tol = np.minimum(angle_tol(sin, v1n, v2n, vec_err=e, c=32.0), angle_tol(*ref2["angle_tol"], vec_err=e, c=32.0))
    ia_tol = np.where(np.isfinite(a_tol) & np.isfinite(angle_tol(*ref2["angle_tol"])), ia_tol, np.inf)
    _cmp(o, got2["angle"], got["angle"], ia_tol, "angle_rigid_invariant", "angle after R x + t")
    id_tol = dihedral_tol(*ref["dihedral_tol"], vec_err=e, c=64.0)
    id_tol = np.where(np.isfinite(d_tol) & np.isfinite(dihedral_tol(*ref2["dihedral_tol"])), id_tol, np.inf)
    _cmp(o, got2["dihedral"], got["dihedral"], id_tol, "dihedral_rigid_invariant", "dihedral after R x + t", wrap=True)

    # centroid: mean over the atom axis, equivariant
    for rank in (2, 3):
        x32 = p32 if rank == 3 else p32[0]
        y32 = q32 if rank == 3 else q32[0]
        cen = struc.centroid(_wrap_container(x32, cont))
        want = x32.astype(np.float64).mean(axis=-2)
        _cmp(o, cen, want, 4 * n * EPS32 * np.abs(x32).max(initial=0.0) + TINY, "centroid_is_mean", f"centroid rank {rank}")
        cen2 = struc.centroid(_wrap_container(y32, cont))
        _cmp(o, cen2, np.asarray(cen, dtype=float) @ rot.T + t, e + 8 * n * EPS32 * smax, "centroid_rigid_equivariant", f"centroid rank {rank}")

    # index variants == plain variants
    idx = np.array(case["idx"], dtype=int) % n
    src32 = p32 if ranks[0] == 3 else p32[0]
    src = _wrap_container(src32, cont)
    cols = [src32[..., idx[:, k], :] for k in range(4)]
    with np.errstate(all="ignore"):
        plain = {
            "disp": struc.displacement(cols[0], cols[1]),
            "dist": struc.distance(cols[0], cols[1]),
            "angle": struc.angle(cols[0], cols[1], cols[2]),
            "dihedral": struc.dihedral(*cols),
        }
        indexed = {
            "disp": struc.index_displacement(src, idx[:, :2]),
            "dist": struc.index_distance(src, idx[:, :2]),
            "angle": struc.index_angle(src, idx[:, :3]),
            "dihedral": struc.index_dihedral(src, idx),
        }
    c64 = [c.astype(np.float64) for c in cols]
    r = _measure_ref(c64)
    _cmp(o, indexed["disp"], plain["disp"], 2 * EPS32 * np.abs(r["disp"]) + TINY, "index_equals_plain", "index_displacement")
    _cmp(o, indexed["dist"], plain["dist"], 4 * EPS32 * r["dist"] + TINY, "index_equals_plain", "index_distance")
    _cmp(o, indexed["angle"], plain["angle"], angle_tol(*r["angle_tol"]), "index_equals_plain", "index_angle")
    _cmp(o, indexed["dihedral"], plain["dihedral"], dihedral_tol(*r["dihedral_tol"]), "index_equals_plain", "index_dihedral", wrap=True)
    _cmp(o, indexed["dist"], r["dist"], 8 * EPS32 * r["dist"] + TINY, "distance_textbook", "index_distance vs formula")
    _cmp(o, indexed["dihedral"], r["dihedral"], dihedral_tol(*r["dihedral_tol"]), "dihedral_textbook_iupac_sign", "index_dihedral vs formula", wrap=True)
    # index tuples of the wrong width (documented shape (k,2)): an error, whose type no docstring names
    o.expect_raises(Exception, lambda: struc.index_distance(src, idx[:, :3]), "index_shape_rejected", "index_distance with (k,3) indices")

    if decided:
        o.label("dihedral_decided")
    nontrivial_rot = abs(float(np.trace(rot)) - 3.0) > 1e-3
    o.mark_nontrivial(decided and nontrivial_rot and len(set(ranks)) >= 2)
    return o


# --------------------------------------------------------------------------
# periodic: displacement / distance / angle / dihedral with a box
# --------------------------------------------------------------------------
def st_periodic(tier):
    big = tier == "thorough"

    @st.composite
    def gen(draw):
        m = draw(st.sampled_from([1, 1, 2, 3]))
        n = draw(st.integers(2, 8 if big else 5))
        shared = m > 1 and draw(st.integers(0, 2)) == 0
        nb = 1 if (m == 1 or shared) else m
        return {
            "cells": draw(st.lists(st_cell(), min_size=nb, max_size=nb)),
            "box_rot": draw(st_quat()),
            "box_perm": draw(st_box_perm()),
            "box_dtype": draw(st.sampled_from(["f4", "f4", "f8"])),
            "m": m,
            "n": n,
            "shared_box": shared,
            # all atoms within +-near/2 (in fractions) of atom 0: pairs in the range where the
            # shortest image of a triclinic box is unique
            "near": draw(st.sampled_from([None, None, None, 0.4, 0.1])),
            "frac": draw(st_vec(m * n * 3, 0.0, 1.0)),
            "shift": draw(st.lists(st.integers(-2, 2), min_size=m * n * 3, max_size=m * n * 3)),
            "idx": draw(st.lists(st.lists(st.integers(0, 7), min_size=4, max_size=4), min_size=1, max_size=5)),
            "container": draw(st.sampled_from(["ndarray", "atoms_box", "atoms_override"])),
            "tie": draw(st.sampled_from([None] * 5 + [0, 1, 2])),
        }

    return gen()


def _periodic_coords(case, boxes):
    """(m,n,3) float32 coordinates: (fraction + integer shift) @ box of the model."""
    m, n = case["m"], case["n"]
    frac = np.array(case["frac"], dtype=float).reshape(m, n, 3)
    if case.get("near") is not None:
        frac[:, 1:] = frac[:, :1] + (frac[:, 1:] - 0.5) * case["near"]
    if case.get("tie") is not None and n >= 2:
        frac[:, 1] = frac[:, 0]
        frac[:, 1, case["tie"]] += 0.5
    shift = np.array(case["shift"], dtype=float).reshape(m, n, 3)
    out = np.empty((m, n, 3))
    for j in range(m):
        b = boxes[j if len(boxes) > 1 else 0]
        out[j] = (frac[j] + shift[j]) @ b.b
    return out.astype(np.float32)


def _given_box(case, boxes):
    if len(boxes) == 1:
        return boxes[0].given
    return np.stack([b.given for b in boxes])


def run_periodic(case):
    import biotite.structure as struc

    o = Outcome()
    boxes = _boxes(case)
    m, n = case["m"], case["n"]
    c32 = _periodic_coords(case, boxes)
    stack = m > 1
    coords = c32 if stack else c32[0]
    box = _given_box(case, boxes)
    idx = np.array(case["idx"], dtype=int) % n
    cols32 = [coords[..., idx[:, k], :] for k in range(4)]
    cont = case["container"]

    if isinstance(box, np.ndarray) and (n + m + len(case["idx"])) % 2 == 0:
        # history: the same box array object was used for an earlier periodic call with other
        # values and then updated in place (successive frames): no state may survive
        o.label("box_object_reused")
        real_box = box.copy()
        box[...] = real_box * 1.75
        try:
            with np.errstate(all="ignore"):
                struc.displacement(cols32[0], cols32[1], box)
                struc.distance(cols32[0], cols32[1], box)
        finally:
            box[...] = real_box
    with np.errstate(all="ignore"):
        disp = np.asarray(struc.displacement(cols32[0], cols32[1], box), dtype=float)
        disp23 = np.asarray(struc.displacement(cols32[1], cols32[2], box), dtype=float)
        disp34 = np.asarray(struc.displacement(cols32[2], cols32[3], box), dtype=float)
        dist = struc.distance(cols32[0], cols32[1], box)
        ang = struc.angle(cols32[0], cols32[1], cols32[2], box)
        dih = struc.dihedral(*cols32, box)
    if disp.shape != cols32[0].shape:
        o.fail("displacement_shape", f"displacement shape {disp.shape}, expected {cols32[0].shape}")
        return o

    any_triclinic = False
    any_wrapped = False
    tri_pairs = tri_decided = 0
    # per model, for the comparisons between different entry points further down: tolerance
    # through fractional space, tolerance of |displacement(1,2)| (inf where the shortest image
    # is not stated), uniqueness of the image vector, angle / dihedral tolerances
    per_model = {"tol": [], "ntol": [], "unique": [], "a_tol": [], "d_tol": []}
    for j in range(m):
        b = boxes[j if len(boxes) > 1 else 0]
        any_triclinic |= not b.ortho
        x = [(c[j] if stack else c).astype(np.float64) for c in cols32]
        smag = float(np.abs(c32[j]).max())
        tol = b.tol(smag)

        def one(dj, x0, x1, what):
            nonlocal any_wrapped, tri_pairs, tri_decided
            plain = x1 - x0
            k, res = b.lattice(dj - plain)
            _cmp(o, res, np.zeros_like(res), tol, "displacement_differs_by_lattice_vector", f"{what} model {j}")
            mi_vec, mi_norm = b.min_image(plain)
            got_norm = _norm(dj)
            if b.ortho:
                ntol = np.full(mi_norm.shape, tol)
            else:
                # stated only where the shortest image is unique: below half the smallest height
                ntol = np.where(mi_norm < 0.5 * b.hmin - tol, tol, np.inf)
                tri_pairs += mi_norm.size
                tri_decided += int(np.isfinite(ntol).sum())
            _cmp(o, got_norm, mi_norm, ntol, "displacement_is_shortest_image", f"|{what}| model {j}")
            unique = mi_norm < 0.45 * b.hmin
            _cmp(o, dj, mi_vec, np.where(unique, tol, np.inf)[..., None] * np.ones(3), "displacement_is_shortest_image", f"{what} vector model {j}")
            if (np.abs(b.lattice(mi_vec - plain)[0]).sum(axis=-1) > 0).any():
                any_wrapped = True
            return mi_vec, mi_norm, unique, ntol

        dj = disp[j] if stack else disp
        v12, n12, u12, nt12 = one(dj, x[0], x[1], "displacement(1,2)")
        v23, n23, u23, _ = one(disp23[j] if stack else disp23, x[1], x[2], "displacement(2,3)")
        v34, n34, u34, _ = one(disp34[j] if stack else disp34, x[2], x[3], "displacement(3,4)")
        _cmp(o, (dist[j] if stack else dist), _norm(dj), 8 * EPS32 * _norm(dj) + TINY, "distance_is_norm_of_displacement", f"distance(box) model {j}")
        # angle at atom 2 between the images of 1 and 3; dihedral over the image bond vectors
        a_ref, sin = ref_angle_from_vectors(-v12, v23)
        a_tol = np.where(u12 & u23, angle_tol(sin, n12, n23, vec_err=tol), np.inf)
        _cmp(o, (ang[j] if stack else ang), a_ref, a_tol, "angle_periodic_textbook", f"angle(box) model {j}")
        d_ref, s1, s2 = ref_dihedral_from_vectors(v12, v23, v34)
        d_tol = np.where(u12 & u23 & u34, dihedral_tol(s1, s2, n12, n23, n34, vec_err=tol), np.inf)
        _cmp(o, (dih[j] if stack else dih), d_ref, d_tol, "dihedral_periodic_textbook", f"dihedral(box) model {j}", wrap=True)
        per_model["tol"].append(np.full(n12.shape, tol))
        per_model["ntol"].append(nt12)
        per_model["unique"].append(u12)
        per_model["a_tol"].append(a_tol)
        per_model["d_tol"].append(d_tol)
    pm = {key: (np.stack(val) if stack else val[0]) for key, val in per_model.items()}

    def same_image(got, ref, what, clause, sl=()):
        """Two evaluations of the same periodic displacement: they differ by a lattice vector of
        the model's box (which image is taken is fixed only where it is unique); equal vectors
        where the shortest image is unique."""
        got = np.asarray(got, dtype=float)
        if not o.check(got.shape == ref.shape, clause, f"{what}: shape {got.shape}, expected {ref.shape}"):
            return
        for j in range(m):
            b = boxes[j if len(boxes) > 1 else 0]
            g, r_ = (got[j], ref[j]) if stack else (got, ref)
            t2 = 2 * (pm["tol"][j] if stack else pm["tol"])[sl]
            un = (pm["unique"][j] if stack else pm["unique"])[sl]
            _, res = b.lattice(g - r_)
            _cmp(o, res, np.zeros_like(res), t2, clause, f"{what} model {j}: not a lattice vector away from displacement()")
            _cmp(o, g, r_, np.where(un, t2, np.inf)[..., None] * np.ones(3), clause, f"{what} model {j}")

    # single atoms: shape (3,) against the rows above
    with np.errstate(all="ignore"):
        if not stack:
            for r in range(min(2, len(idx))):
                d1 = struc.displacement(cols32[0][r], cols32[1][r], box)
                same_image(d1, disp[r], f"displacement of two (3,) arrays, row {r}", "displacement_shape_3", sl=r)
            # distance / angle / dihedral of single atoms with a box
            one_atom = [c[0] for c in cols32]
            if cont != "ndarray":
                one_atom = [struc.Atom(c) for c in one_atom]
                o.label("single_atoms_with_box_as_Atom")
            _cmp(o, struc.distance(one_atom[0], one_atom[1], box), np.asarray(dist, dtype=float)[0], 2 * pm["ntol"][0], "displacement_shape_3", "distance of two single atoms with a box")
            _cmp(o, struc.angle(*one_atom[:3], box), np.asarray(ang, dtype=float)[0], 2 * pm["a_tol"][0], "displacement_shape_3", "angle of three single atoms with a box")
            _cmp(o, struc.dihedral(*one_atom, box), np.asarray(dih, dtype=float)[0], 2 * pm["d_tol"][0], "displacement_shape_3", "dihedral of four single atoms with a box", wrap=True)
            dmix = struc.displacement(cols32[0][0], cols32[1], box)
            want = disp.copy()
            # reference for the mixed call: lattice + shortest image of its own plain difference
            plain = cols32[1].astype(np.float64) - cols32[0][0].astype(np.float64)
            b = boxes[0]
            tolm = b.tol(float(np.abs(c32).max()))
            if np.asarray(dmix).shape == want.shape:
                _, res = b.lattice(np.asarray(dmix, dtype=float) - plain)
                _cmp(o, res, np.zeros_like(res), tolm, "displacement_differs_by_lattice_vector", "displacement((3,), (k,3), box)")
                mv, mn = b.min_image(plain)
                _cmp(o, _norm(np.asarray(dmix, dtype=float)), mn, np.where(b.ortho | (mn < 0.5 * b.hmin - tolm), tolm, np.inf), "displacement_is_shortest_image", "displacement((3,), (k,3), box)")
            else:
                o.fail("displacement_shape", f"displacement((3,), (k,3), box) has shape {np.asarray(dmix).shape}")

        else:
            # (k,3) of model 0 against (m,k,3) with the boxes of the models (broadcasting)
            dmix = np.asarray(struc.displacement(cols32[0][0], cols32[1], box), dtype=float)
            if o.check(dmix.shape == disp.shape, "displacement_shape", f"displacement((k,3), (m,k,3), box) has shape {dmix.shape}"):
                for j in range(m):
                    b = boxes[j if len(boxes) > 1 else 0]
                    tolm = b.tol(float(np.abs(c32).max()))
                    plain = cols32[1][j].astype(np.float64) - cols32[0][0].astype(np.float64)
                    _, res = b.lattice(dmix[j] - plain)
                    _cmp(o, res, np.zeros_like(res), tolm, "displacement_differs_by_lattice_vector", f"displacement((k,3), (m,k,3), box) model {j}")
                    mv, mn = b.min_image(plain)
                    _cmp(o, _norm(dmix[j]), mn, np.where(b.ortho | (mn < 0.5 * b.hmin - tolm), tolm, np.inf), "displacement_is_shortest_image", f"displacement((k,3), (m,k,3), box) model {j}")

        if cont != "ndarray":
            # the plain functions with AtomArray / AtomArrayStack arguments and a box
            wrapped_args = [_atoms(c) for c in cols32]
            same_image(struc.displacement(wrapped_args[0], wrapped_args[1], box), disp, "displacement(AtomArray(Stack), ..., box)", "displacement_atoms_with_box")
            _cmp(o, struc.dihedral(*wrapped_args, box), np.asarray(dih, dtype=float), 2 * pm["d_tol"], "displacement_atoms_with_box", "dihedral(AtomArray(Stack), ..., box)", wrap=True)

    # index variants with periodic=True
    if cont == "ndarray":
        src, kw = coords, {"periodic": True, "box": box}
    elif cont == "atoms_box":
        full = box if (box.ndim == 3 or not stack) else np.stack([box] * m)
        src, kw = _atoms(coords, box=full), {"periodic": True}
        if box.ndim == 2 and stack:
            o.label("shared_box_as_attribute")
    else:
        decoy = np.eye(3, dtype=np.float32) * np.float32(7.0 * boxes[0].L)
        src = _atoms(coords, box=decoy if not stack else np.stack([decoy] * m))
        kw = {"periodic": True, "box": box}
    with np.errstate(all="ignore"):
        i_disp = struc.index_displacement(src, idx[:, :2], **kw)
        i_dist = struc.index_distance(src, idx[:, :2], **kw)
        i_ang = struc.index_angle(src, idx[:, :3], **kw)
        i_dih = struc.index_dihedral(src, idx, **kw)
        plain_dist = np.asarray(struc.distance(cols32[0], cols32[1]), dtype=float)
        default_dist = struc.index_distance(src, idx[:, :2])
        np_dist = struc.index_distance(src, idx[:, :2], periodic=False)
    # index variants against the coordinate based ones: both are correct evaluations of the same
    # quantity; they need not run through the same code, so each may carry its own rounding and,
    # where the image is not unique (half-box ties, triclinic pairs beyond the stated range), its
    # own choice of the image
    same_image(i_disp, disp, f"index_displacement ({cont})", "index_equals_plain_periodic")
    _cmp(o, i_dist, dist, 2 * pm["ntol"], "index_equals_plain_periodic", f"index_distance ({cont})")
    _cmp(o, i_ang, ang, 2 * pm["a_tol"], "index_equals_plain_periodic", f"index_angle ({cont})")
    _cmp(o, i_dih, dih, 2 * pm["d_tol"], "index_equals_plain_periodic", f"index_dihedral ({cont})", wrap=True)
    # "By default, periodicity is ignored" - whether or not the structure carries a box
    ptol = 8 * EPS32 * plain_dist + TINY
    _cmp(o, default_dist, plain_dist, ptol, "index_not_periodic_by_default", f"index_distance({cont}, indices)")
    _cmp(o, np_dist, plain_dist, ptol, "index_not_periodic_by_default", f"index_distance({cont}, indices, periodic=False)")
    # periodic=False together with an explicit box: what that means is not stated anywhere.
    # Accepted: the box is ignored, the box is used (explicit box implies periodic), or an error
    try:
        with np.errstate(all="ignore"):
            contra = np.asarray(struc.index_distance(src, idx[:, :2], periodic=False, box=box), dtype=float)
    except Exception:
        o.label("periodic_false_with_box:raises")
    else:
        if contra.shape != plain_dist.shape:
            o.fail("periodic_false_with_box", f"index_distance(periodic=False, box=...) has shape {contra.shape}, expected {plain_dist.shape}")
        else:
            with np.errstate(all="ignore"):
                as_plain = bool((np.abs(contra - plain_dist) <= ptol).all())
                t_per = np.where(np.isfinite(pm["ntol"]), 2 * pm["ntol"], np.inf)
                as_periodic = bool((np.abs(contra - np.asarray(dist, dtype=float)) <= t_per).all())
            if as_plain:
                o.label("periodic_false_with_box:box_ignored")
            elif as_periodic:
                o.label("periodic_false_with_box:box_used")
            else:
                o.fail("periodic_false_with_box", f"index_distance(periodic=False, box=...) = {contra.tolist()} is neither the plain distance {plain_dist.tolist()} nor the periodic one {np.asarray(dist).tolist()}")

    o.label("triclinic" if any_triclinic else "orthorhombic")
    o.label("stack_per_model_boxes" if len(boxes) > 1 else ("stack_shared_box" if stack else "single_model"))
    o.label("minimg_not_plain" if any_wrapped else "minimg_is_plain")
    if boxes[0].rotated:
        o.label("rotated_box")
    if len(boxes) > 1 and len({b.ortho for b in boxes}) == 2:
        o.label("stack_mixed_ortho_triclinic")
    if case.get("tie") is not None:
        o.label("tie_half_box")
    if case.get("near") is not None:
        o.label("atoms_near_each_other")
    if tri_pairs:
        share = tri_decided / tri_pairs
        o.label("tri_shortest_decided:" + ("none" if tri_decided == 0 else "some" if share < 1 else "all"))
    _box_labels(o, boxes)
    o.label(cont, "box_" + case["box_dtype"])
    o.mark_nontrivial((any_triclinic or m >= 2) and any_wrapped)
    return o


# --------------------------------------------------------------------------
# boxconv: unit cell <-> vectors, fractions, move_inside_box
# --------------------------------------------------------------------------
def st_boxconv(tier):
    big = tier == "thorough"

    @st.composite
    def gen(draw):
        m = draw(st.sampled_from([1, 1, 2, 3]))
        n = draw(st.integers(1, 8 if big else 4))
        return {
            "cells": draw(st.lists(st_cell(), min_size=m, max_size=m)),
            "box_rot": draw(st_quat()),
            "box_perm": draw(st_box_perm()),
            "box_dtype": draw(st.sampled_from(["f4", "f8"])),
            "coord_dtype": draw(st.sampled_from(["f4", "f8"])),
            "m": m,
            "n": n,
            "frac": draw(st_vec(m * n * 3, -4.0, 4.0)),
        }

    return gen()


def run_boxconv(case):
    import biotite.structure as struc

    o = Outcome()
    boxes = _boxes(case)
    m, n = case["m"], case["n"]
    stack = m > 1

    # --- unit cell <-> vectors (always float32 output, first cell) -----------
    for cell in case["cells"][:2]:
        p, raw, ortho = cell_params(cell)
        la, lb, lc, al, be, ga = p
        v = struc.vectors_from_unitcell(*p)
        if not o.check(np.asarray(v).shape == (3, 3), "vectors_from_unitcell_shape", f"shape {np.asarray(v).shape}"):
            continue
        v64 = np.asarray(v, dtype=float)
        lens = np.linalg.norm(v64, axis=1)
        # biotite zeroes box components that are tiny against the length of their vector (1e-6 x
        # today; undocumented, 1e-5 x is allowed for here): a length changes by <= that, an angle
        # by <= asin(1e-5) per zeroed component (at most 3 components, 2 vectors)
        snap = 1e-5
        ltol = 2 * snap * max(la, lb, lc) + 16 * EPS32 * max(la, lb, lc)
        sin_min = min(math.sin(al), math.sin(be), math.sin(ga), 0.2)
        atol_ = 8 * snap + 64 * EPS32 / sin_min
        _cmp(o, lens, [la, lb, lc], ltol, "vectors_from_unitcell_lengths", f"lengths of vectors_from_unitcell{p}")

        def ang(x, y):
            return math.atan2(np.linalg.norm(np.cross(x, y)), float(np.dot(x, y)))

        got_ang = [ang(v64[1], v64[2]), ang(v64[0], v64[2]), ang(v64[0], v64[1])]
        _cmp(o, got_ang, [al, be, ga], atol_, "vectors_from_unitcell_angles", f"alpha(b,c), beta(a,c), gamma(a,b) of vectors_from_unitcell{p}")
        # handedness of the returned vectors is not documented: recorded, not judged
        o.label("unitcell_vectors_right_handed" if float(np.linalg.det(v64)) > 0 else "unitcell_vectors_left_handed")
        back = struc.unitcell_from_vectors(v)
        _cmp(o, back[:3], [la, lb, lc], ltol, "unitcell_roundtrip", f"lengths unitcell_from_vectors(vectors_from_unitcell{p})")
        _cmp(o, back[3:], [al, be, ga], atol_, "unitcell_roundtrip", f"angles unitcell_from_vectors(vectors_from_unitcell{p})")
        o.label("cell_" + cell["kind"])
        if ortho:
            o.check(bool(struc.is_orthogonal(v)), "is_orthogonal", f"orthorhombic cell {p} not orthogonal")

    # --- cell parameters of an arbitrary (rotated) box -----------------------
    for b in boxes[:2]:
        la, lb, lc, al, be, ga = b.params
        got = struc.unitcell_from_vectors(b.given)
        # the box of a structure is float32 by design: a float64 box may be evaluated in float32
        # as well (results between the float64 and the float32 bound are counted as ambiguous)
        f64 = case["box_dtype"] == "f8"
        et = 64 * EPS32
        sin_min = min(math.sin(al), math.sin(be), math.sin(ga), 0.2)
        _cmp(o, got[:3], [la, lb, lc], et * max(la, lb, lc), "unitcell_from_vectors_textbook", "lengths of a rotated box", soft=1e-9 * max(la, lb, lc) if f64 else None)
        _cmp(o, got[3:], [al, be, ga], et / sin_min * 8, "unitcell_from_vectors_textbook", "angles of a rotated box", soft=1e-9 / sin_min * 8 if f64 else None)
        vol = struc.box_volume(b.given)
        want_vol = abs(float(np.dot(b.b[0], np.cross(b.b[1], b.b[2]))))
        _cmp(o, vol, want_vol, 64 * EPS32 * b.cond * want_vol, "box_volume", "box_volume", soft=1e-9 * want_vol if f64 else None)
        dots = [abs(float(np.dot(b.b[i], b.b[k]))) for i, k in ((0, 1), (0, 2), (1, 2))]
        # documented threshold 1e-6 on the dot products, which biotite may evaluate in float32
        # (error <= ~eps32 * L^2) whatever the dtype of the given box
        ferr = 16 * EPS32 * b.L**2
        if max(dots) + ferr < 1e-6:
            o.check(bool(struc.is_orthogonal(b.given)), "is_orthogonal", "orthogonal box not recognised")
        elif max(dots) > 1e-6 + ferr:
            o.check(not bool(struc.is_orthogonal(b.given)), "is_orthogonal", f"box with dot products {dots} reported orthogonal")
    if stack:
        allv = struc.box_volume(np.stack([b.given for b in boxes]))
        o.check(np.asarray(allv).shape == (m,), "box_volume", f"volume of (m,3,3) has shape {np.asarray(allv).shape}")
        ort = struc.is_orthogonal(np.stack([b.given for b in boxes]))
        o.check(np.asarray(ort).shape == (m,), "is_orthogonal", f"is_orthogonal of (m,3,3) has shape {np.asarray(ort).shape}")

    # --- fractions and move_inside_box ---------------------------------------
    cdt = np.float32 if case["coord_dtype"] == "f4" else np.float64
    frac_in = np.array(case["frac"], dtype=float).reshape(m, n, 3)
    c = np.stack([frac_in[j] @ boxes[j].b for j in range(m)]).astype(cdt)
    coords = c if stack else c[0]
    box = _given_box(case, boxes)
    # linalg.inv of a float32 box is a float32 matrix: float64 accuracy only if both are float64
    # (and coordinates / boxes of structures are float32 by design: float64 accuracy is never
    # demanded, results beyond the float64 bound are counted as ambiguous)
    both64 = case["coord_dtype"] == "f8" and case["box_dtype"] == "f8"
    eps = EPS32
    soft_f = (4e-16 / EPS32) if both64 else None
    with np.errstate(all="ignore"):
        f = struc.coord_to_fraction(coords, box)
        back = struc.fraction_to_coord(f, box)
        moved = struc.move_inside_box(coords, box)
    ok_shape = True
    for name, arr in (("coord_to_fraction", f), ("fraction_to_coord", back), ("move_inside_box", moved)):
        ok_shape &= o.check(np.asarray(arr).shape == coords.shape, "box_helper_shape", f"{name}: shape {np.asarray(arr).shape}, expected {coords.shape}")
    wrapped = False
    if ok_shape:
        for j in range(m):
            b = boxes[j]
            x = (c[j]).astype(np.float64)
            smag = float(np.abs(x).max(initial=0.0))
            tol = 32 * eps * b.cond * (smag + b.L)
            fj = np.asarray(f[j] if stack else f, dtype=float)
            soft = None if soft_f is None else soft_f * tol
            soft2 = None if soft_f is None else 2 * soft_f * tol
            _cmp(o, fj @ b.b, x, tol, "fraction_definition", f"coord_to_fraction(x) @ box, model {j}", soft=soft)
            _cmp(o, (back[j] if stack else back), x, 2 * tol, "fraction_roundtrip", f"fraction_to_coord(coord_to_fraction(x)), model {j}", soft=soft2)
            mj = np.asarray(moved[j] if stack else moved, dtype=float)
            k, res = b.lattice(mj - x)
            _cmp(o, res, np.zeros_like(res), 2 * tol, "move_inside_box_by_lattice_vector", f"move_inside_box model {j}", soft=soft2)
            out = b.outside(mj)
            _cmp(o, out, np.zeros_like(out), 2 * tol, "move_inside_box_inside", f"move_inside_box model {j}: distance outside the box", soft=soft2)
            wrapped |= bool((np.abs(k).sum(axis=-1) > 0).any())
    any_tri = any(not b.ortho for b in boxes)
    o.label("triclinic" if any_tri else "orthorhombic", "stack_per_model_boxes" if stack else "single_model")
    o.label("coord_" + case["coord_dtype"], "box_" + case["box_dtype"])
    if boxes[0].rotated:
        o.label("rotated_box")
    if wrapped:
        o.label("moved_by_nonzero_lattice_vector")
    _box_labels(o, boxes)
    o.mark_nontrivial((any_tri or stack) and wrapped)
    return o


# --------------------------------------------------------------------------
# repeat: repeat_box_coord / repeat_box
# --------------------------------------------------------------------------
def st_repeat(tier):
    big = tier == "thorough"

    @st.composite
    def gen(draw):
        m = draw(st.sampled_from([1, 1, 2, 3]))
        n = draw(st.integers(1, 5 if big else 3))
        shared = m > 1 and draw(st.integers(0, 3)) == 0
        container = draw(st.sampled_from(["coord", "atoms", "atoms"]))
        if container == "atoms":
            shared = False
        nb = 1 if (m == 1 or shared) else m
        return {
            "cells": draw(st.lists(st_cell(), min_size=nb, max_size=nb)),
            "box_rot": draw(st_quat()),
            "box_perm": draw(st_box_perm()),
            "box_dtype": "f4",
            "m": m,
            "n": n,
            "frac": draw(st_vec(m * n * 3, -1.0, 2.0)),
            "amount": draw(st.sampled_from([2, 1, 0, 2, 1, 3] if big else [2, 1, 0, 2, 1, 2, 1, 0, 2, 1, 3])),
            "explicit_amount": draw(st.booleans()),
            "container": container,
            "bonds": draw(st.lists(st.lists(st.integers(0, 4), min_size=2, max_size=2), max_size=3)),
        }

    return gen()


def run_repeat(case):
    import biotite.structure as struc

    o = Outcome()
    boxes = _boxes(case)
    m, n, amount = case["m"], case["n"], case["amount"]
    stack = m > 1
    frac = np.array(case["frac"], dtype=float).reshape(m, n, 3)
    c32 = np.stack([frac[j] @ boxes[j if len(boxes) > 1 else 0].b for j in range(m)]).astype(np.float32)
    coords = c32 if stack else c32[0]
    box = _given_box(case, boxes)
    copies = (2 * amount + 1) ** 3
    want_idx = np.tile(np.arange(n), copies)
    atoms = None
    o.label(case["container"], f"amount={amount}", "stack" if stack else "single_model")
    if case["container"] == "coord":

        def call():
            if amount == 1 and not case["explicit_amount"]:
                return struc.repeat_box_coord(coords, box)
            return struc.repeat_box_coord(coords, box, amount)
    else:
        bonds = sorted({(min(i % n, j % n), max(i % n, j % n)) for i, j in case["bonds"] if i % n != j % n})
        atoms = _atoms(coords, box=box, bonds=bonds)

        def call():
            if amount == 1 and not case["explicit_amount"]:
                return struc.repeat_box(atoms)
            return struc.repeat_box(atoms, amount)

    if amount == 0:
        # "the amount of boxes that are created in each direction": 0 gives (1 + 2*0)^3 = 1 copy
        # by the documented formula; refusing it (any error) is just as legitimate
        try:
            out = call()
        except Exception:
            o.label("amount=0:refused")
            return o
        o.label("amount=0:one_copy")
    else:
        out = call()
    if atoms is None:
        rep, ind = out
    else:
        rep_atoms, ind = out
        if not o.check(type(rep_atoms) is type(atoms), "repeat_box_type", f"returned {type(rep_atoms).__name__}"):
            return o
        rep = rep_atoms.coord
    o.label("triclinic" if any(not b.ortho for b in boxes) else "orthorhombic")
    _box_labels(o, boxes)
    o.mark_nontrivial(amount != 1 or (stack and len(boxes) > 1))

    rep = np.asarray(rep)
    want_shape = coords.shape[:-2] + (copies * n, 3)
    if not o.check(rep.shape == want_shape, "repeat_count", f"amount={amount}: repeated shape {rep.shape}, expected {want_shape} = (2a+1)^3 copies"):
        return o
    o.check_array_eq(np.asarray(ind), want_idx, "repeat_indices_tiled", f"indices for amount={amount}")
    o.check_array_eq(rep[..., :n, :], coords, "repeat_original_first", "first block")
    seen = []
    for blk in range(copies):
        ks = set()
        for j in range(m):
            b = boxes[j if len(boxes) > 1 else 0]
            x = (c32[j]).astype(np.float64)
            y = (rep[j] if stack else rep)[blk * n : (blk + 1) * n].astype(np.float64)
            k, res = b.lattice(y - x)
            tol = 8 * EPS32 * (float(np.abs(x).max()) + (3 * amount + 1) * b.L)
            _cmp(o, res, np.zeros_like(res), tol, "repeat_exact_lattice_translate", f"block {blk} model {j}")
            ks |= {tuple(int(v) for v in row) for row in k}
        if len(ks) != 1:
            o.fail("repeat_exact_lattice_translate", f"block {blk}: atoms/models translated by different lattice vectors {sorted(ks)}")
            return o
        seen.append(next(iter(ks)))
    want_set = sorted(itertools.product(range(-amount, amount + 1), repeat=3))
    o.check(seen[0] == (0, 0, 0), "repeat_original_first", f"first block translated by {seen[0]}")
    o.check(sorted(seen) == want_set, "repeat_all_adjacent_boxes_once", lambda: f"lattice translations {sorted(seen)} != all of {{-a..a}}^3")
    if atoms is not None:
        # "duplicates of [the atoms]", with indices documented as tiled: the annotations of copy
        # k are those of the original; that the bonds are duplicated with the atoms is not
        # written down for repeat_box() nor repeat() (by analogy: a duplicate of a bonded atom)
        for cat in ("chain_id", "res_id", "res_name", "atom_name", "element"):
            o.check_array_eq(rep_atoms.get_annotation(cat), np.tile(atoms.get_annotation(cat), copies), "repeat_annotations_tiled", cat)
        # box of the result: not documented.  Accepted: the box of the input (today) or the
        # super cell (2a+1) x box that the repeated atoms fill
        rb = None if rep_atoms.box is None else np.asarray(rep_atoms.box, dtype=float)
        ab = np.asarray(atoms.box, dtype=float)
        if rb is not None and rb.shape == ab.shape and np.array_equal(rb, ab):
            o.label("repeat_box_attr:kept")
        elif rb is not None and rb.shape == ab.shape and amount != 0 and bool((np.abs(rb - (2 * amount + 1) * ab) <= 4 * EPS32 * (2 * amount + 1) * np.abs(ab).max()).all()):
            o.label("repeat_box_attr:super_cell")
        else:
            o.fail("repeat_box_attribute", f"box of the repeated structure {None if rb is None else rb.tolist()} is neither the input box nor (2*amount+1) x the input box {ab.tolist()}")
        want_b = sorted((i + k * n, j + k * n) for k in range(copies) for i, j in bonds)
        got_b = sorted((int(min(i, j)), int(max(i, j))) for i, j, _ in rep_atoms.bonds.as_array())
        o.check(got_b == want_b, "repeat_bonds_tiled", lambda: f"(undocumented, by analogy to the atoms) bonds {got_b[:12]}... expected {want_b[:12]}...")
        o.check_array_eq(atoms.coord, coords, "repeat_does_not_mutate", "input coordinates")
    return o


# --------------------------------------------------------------------------
# remove_pbc
# --------------------------------------------------------------------------
def st_remove_pbc(tier):
    big = tier == "thorough"
    max_atoms = 30 if big else 10

    @st.composite
    def st_mol(draw):
        kind = draw(st.sampled_from(["path", "path", "tree", "tree", "ring", "single"]))
        k = 1 if kind == "single" else draw(st.integers(3 if kind == "ring" else 2, max_atoms))
        return {
            "kind": kind,
            "n": k,
            "parents": draw(st.lists(st.integers(0, 1000), min_size=k, max_size=k)),
            "dirs": draw(st.lists(st_vec(3), min_size=k, max_size=k)),
            "lens": draw(st.lists(st.floats(0.03, 0.24, allow_nan=False), min_size=k, max_size=k)),
            "start": draw(st_vec(3, 0.0, 1.0)),
            "quat": draw(st_quat(none_ok=False)),
            "shift": draw(st.lists(st.integers(-2, 2), min_size=3 * k, max_size=3 * k)),
        }

    @st.composite
    def gen(draw):
        m = draw(st.sampled_from([1, 1, 2, 3]))
        mols = draw(st.lists(st_mol(), min_size=1, max_size=4 if big else 3))
        total = sum(x["n"] for x in mols)
        use_bonds = draw(st.sampled_from([True, True, False]))
        # without a BondList remove_pbc works per chain along the array order, which is only
        # documented for array neighbours closer than half the box: always limited there
        limit = 0.45 if (findings.is_open(F1) or not use_bonds) else draw(st.sampled_from([None, 0.45]))
        return {
            "cells": draw(st.lists(st_cell(), min_size=m, max_size=m)),
            "box_rot": draw(st_quat()),
            "box_perm": draw(st_box_perm()),
            "box_dtype": draw(st.sampled_from(["f4", "f4", "f8"])),  # of the box given to remove_pbc_from_coord
            "m": m,
            "mols": mols,
            "merge": draw(st.lists(st.integers(0, 5), min_size=total, max_size=total)),
            "interleave": draw(st.booleans()),
            "use_bonds": use_bonds,
            "wrap": draw(st.sampled_from(["random", "random", "inside"])),
            "model_seed": draw(st.integers(0, 2**31 - 1)),
            "select": draw(st.one_of(st.none(), st.lists(st.booleans(), min_size=len(mols), max_size=len(mols)))),
            # a selected molecule may be selected in part only: a run of its atoms (raw start, raw length)
            "partial": draw(
                st.one_of(
                    st.lists(
                        st.one_of(st.none(), st.tuples(st.integers(0, 1000), st.integers(0, 1000)).map(list)),
                        min_size=len(mols),
                        max_size=len(mols),
                    ),
                )
            ),
            "consec_limit": limit,
        }

    return gen()


def _mol_geometry(mol):
    """Unit-less atom positions (bond lengths < 0.25) and bonds of one molecule."""
    k = mol["n"]
    pos = np.zeros((k, 3))
    bonds = []
    if mol["kind"] == "ring":
        chord = mol["lens"][0]
        r = chord / (2 * math.sin(math.pi / k))
        t = 2 * math.pi * np.arange(k) / k
        pos = np.stack([r * np.cos(t), r * np.sin(t), np.zeros(k)], axis=1)
        bonds = [(i, i + 1) for i in range(k - 1)] + [(0, k - 1)]
    else:
        for i in range(1, k):
            par = i - 1 if mol["kind"] == "path" else mol["parents"][i] % i
            d = np.array(mol["dirs"][i], dtype=float)
            nd = np.linalg.norm(d)
            d = d / nd if nd > 1e-6 else np.array([1.0, 0.0, 0.0])
            pos[i] = pos[par] + mol["lens"][i] * d
            bonds.append((par, i))
    return pos @ rot_from_quat(mol["quat"]).T, bonds


def _pbc_layout(case):
    """Array order: molecule id per array position (molecule-internal order kept)."""
    sizes = [x["n"] for x in case["mols"]]
    if not case["interleave"] or not case["use_bonds"]:
        return [mi for mi, s in enumerate(sizes) for _ in range(s)]
    left = list(sizes)
    order = []
    for t in range(sum(sizes)):
        alive = [mi for mi, s in enumerate(left) if s > 0]
        mi = alive[case["merge"][t] % len(alive)]
        order.append(mi)
        left[mi] -= 1
    return order


def _pbc_build(case, boxes):
    """true (m,N,3) float64 geometry, wrapped float32 input, bonds, molecule ids,
    narrowing flag."""
    m = case["m"]
    layout = _pbc_layout(case)
    ntot = len(layout)
    positions = [[p for p, mi in enumerate(layout) if mi == q] for q in range(len(case["mols"]))]
    true = np.zeros((m, ntot, 3))
    shifts = np.zeros((m, ntot, 3))
    bonds = []
    narrowed = False
    long_consec = False
    rng = np.random.default_rng(case["model_seed"])
    for q, mol in enumerate(case["mols"]):
        pos, mb = _mol_geometry(mol)
        k = mol["n"]
        consec = float(np.max(np.linalg.norm(np.diff(pos, axis=0), axis=1))) if k > 1 else 0.0
        if case["consec_limit"] is not None and consec > case["consec_limit"]:
            pos = pos * (case["consec_limit"] / consec)
            narrowed = True
        elif consec > 0.45:
            long_consec = True
        for a, b_ in mb:
            bonds.append((positions[q][a], positions[q][b_]))
        for j in range(m):
            b = boxes[j]
            rj = np.eye(3) if j == 0 else rot_from_quat(rng.normal(size=4))
            start = np.array(mol["start"], dtype=float) @ b.b
            true[j, positions[q]] = start + b.hmin * (pos @ rj.T)
            if j == 0:
                shifts[j, positions[q]] = np.array(mol["shift"], dtype=float).reshape(k, 3)
            else:
                shifts[j, positions[q]] = rng.integers(-2, 3, size=(k, 3))
    wrapped = np.empty_like(true)
    for j in range(m):
        b = boxes[j]
        if case["wrap"] == "inside":
            shifts[j] = -np.floor(true[j] @ b.inv)
        wrapped[j] = true[j] + shifts[j] @ b.b
    return true, wrapped.astype(np.float32), shifts, bonds, layout, positions, narrowed, long_consec


def _partial_run(mol, part, nq):
    """(first, count) of the run of molecule-internal atom numbers that is selected.

    The run is always connected through bonds between *selected* atoms: any run of a path,
    an arc of a ring, and a prefix of a tree (the parent of atom i is an atom < i).  An
    arbitrary run of a tree may consist of several pieces hanging on unselected atoms, for
    which neither the property nor the docstring says how they end up relative to each other."""
    first = part[0] % nq
    if mol["kind"] == "tree":
        first = 0
    count = 1 + part[1] % (nq - first)
    return first, count


def run_remove_pbc(case):
    import warnings

    import biotite.structure as struc

    o = Outcome()
    m = case["m"]
    stack = m > 1
    # the box reaches remove_pbc() through the box attribute, which is always float32; the
    # box of the case (float32 or float64) is handed to remove_pbc_from_coord() directly
    boxes = [Box(c, case["box_rot"], "f4", case.get("box_perm")) for c in case["cells"]]
    boxes_arg = _boxes(case)
    if not case["use_bonds"] and case["consec_limit"] is None:
        # per-chain reassembly follows the array order (documented for array neighbours
        # closer than half the box): outside that range nothing is promised
        case = dict(case, consec_limit=0.45)
        limited_for_f1 = False
    else:
        limited_for_f1 = True
    true, w32, shifts, bonds, layout, positions, narrowed, long_consec = _pbc_build(case, boxes)
    if narrowed and limited_for_f1 and findings.is_open(F1):
        o.exclude(F1)
        o.label("narrowed_" + F1)
    elif narrowed:
        o.label("array_neighbours_limited")
    if long_consec:
        o.label("array_neighbours_beyond_half_box")
    ntot = len(layout)
    coords = w32 if stack else w32[0]
    box = np.stack([b.given for b in boxes]) if stack else boxes[0].given
    atoms = _atoms(coords, box=box, bonds=bonds if case["use_bonds"] else None)
    atoms.chain_id[:] = [chr(ord("A") + mi) for mi in layout]
    sel = None
    selected = [True] * len(case["mols"])
    partial = [False] * len(case["mols"])
    chosen = [list(p) for p in positions]  # per molecule: the array positions that are to be sanitized
    if case["select"] is not None:
        selected = list(case["select"])
        sel = np.array([selected[mi] for mi in layout], dtype=bool)
        for q, part in enumerate(case.get("partial") or []):
            if part is None or not selected[q]:
                continue
            nq = len(positions[q])
            first, count = _partial_run(case["mols"][q], part, nq)
            if count < nq:
                partial[q] = True
                o.label("molecule_selected_in_part", "partial_" + case["mols"][q]["kind"])
            chosen[q] = positions[q][first : first + count]
            sel[positions[q]] = False
            sel[chosen[q]] = True
    in_sel = np.ones(ntot, dtype=bool) if sel is None else sel
    before = atoms.coord.copy()
    with np.errstate(all="ignore"), warnings.catch_warnings():
        warnings.simplefilter("ignore")  # "Mean of empty slice" for a molecule without selected atoms
        res = struc.remove_pbc(atoms) if sel is None else struc.remove_pbc(atoms, sel)
    o.check_array_eq(atoms.coord, before, "remove_pbc_does_not_mutate", "input coordinates")
    if not o.check(type(res) is type(atoms) and res.coord.shape == coords.shape, "remove_pbc_shape", f"{type(res).__name__} {getattr(res, 'coord', np.zeros(0)).shape}"):
        return o
    o.check_array_eq(res.atom_name, atoms.atom_name, "remove_pbc_keeps_annotations", "atom_name")
    segmented = False
    for j in range(m):
        b = boxes[j]
        r = (res.coord[j] if stack else res.coord).astype(np.float64)
        w = w32[j].astype(np.float64)
        smag = float(max(np.abs(w).max(), np.abs(r).max()))
        tol = (32 + 8 * ntot) * EPS32 * b.cond * (smag + b.L)
        k, resid = b.lattice(r - w)
        _cmp(o, resid, np.zeros(ntot), tol, "remove_pbc_moves_by_lattice_vectors", f"model {j}")
        o.check_array_eq(
            (res.coord[j] if stack else res.coord)[~in_sel], w32[j][~in_sel], "remove_pbc_unselected_untouched", f"atoms outside the selection, model {j}"
        )
        for q, mol in enumerate(case["mols"]):
            pos = chosen[q]
            if not selected[q]:
                continue
            if len({tuple(s) for s in shifts[j, pos]}) > 1:
                segmented = True
            # the chosen atoms are connected through bonds between chosen atoms, every bond is
            # shorter than a quarter of the smallest height: "bonded atoms within minimum-image
            # distance" is the same as "one periodic image of the unwrapped geometry"
            kk, rr = b.lattice(r[pos] - true[j, pos])
            _cmp(o, rr, np.zeros(len(pos)), tol, "remove_pbc_restores_geometry", f"molecule {q} ({mol['kind']}) model {j}: residual to unwrapped geometry")
            if len({tuple(int(v) for v in row) for row in kk}) != 1:
                o.fail("remove_pbc_restores_geometry", f"molecule {q} ({mol['kind']}, {len(pos)} atoms) model {j}: atoms end in different periodic images {sorted({tuple(int(v) for v in row) for row in kk})}")
            if not partial[q]:
                # docstring: "the centroid of each molecule is moved into the dimensions of the
                # box"; which centroid that is for a molecule selected in part is not stated
                cen = r[pos].mean(axis=0)
                _cmp(o, b.outside(cen), 0.0, tol, "remove_pbc_centroid_in_box", f"molecule {q} model {j}: centroid {cen} outside the box by")
        for a, c_ in bonds:
            if not (in_sel[a] and in_sel[c_]):
                continue
            _, mn = b.min_image(w[c_] - w[a])
            _cmp(o, _norm(r[c_] - r[a]), mn, 2 * tol, "bonded_atoms_at_min_image_distance", f"bond {a}-{c_} model {j}")

    # remove_pbc_from_coord on the first molecule alone (array-adjacent displacements):
    # documented for coordinates whose neighbours in the array are closer than half the box
    pos0 = positions[0]
    pos_g, _ = _mol_geometry(case["mols"][0])
    consec0 = float(np.max(np.linalg.norm(np.diff(pos_g, axis=0), axis=1))) if len(pos0) > 1 else 0.0
    if case["consec_limit"] is not None:
        consec0 = min(consec0, case["consec_limit"])
    if consec0 <= 0.45:
        o.label("from_coord_checked")
        sub = w32[:, pos0] if stack else w32[0][pos0]
        box_arg = np.stack([b.given for b in boxes_arg]) if stack else boxes_arg[0].given
        with np.errstate(all="ignore"):
            rc = np.asarray(struc.remove_pbc_from_coord(sub, box_arg))
        if o.check(rc.shape == sub.shape, "remove_pbc_shape", f"remove_pbc_from_coord shape {rc.shape}"):
            for j in range(m):
                b = boxes[j]
                r = (rc[j] if stack else rc).astype(np.float64)
                tol = (32 + 8 * len(pos0)) * EPS32 * b.cond * (float(np.abs(w32[j]).max()) + float(np.abs(r).max()) + b.L)
                kk, rr = b.lattice(r - true[j, pos0])
                _cmp(o, rr, np.zeros(len(pos0)), tol, "remove_pbc_from_coord_restores_geometry", f"model {j}")
                o.check(len({tuple(int(v) for v in row) for row in kk}) == 1, "remove_pbc_from_coord_restores_geometry", f"model {j}: atoms in different images")
                _cmp(o, b.outside(r[0]), 0.0, tol, "remove_pbc_from_coord_first_atom_in_box", f"model {j}")

    any_tri = any(not b.ortho for b in boxes)
    o.label("triclinic" if any_tri else "orthorhombic", "stack_per_model_boxes" if stack else "single_model")
    o.label("bonds" if case["use_bonds"] else "chains_only", "wrap_" + case["wrap"])
    o.label("from_coord_box_" + case["box_dtype"])
    for mol in case["mols"]:
        o.label("mol_" + mol["kind"])
    if segmented:
        o.label("segmented")
    if case["interleave"] and case["use_bonds"] and len(case["mols"]) > 1:
        o.label("interleaved")
    if sel is not None:
        o.label("selection")
    _box_labels(o, boxes)
    o.mark_nontrivial(segmented and (any_tri or stack))
    return o


def _match_f1(sub, case, clause, message):
    """remove_pbc on a molecule whose neighbours *in array order* are farther
    apart than 0.45 x the smallest box height (not narrowed by consec_limit)."""
    if sub != "remove_pbc" or clause not in ("remove_pbc_restores_geometry", "bonded_atoms_at_min_image_distance"):
        return False
    if case.get("consec_limit") is not None:
        return False
    for mol in case["mols"]:
        if mol["n"] < 2:
            continue
        pos, _ = _mol_geometry(mol)
        if float(np.max(np.linalg.norm(np.diff(pos, axis=0), axis=1))) > 0.45:
            return True
    return False


# --------------------------------------------------------------------------
# transform
# --------------------------------------------------------------------------
_OPS = ["translate", "rotate", "rotate_centered", "rotate_about_axis", "align_vectors", "orient"]


def st_transform(tier):
    big = tier == "thorough"

    @st.composite
    def gen(draw):
        op = draw(st.sampled_from(_OPS))
        rank = 2 if op == "orient" else draw(st.sampled_from([1, 2, 2, 3, 3] if op == "translate" else [1, 2, 2, 3]))
        m = draw(st.integers(1, 3)) if rank == 3 else 1
        n = draw(st.integers(1, 8 if big else 5))
        return {
            "op": op,
            "rank": rank,
            "m": m,
            "n": n,
            "exp": draw(st.floats(-2.0, 3.0, allow_nan=False)),
            "pts": draw(st_vec(m * n * 3)),
            "container": draw(st.sampled_from(["ndarray", "ndarray64", "atoms"])),
            "angles": draw(st.lists(st.floats(-7.0, 7.0, allow_nan=False), min_size=3, max_size=3)),
            "axis": draw(st_vec(3)),
            "angle": draw(st.floats(-7.0, 7.0, allow_nan=False)),
            "support": draw(st.one_of(st.none(), st_vec(3, -2.0, 2.0))),
            "vec_rank": draw(st.sampled_from([1, 2, 3, 3])),
            "vec": draw(st_vec(3, -2.0, 2.0)),
            "vec_seed": draw(st.integers(0, 2**31 - 1)),
            "origin_dir": draw(st_vec(3)),
            "target_dir": draw(st_vec(3)),
            "origin_pos": draw(st.one_of(st.none(), st_vec(3, -2.0, 2.0))),
            "target_pos": draw(st.one_of(st.none(), st_vec(3, -2.0, 2.0))),
            "order": draw(st.one_of(st.none(), st.permutations([0, 1, 2]))),
        }

    return gen()


_PROBE = np.array([[0.0, 0, 0], [1.0, 0, 0], [0, 1.0, 0], [0, 0, 1.0]])


def _euler(angles):
    a, b, c = angles
    rx = np.array([[1, 0, 0], [0, math.cos(a), -math.sin(a)], [0, math.sin(a), math.cos(a)]])
    ry = np.array([[math.cos(b), 0, math.sin(b)], [0, 1, 0], [-math.sin(b), 0, math.cos(b)]])
    rz = np.array([[math.cos(c), -math.sin(c), 0], [math.sin(c), math.cos(c), 0], [0, 0, 1]])
    return rz @ ry @ rx  # x first, then y, then z


def _rodrigues(v, axis, angle):
    k = axis / np.linalg.norm(axis)
    return v * math.cos(angle) + np.cross(k, v) * math.sin(angle) + k * _dot(v, k)[..., None] * (1 - math.cos(angle))


def run_transform(case):
    import biotite.structure as struc

    o = Outcome()
    op, rank, m, n = case["op"], case["rank"], case["m"], case["n"]
    scale = 10.0 ** case["exp"]
    pts = np.array(case["pts"], dtype=float).reshape(m, n, 3) * scale
    # a chiral probe (right-handed unit tetrahedron, scaled) is appended to every model
    probe = np.broadcast_to(_PROBE * scale + pts[:, :1], (m, 4, 3))
    full = np.concatenate([pts, probe], axis=1)
    if op == "align_vectors":
        od = np.array(case["origin_dir"], dtype=float)
        td = np.array(case["target_dir"], dtype=float)
        od32 = od.astype(np.float32).astype(float)
        td32 = td.astype(np.float32).astype(float)
        nod, ntd = np.linalg.norm(od32), np.linalg.norm(td32)
        if nod < 1e-3 or ntd < 1e-3 or 1 + float(np.dot(od32, td32)) / (nod * ntd) < 0.05:
            # zero-length or (nearly) opposite directions: rotation undefined / ill-conditioned
            o.invalid = True
            o.label("align_ill_conditioned")
            return o
        op_ = np.zeros(3) if case["origin_pos"] is None else np.array(case["origin_pos"], dtype=np.float32).astype(float) * scale
        tp_ = np.zeros(3) if case["target_pos"] is None else np.array(case["target_pos"], dtype=np.float32).astype(float) * scale
        od_s = od32 * scale
        # two more points: the origin vector itself (support and tip)
        extra = np.broadcast_to(np.stack([op_, op_ + od_s]), (m, 2, 3))
        full = np.concatenate([full, extra], axis=1)
    if rank == 3:
        x32 = full.astype(np.float32)
    elif rank == 2:
        x32 = full[0].astype(np.float32)
    else:
        x32 = full[0, 0].astype(np.float32)
    x = x32.astype(np.float64)
    cont = case["container"]
    src = _wrap_container(x32, cont)
    src_before = x32.copy()
    o.label(op, f"rank{rank}", cont)

    want = None
    vr = 1
    mag = float(np.abs(x).max(initial=0.0))
    if op == "translate":
        vr = min(case["vec_rank"], rank)
        shape = x.shape[-vr:] if vr > 1 else (3,)
        v = np.array(case["vec"], dtype=float) * scale
        if vr > 1:  # one vector per atom (and model): bulk data from the stored seed
            v = v + np.random.default_rng(case["vec_seed"]).uniform(-2.0, 2.0, size=shape) * scale
        v = v.astype(np.float32)
        res = struc.translate(src, v if vr > 1 else [float(t) for t in v])
        want = x + v.astype(np.float64)
        mag += float(np.abs(v).max())
        o.label(f"vec_rank{vr}")
    elif op == "rotate":
        res = struc.rotate(src, case["angles"])
        want = x @ _euler(case["angles"]).T
    elif op == "rotate_centered":
        res = struc.rotate_centered(src, case["angles"])
        if rank == 1:
            want = x
        else:
            cen = x.mean(axis=-2, keepdims=True)
            want = (x - cen) @ _euler(case["angles"]).T + cen
    elif op == "rotate_about_axis":
        axis32 = np.array(case["axis"], dtype=np.float32).astype(float)
        if np.linalg.norm(axis32) < 1e-3:
            # no rotation is defined by a zero axis: outside the quantifier ("proper rotations"),
            # and no docstring says what happens.  The call is made (it must not kill the
            # process); an error of any type or a returned array (NaN, unchanged, ...) are
            # recorded, neither is judged
            o.label("zero_axis")
            o.invalid = True
            try:
                with np.errstate(all="ignore"):
                    struc.rotate_about_axis(src, [0.0, 0.0, 0.0], case["angle"])
            except Exception:
                o.label("zero_axis:raises")
            else:
                o.label("zero_axis:returns")
            return o
        sup = None if case["support"] is None else np.array(case["support"], dtype=np.float32) * np.float32(scale)
        res = struc.rotate_about_axis(src, case["axis"], case["angle"], None if sup is None else [float(t) for t in sup])
        s64 = np.zeros(3) if sup is None else sup.astype(np.float64)
        want = _rodrigues(x - s64, axis32, case["angle"]) + s64
        mag += float(np.abs(s64).max())
        o.label("support" if sup is not None else "no_support")
    elif op == "align_vectors":
        kw = {}
        if case["origin_pos"] is not None:
            kw["origin_position"] = [float(t) for t in op_]
        if case["target_pos"] is not None:
            kw["target_position"] = [float(t) for t in tp_]
        res = struc.align_vectors(src, case["origin_dir"], case["target_dir"], **kw)
        mag += float(max(np.abs(op_).max(), np.abs(tp_).max()))
    else:  # orient
        if x32.shape[0] < 3:  # pragma: no cover - 4 probe points are always present
            o.invalid = True
            return o
        res = struc.orient_principal_components(src) if case["order"] is None else struc.orient_principal_components(src, order=case["order"])

    # type / shape / no mutation of the input
    if cont == "atoms":
        ok = o.check(type(res) is type(src), "transform_returns_same_type", f"{op}: {type(res).__name__}")
        o.check_array_eq(src.coord, src_before, "transform_does_not_mutate", f"{op}: input coordinates")
        y = np.asarray(res.coord, dtype=float) if ok else None
    else:
        ok = o.check(isinstance(res, np.ndarray), "transform_returns_same_type", f"{op}: {type(res).__name__}")
        y = np.asarray(res, dtype=float) if ok else None
    if y is None or not o.check(y.shape == x.shape, "transform_shape", f"{op}: shape {y.shape}, expected {x.shape}"):
        return o

    tol = (512 if op == "orient" else 64) * EPS32 * (mag + TINY)
    if want is not None:
        _cmp(o, y, want, tol, "transform_is_documented_motion", f"{op} result")
    rigid = not (op == "translate" and vr > 1)  # one vector per atom is not a rigid motion
    if rank >= 2 and rigid:
        xs = x if rank == 3 else x[None]
        ys = y if rank == 3 else y[None]
        for j in range(xs.shape[0]):
            dx = _norm(xs[j][:, None] - xs[j][None])
            dy = _norm(ys[j][:, None] - ys[j][None])
            _cmp(o, dy, dx, 4 * tol, "transform_preserves_distances", f"{op}: pair distances model {j}")
            pa, pb = xs[j][n : n + 4], ys[j][n : n + 4]
            va = float(np.linalg.det(pa[1:] - pa[0]))
            vb = float(np.linalg.det(pb[1:] - pb[0]))
            _cmp(o, vb, va, 12 * tol * scale**2 + TINY, "transform_preserves_handedness", f"{op}: signed volume of the probe model {j}")
            if op == "align_vectors":
                t_unit = td32 / ntd
                _cmp(o, ys[j][n + 4], tp_, 4 * tol, "align_vectors_maps_origin_to_target", "image of origin_position")
                _cmp(o, ys[j][n + 5], tp_ + t_unit * nod * scale, 8 * tol, "align_vectors_maps_origin_to_target", "image of origin_position + origin_direction")
    o.mark_nontrivial(rank >= 2 and op != "translate")
    return o


# --------------------------------------------------------------------------
# backbone dihedrals
# --------------------------------------------------------------------------
_AA = ["ALA", "GLY", "SER", "CYS", "PHE", "LYS", "DAL"]


def st_backbone(tier):
    big = tier == "thorough"

    @st.composite
    def gen(draw):
        k = draw(st.integers(1, 10 if big else 5))
        m = draw(st.sampled_from([1, 1, 2]))
        return {
            "m": m,
            "res": draw(st.lists(st.sampled_from(_AA), min_size=k, max_size=k)),
            "coords": draw(st_vec(m * k * 5 * 3, -8.0, 8.0)),
            "missing": draw(st.lists(st.tuples(st.integers(0, k - 1), st.sampled_from(["N", "CA", "C"])), max_size=2)),
            "cb": draw(st.lists(st.booleans(), min_size=k, max_size=k)),
            "res_id_start": draw(st.integers(-3, 50)),
            # water molecules (residues without any backbone atom) after the peptide
            "waters": draw(st.sampled_from([0, 0, 0, 1, 3])),
            "water_seed": draw(st.integers(0, 2**31 - 1)),
        }

    return gen()


def run_backbone(case):
    import biotite.structure as struc

    o = Outcome()
    k = len(case["res"])
    m = case["m"]
    xyz = np.array(case["coords"], dtype=np.float32).reshape(m, k, 5, 3)
    missing = {(r, a) for r, a in case["missing"]}
    names, resn, resid, rows = [], [], [], []
    for r in range(k):
        for ai, an in enumerate(["N", "CA", "C", "O", "CB"]):
            if (r, an) in missing:
                continue
            if an == "CB" and (not case["cb"][r] or case["res"][r] == "GLY"):
                continue
            names.append(an)
            resn.append(case["res"][r])
            resid.append(case["res_id_start"] + r)
            rows.append((r, ai))
    c = np.stack([xyz[:, r, ai] for r, ai in rows], axis=1)  # (m, natoms, 3)
    # (not together with a missing CA: the two accepted shapes of either could not be told apart)
    nw = 0 if any(a == "CA" for _, a in missing) else case.get("waters", 0)
    if nw:
        wat = np.random.default_rng(case["water_seed"]).uniform(-8.0, 8.0, size=(m, nw, 3)).astype(np.float32)
        c = np.concatenate([c, wat], axis=1)
        for i in range(nw):
            names.append("O")
            resn.append("HOH")
            resid.append(case["res_id_start"] + k + i)
            rows.append(None)
        o.label("waters_after_peptide")
    if m == 1:
        atoms = struc.AtomArray(len(rows))
        atoms.coord = c[0]
    else:
        atoms = struc.AtomArrayStack(m, len(rows))
        atoms.coord = c
    atoms.chain_id[:] = "A"
    atoms.res_id[:] = resid
    atoms.res_name[:] = resn
    atoms.atom_name[:] = names
    atoms.element[:] = [a[0] for a in names]
    with np.errstate(all="ignore"):
        phi, psi, omg = struc.dihedral_backbone(atoms)

    x = xyz.astype(np.float64)

    def at(r, name):
        if r < 0 or r >= k or (r, name) in missing:
            return np.full((m, 3), np.nan)
        return x[:, r, ["N", "CA", "C"].index(name)]

    want = {"phi": [], "psi": [], "omega": []}
    tols = {"phi": [], "psi": [], "omega": []}
    for r in range(k):
        for key, quad in (
            ("phi", [at(r - 1, "C"), at(r, "N"), at(r, "CA"), at(r, "C")]),
            ("psi", [at(r, "N"), at(r, "CA"), at(r, "C"), at(r + 1, "N")]),
            ("omega", [at(r, "CA"), at(r, "C"), at(r + 1, "N"), at(r + 1, "CA")]),
        ):
            b1, b2, b3 = quad[1] - quad[0], quad[2] - quad[1], quad[3] - quad[2]
            d, s1, s2 = ref_dihedral_from_vectors(b1, b2, b3)
            want[key].append(d)
            tols[key].append(dihedral_tol(s1, s2, _norm(b1), _norm(b2), _norm(b3)))
    defined = 0
    # "for every CA atom": one value per amino acid residue.  Where a CA itself is missing the
    # docstring can be read both ways ("NaN for missing backbone atoms" = an all-NaN entry for
    # that residue, or no entry at all); both are accepted, the other entries are the same
    no_ca = sorted({r for r, a in missing if a == "CA"})
    with_ca = [r for r in range(k) if r not in no_ca]
    for key, got in (("phi", phi), ("psi", psi), ("omega", omg)):
        w = np.stack(want[key], axis=1)  # (m, k)
        t = np.stack(tols[key], axis=1)
        got = np.asarray(got, dtype=float)
        if nw and got.ndim >= 1:
            # residues without backbone: an all-NaN entry each (one value per residue, today) or
            # no entry ("for every CA atom")
            if got.shape[-1] == k + nw:
                o.check(bool(np.isnan(got[..., got.shape[-1] - nw :]).all()), "backbone_nan_where_undefined", f"{key}: values for water residues {got.tolist()}")
                got = got[..., : got.shape[-1] - nw]
                o.label("waters:nan_entry")
            else:
                o.label("waters:no_entry")
        if no_ca and got.shape[-1:] == (len(with_ca),) and got.shape != (w[0] if m == 1 else w).shape:
            w, t = w[:, with_ca], t[:, with_ca]
            o.label("missing_CA:no_entry")
        elif no_ca:
            o.label("missing_CA:nan_entry")
        if m == 1:
            w, t = w[0], t[0]
        if not o.check(got.shape == w.shape, "backbone_shape", f"{key}: shape {got.shape}, expected {w.shape} (one per amino acid residue / CA atom)"):
            continue
        nan_want = np.isnan(w)
        o.check(bool(np.isnan(got[nan_want]).all()), "backbone_nan_where_undefined", f"{key}: got {got.tolist()} but undefined at {nan_want.tolist()}")
        _cmp(o, np.where(nan_want, 0.0, got), np.where(nan_want, 0.0, w), np.where(nan_want, np.inf, t), "backbone_dihedral_textbook", key, wrap=True)
        defined += int((~nan_want & np.isfinite(t)).sum())
    o.label(f"residues={min(k, 4)}{'+' if k > 4 else ''}", "stack" if m > 1 else "single_model")
    if missing:
        o.label("missing_backbone_atom")
    o.mark_nontrivial(defined >= 3)
    return o


# --------------------------------------------------------------------------
def setup():
    from fixtures import make_ccd

    make_ccd.use()


# --------------------------------------------------------------------------
# very long index arrays (size dependent code paths of the index_* functions)
# --------------------------------------------------------------------------
def st_index_large(tier):
    return st.fixed_dictionaries(
        {
            "n_atoms": st.integers(5, 40),
            # (the simplest example, which every shard runs first, is a stack with 65537 tuples)
            "depth": st.sampled_from([2, 0, 3]),
            "n_idx": st.sampled_from([65537, 65536, 70000, 131072, 140001, 3000]),
            "seed": st.integers(0, 2**31 - 1),
        }
    )


def run_index_large(case):
    import biotite.structure as struc

    o = Outcome()
    rng = np.random.default_rng(case["seed"])
    n, m, k = case["n_atoms"], case["depth"], case["n_idx"]
    shape = (n, 3) if m == 0 else (m, n, 3)
    coord = rng.normal(0, 10, shape).astype(np.float32)
    idx = rng.integers(0, n, (k, 4))
    o.label("stack" if m else "single", f"tuples={k}")
    c64 = coord.astype(np.float64)
    cols = [c64[..., idx[:, i], :] for i in range(4)]
    ref = _measure_ref(cols)
    want = ref["dist"]
    got = np.asarray(struc.index_distance(coord, idx[:, :2]))
    if o.check_eq(got.shape, want.shape, "index_equals_plain", f"index_distance shape for {k} index pairs on coordinates {shape}"):
        bad = np.abs(got - want) > 8 * EPS32 * want + 1e-5
        o.check(not bad.any(), "index_equals_plain", lambda: f"index_distance differs from the formula at {np.argwhere(bad)[:3].tolist()}")
    # against the coordinate based functions on the gathered coordinates: two evaluations of the
    # same quantity, each with its own float32 rounding (they need not share their code)
    g32 = [coord[..., idx[:, i], :] for i in range(4)]
    with np.errstate(all="ignore"):
        plain = struc.distance(g32[0], g32[1])
        _cmp(o, got, plain, 8 * EPS32 * want + TINY, "index_equals_plain", "index_distance vs distance on the gathered coordinates")
        d = struc.index_displacement(coord, idx[:, :2])
        _cmp(o, d, ref["disp"], 2 * EPS32 * np.abs(ref["disp"]) + TINY, "index_equals_plain", "index_displacement vs the difference of the gathered coordinates")
        a_tol = angle_tol(*ref["angle_tol"])
        ang = struc.index_angle(coord, idx[:, :3])
        _cmp(o, ang, ref["angle"], a_tol, "index_equals_plain", "index_angle vs formula")
        _cmp(o, ang, struc.angle(g32[0], g32[1], g32[2]), 2 * a_tol, "index_equals_plain", "index_angle vs angle on the gathered coordinates")
        d_tol = dihedral_tol(*ref["dihedral_tol"])
        dih = struc.index_dihedral(coord, idx)
        _cmp(o, dih, ref["dihedral"], d_tol, "index_equals_plain", "index_dihedral vs formula", wrap=True)
        # periodic branch with a long index array: orthorhombic box (shortest image always stated)
        lens = np.array([15.0, 22.0, 31.0]) * (1.0 + (case["seed"] % 7) / 7.0)
        box = np.diag(lens).astype(np.float32)
        b64 = box.astype(np.float64)
        pd = struc.index_displacement(coord, idx[:, :2], periodic=True, box=box)
        plain_d = cols[1] - cols[0]
        want_pd = plain_d - np.round(plain_d / lens) * lens
        ptol = 32 * EPS32 * (float(np.abs(c64).max()) + float(lens.max()))
        pd = np.asarray(pd, dtype=float)
        if o.check_eq(pd.shape, want_pd.shape, "index_equals_plain_periodic", "index_displacement(periodic=True) shape"):
            # half-box ties aside (either image), the vector is the wrapped difference
            resid = (pd - want_pd) @ np.linalg.inv(b64)
            lat = np.abs(resid - np.round(resid)).max(axis=-1) * float(lens.max())
            _cmp(o, lat, np.zeros_like(lat), ptol, "index_equals_plain_periodic", "index_displacement(periodic=True) is not a lattice vector away from the difference")
            _cmp(o, _norm(pd), _norm(want_pd), ptol, "index_equals_plain_periodic", "|index_displacement(periodic=True)| vs shortest image")
    o.mark_nontrivial(k > 65536)
    return o


SUBS = [
    Sub(
        "index_large",
        st_index_large,
        run_index_large,
        quick=32,
        thorough=600,
        rule="more than 65536 index tuples (single model and stacks)",
        clauses="index-based variants equal the coordinate-based ones for very long index arrays",
    ),
    Sub(
        "measure",
        st_measure,
        run_measure,
        quick=2400,
        thorough=90000,
        rule=">= 1 decided dihedral, rotation != identity, arguments of >= 2 different ranks",
        clauses="distance/angle/dihedral/displacement/centroid textbook; invariance under R x + t; index_* == plain",
    ),
    Sub(
        "periodic",
        st_periodic,
        run_periodic,
        quick=2400,
        thorough=90000,
        rule="(triclinic box or >= 2 models) and >= 1 pair whose minimum image is not the plain difference",
        clauses="displacement(box) - difference is a lattice vector; shortest image (always orthorhombic, triclinic below half the smallest height); per-model boxes; periodic angle/dihedral; index_* periodic",
    ),
    Sub(
        "boxconv",
        st_boxconv,
        run_boxconv,
        quick=2000,
        thorough=70000,
        rule="(triclinic box or >= 2 models) and >= 1 coordinate moved by a non-zero lattice vector",
        clauses="unit cell <-> vectors inverse; fractions inverse; move_inside_box inside the box by lattice vectors; box_volume; is_orthogonal",
    ),
    Sub(
        "repeat",
        st_repeat,
        run_repeat,
        quick=800,
        thorough=20000,
        rule="amount != 1 or a stack with per-model boxes",
        clauses="repeat_box(_coord): (2a+1)^3 copies, original first, exact lattice translates, every adjacent box once, indices tiled",
    ),
    Sub(
        "remove_pbc",
        st_remove_pbc,
        run_remove_pbc,
        quick=1600,
        thorough=50000,
        rule="(triclinic box or >= 2 models) and >= 1 selected molecule whose atoms carry different lattice shifts",
        clauses="remove_pbc moves atoms by lattice vectors, restores each molecule up to one lattice vector, bonded atoms at minimum-image distance, centroid inside the box",
    ),
    Sub(
        "transform",
        st_transform,
        run_transform,
        quick=2000,
        thorough=60000,
        rule="rank >= 2 and a rotation",
        clauses="translate/rotate/rotate_centered/rotate_about_axis equal the documented motion; all six preserve pair distances and handedness; align_vectors maps origin to target",
    ),
    Sub(
        "backbone",
        st_backbone,
        run_backbone,
        quick=600,
        thorough=15000,
        rule=">= 3 defined, well-conditioned backbone dihedrals",
        clauses="dihedral_backbone equals the textbook phi/psi/omega, NaN where undefined",
    ),
]

FINDINGS = {"remove_pbc_array_neighbours_beyond_half_box": _match_f1}
