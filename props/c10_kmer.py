"""
C10  k-mer indices find exactly the matching k-mers; selectors obey their
definitions.

Oracle (models/kmer_ref.py): a table is a list of (k-mer symbols, ref id,
position); a match is a triple (query position, ref id, ref position) whose
k-mers are identical at the informative positions - or, with a similarity rule,
whose summed substitution score reaches the threshold - and whose k-mers touch
no masked position.  Results are compared as multisets (a reference id may be
used twice); the documented order of ``match`` (first column ascending) is
checked separately.  Selectors are re-implemented from their definitions; the
sort keys of RandomPermutation / FrequencyPermutation are asked from the
permutation object (the selectors are defined through them), the permutation
classes are judged by the sub-check ``permutation``.

Where the documentation only says that an input is not supported (alphabet that
is not extended, sequence shorter than k) every exception type counts as a
refusal (label ``...:<ExceptionType>``) and a returned value must be the
correct one; see notes/audit/C10_applied.md.
"""

import json
import math
import pickle
from collections import Counter
from functools import lru_cache

import numpy as np
from hypothesis import strategies as st

from models import kmer_ref as ref
from vlib import Outcome, Sub, findings

PROPERTY = "C10"
RULE = (
    "random alphabets (2..6 symbols, 26 for the large-code bucket check, 255..70000 integer symbols for the k-mer alphabet check), k, spacing models, 1..5 "
    "references partly cut from a common text (forces shared k-mers), reference ids incl. duplicates "
    "and 2^32-1, ignore masks, queries cut from the references; tables built by every constructor, "
    "direct and bucketed (n_buckets 1, 2, prime near size, > size, default).  Non-trivial = some k-mer "
    "is stored for >= 2 references and the query has >= 1 match (bucketed: additionally two distinct "
    "k-mers share a bucket); selectors: >= 2 windows / k-mers with a tie in the ordering or a "
    "non-trivial selection (neither empty nor everything)"
)

LETTERS = ref.LETTERS
F1, F2, F3, F4, F5 = "C10-F1", "C10-F2", "C10-F3", "C10-F4", "C10-F5"
INT64_MAX = (1 << 63) - 1
INT64_MIN = -(1 << 63)

# Exceptions that are never read as "the input was rejected" (resource / interpreter trouble)
_NOT_A_REJECTION = (MemoryError, SystemError, RecursionError)


def _rejected(o, fn, tag):
    """Call fn().  (True, None) if it refused the input with an ordinary exception - the documentation
    promises only that such input is not supported, no exception type - else (False, value).  The
    exception type is recorded as a label."""
    try:
        value = fn()
    except _NOT_A_REJECTION:
        raise
    except Exception as exc:  # noqa: BLE001 - any exception type is a rejection, see docstring
        o.label(f"{tag}:{type(exc).__name__}")
        return True, None
    return False, value


# --------------------------------------------------------------------------
# biotite objects from plain data
# --------------------------------------------------------------------------
@lru_cache(maxsize=None)
def _alph(n):
    from biotite.sequence import LetterAlphabet

    return LetterAlphabet(LETTERS[:n])


def _seq(text, n):
    from biotite.sequence import GeneralSequence

    return GeneralSequence(_alph(n), text)


def _spacing_arg(case):
    sp = case["spacing"]
    if sp is None:
        return None
    form = case.get("spacing_form", "list")
    if form == "str":
        return "".join("1" if i in sp else "0" for i in range(max(sp) + 1))
    if form == "shuffled":
        return list(reversed(sp))
    if form == "array":
        return np.array(sp, dtype=np.int64)
    return list(sp)


def _kmer_alphabet(n, k, case):
    from biotite.sequence.align import KmerAlphabet

    return KmerAlphabet(_alph(n), k, _spacing_arg(case))


def _mask_arr(mask):
    return None if mask is None else np.array(mask, dtype=bool)


def _rule(case_rule):
    from biotite.sequence.align import ScoreThresholdRule, SubstitutionMatrix

    if case_rule is None:
        return None
    mn = len(case_rule["matrix"])
    m = SubstitutionMatrix(_alph(mn), _alph(mn), np.array(case_rule["matrix"], dtype=np.int32))
    return ScoreThresholdRule(m, case_rule["threshold"])


def _rows(arr, width):
    """ndarray (n, width) -> list of tuples of python ints (shape checked by caller)."""
    return [tuple(int(x) for x in row) for row in np.asarray(arr).reshape(-1, width).tolist()]


def _cmp_multiset(o, got, want, clause, what):
    cg, cw = Counter(got), Counter(want)
    if cg != cw:
        missing = sorted((cw - cg).elements())[:6]
        extra = sorted((cg - cw).elements())[:6]
        o.fail(clause, f"{what}: {len(got)} rows, expected {len(want)}; missing {missing} unexpected {extra}")
        return False
    return True


def _cmp_matches(o, got, want_full, want_required, clause, what):
    """Match rows against the model.  want_required is None: the rows must be exactly want_full.
    Otherwise (similarity rule, finding C10-F2 not listed as open): identical k-mers whose self-score
    is below the threshold may or may not be reported - want_required <= got <= want_full."""
    if want_required is None:
        return _cmp_multiset(o, got, want_full, clause, what)
    cg, cf, cr = Counter(got), Counter(want_full), Counter(want_required)
    missing = sorted((cr - cg).elements())[:6]
    extra = sorted((cg - cf).elements())[:6]
    if missing or extra:
        o.fail(clause, f"{what}: {len(got)} rows, expected {len(want_required)}..{len(want_full)}; missing {missing} unexpected {extra}")
        return False
    if cf != cr:
        o.label("identical_below_threshold:" + ("reported" if cg == cf else "not_reported" if cg == cr else "partly_reported"))
    return True


def _apply_break_label(o):
    if ref.BREAK:
        o.label("REFERENCE_BROKEN:" + ref.BREAK)


# --------------------------------------------------------------------------
# derived quantities of a table case (pure function of the case)
# --------------------------------------------------------------------------
class Env:
    pass


def _derive(case):
    e = Env()
    e.k = case["k"]
    e.offs = ref.offsets(e.k, case["spacing"])
    e.true_offs = list(range(e.k)) if case["spacing"] is None else sorted(case["spacing"])
    e.span = max(e.true_offs) + 1
    refs = case["refs"]
    e.all_refs = refs
    e.long_refs = [r for r in refs if len(r["seq"]) >= e.span]
    e.has_short = len(e.long_refs) != len(refs)
    # without an explicit alphabet the table alphabet is the one that extends all others
    e.n_table = case["n"] if case["explicit_alphabet"] else max(r["n"] for r in (e.long_refs or refs))
    e.n_table_all = case["n"] if case["explicit_alphabet"] else max(r["n"] for r in refs)
    if case["explicit_ids"]:
        e.ids = [r["id"] for r in e.long_refs]
        e.all_ids = [r["id"] for r in refs]
    else:
        e.ids = list(range(len(e.long_refs)))
        e.all_ids = None
    e.kind = case["kind"]
    e.n_buckets = case.get("n_buckets")
    return e


def _model_for(e, seq_dicts, ids):
    m = ref.TableModel(e.n_table, e.k)
    for r, rid in zip(seq_dicts, ids):
        m.add_sequence(ref.sym_codes(r["seq"]), rid, r.get("mask"), e.offs)
    return m


def _table_cls(kind):
    from biotite.sequence.align import BucketKmerTable, KmerTable

    return KmerTable if kind == "direct" else BucketKmerTable


def _bucket_kw(e):
    if e.kind == "bucket" and e.n_buckets is not None:
        return {"n_buckets": e.n_buckets}
    return {}


def _from_sequences(e, case, seq_dicts, ids, explicit_alphabet=None, force_ids=False, n_buckets=None):
    cls = _table_cls(e.kind)
    kw = _bucket_kw(e)
    if n_buckets is not None:
        kw = {"n_buckets": n_buckets}
    seqs = [_seq(r["seq"], r["n"]) for r in seq_dicts]
    masks = [_mask_arr(r.get("mask")) for r in seq_dicts]
    if all(m is None for m in masks) and not case.get("mask_list_of_none", False):
        masks = None
    if explicit_alphabet is None:
        explicit_alphabet = case["explicit_alphabet"]
    return cls.from_sequences(
        e.k,
        seqs,
        ref_ids=ids if (case["explicit_ids"] or force_ids) else None,
        ignore_masks=masks,
        alphabet=_alph(e.n_table) if explicit_alphabet else None,
        spacing=_spacing_arg(case),
        **kw,
    )


def _kmer_arrays(e, seq_dicts):
    """Per sequence: k-mer codes (model), kept flags."""
    out = []
    for r in seq_dicts:
        kms = ref.kmer_tuples(ref.sym_codes(r["seq"]), e.offs)
        keep = ref.kept_flags(len(kms), r.get("mask"), e.offs)
        out.append(([ref.code_of(km, e.n_table) for km in kms], keep))
    return out


def _groups(case, m):
    cuts = sorted({c % (m + 1) for c in case.get("split", [])} - {0, m})
    bounds = [0] + cuts + [m]
    return [(a, b) for a, b in zip(bounds[:-1], bounds[1:])]


def _build(e, case, mode, o=None):
    """Build the table holding the k-mers of e.long_refs with the given constructor."""
    cls = _table_cls(e.kind)
    seq_dicts, ids = e.long_refs, e.ids
    if mode == "sequences":
        return _from_sequences(e, case, seq_dicts, ids)
    if mode == "pickle":
        t = _from_sequences(e, case, seq_dicts, ids)
        return pickle.loads(pickle.dumps(t, protocol=case.get("pickle_protocol", 4)))
    ka = _kmer_alphabet(e.n_table, e.k, case)
    arrays = _kmer_arrays(e, seq_dicts)
    # default reference ids (0..m-1): the argument is left out
    ids_kw = {} if (not case["explicit_ids"] and case.get("default_ref_ids_omitted", False)) else {"ref_ids": ids}
    if not ids_kw and o is not None:
        o.label("ref_ids_omitted")
    if mode == "kmers":
        kmers = [np.array(codes, dtype=np.int64) for codes, _ in arrays]
        if all(r.get("mask") is None for r in seq_dicts):
            return cls.from_kmers(ka, kmers, masks=None, **ids_kw, **_bucket_kw(e))
        full = [np.array(keep, dtype=bool) for _, keep in arrays]
        if any(r.get("mask") is None for r in seq_dicts):
            # `None` for single sequences is documented for from_sequences(ignore_masks=) only: if
            # from_kmers refuses it, the documented form (one boolean array per sequence) is used
            mixed = [None if r.get("mask") is None else m for r, m in zip(seq_dicts, full)]
            refused, t = _rejected(o or Outcome(), lambda: cls.from_kmers(ka, kmers, masks=mixed, **ids_kw, **_bucket_kw(e)), "none_in_masks_refused")
            if not refused:
                return t
        return cls.from_kmers(ka, kmers, masks=full, **ids_kw, **_bucket_kw(e))
    if mode == "selection":
        kmers = [np.array([c for c, f in zip(codes, keep) if f], dtype=np.int64) for codes, keep in arrays]

        def make(pos_dtype):
            positions = [np.array([i for i, f in enumerate(keep) if f], dtype=pos_dtype) for _, keep in arrays]
            return cls.from_kmer_selection(ka, positions, kmers, **ids_kw, **_bucket_kw(e))

        if not case.get("pos_uint32", True):
            # documented dtype is uint32; another integer type may be refused
            refused, t = _rejected(o or Outcome(), lambda: make(np.int64), "int64_positions_refused")
            if not refused:
                return t
        return make(np.uint32)
    if mode == "positions":
        model = _model_for(e, seq_dicts, ids)

        def make(dtype):
            return cls.from_positions(ka, {code: np.array(v, dtype=dtype).reshape(-1, 2) for code, v in model.by_code().items()})

        if not case.get("pos_uint32", True):
            refused, t = _rejected(o or Outcome(), lambda: make(np.int64), "int64_positions_refused")
            if not refused:
                return t
        return make(np.uint32)
    if mode == "tables":
        parts = []
        for a, b in _groups(case, len(seq_dicts)):
            parts.append(_from_sequences(e, case, seq_dicts[a:b], ids[a:b], explicit_alphabet=True, force_ids=True))
        return cls.from_tables(parts)
    raise AssertionError(mode)


# --------------------------------------------------------------------------
# content comparison shared by the table sub-checks
# --------------------------------------------------------------------------
def _check_content(o, table, model, e, case, tag, getitem=True):
    n_codes = e.n_table**e.k
    by_code = model.by_code()
    got_kmers = [int(x) for x in table.get_kmers()]
    o.check_eq(sorted(got_kmers), sorted(by_code), "get_kmers", f"{tag}: get_kmers()")
    _check_len(o, table, n_codes, len(by_code), tag)
    probes = {p % n_codes for p in case.get("probe", [])}
    if n_codes <= 256:
        probes |= set(range(n_codes))
    probes |= set(by_code)
    probes = sorted(probes)
    if getitem:
        for code in probes:
            got = table[code]
            if not o.check(
                got.ndim == 2 and got.shape[1] == 2, "getitem", lambda: f"{tag}: table[{code}] has shape {got.shape}"
            ):
                break
            if not _cmp_multiset(o, _rows(got, 2), by_code.get(code, []), "getitem", f"{tag}: table[{code}]"):
                break
    sel = [p % n_codes for p in case.get("count_sel", [])] + probes[:5]
    if sel:
        got = table.count(np.array(sel, dtype=np.int64))
        o.check_eq([int(x) for x in got], [len(by_code.get(c, [])) for c in sel], "count", f"{tag}: count({sel})")
    if e.kind == "direct":
        got = table.count()
        o.check_eq([int(x) for x in got], [len(by_code.get(c, [])) for c in range(n_codes)], "count", f"{tag}: count()")
        for code in probes:
            if not o.check_eq(code in table, code in by_code, "contains", f"{tag}: {code} in table"):
                break
        o.check_eq(sorted(int(x) for x in table), sorted(by_code), "iteration", f"{tag}: iter(table)")


def _check_len(o, table, n_codes, n_stored, tag):
    """len(table) is not documented: the number of possible k-mers (the table is indexable by every
    k-mer code) and the number of stored k-mers (what iteration yields) are both consistent."""
    got = len(table)
    if got == n_codes:
        o.label("len=possible_kmers")
    elif got == n_stored:
        o.label("len=stored_kmers")
    else:
        o.fail("len", f"{tag}: len(table) = {got}, neither the number of possible k-mers {n_codes} nor of stored k-mers {n_stored}")


def _bucket_labels(o, table, model, e):
    nb = int(table.n_buckets)
    want_nb = e.n_buckets
    if want_nb is not None:
        # more buckets than possible k-mers: the (undocumented) cap at the alphabet size is accepted too
        o.check(nb in (want_nb, min(want_nb, e.n_table**e.k)), "n_buckets", lambda: f"n_buckets attribute {nb}, requested {want_nb}")
        if nb != want_nb:
            o.label("n_buckets_capped")
    buckets = {}
    for code in model.by_code():
        buckets.setdefault(code % nb, set()).add(code)
    collision = any(len(v) >= 2 for v in buckets.values())
    o.label("bucket_collision" if collision else "bucket_no_collision")
    return collision


# --------------------------------------------------------------------------
# sub-check: table_match
# --------------------------------------------------------------------------
def _short_reference_step(o, e, case):
    """A reference shorter than the k-mer span holds no k-mer.  biotite rejects
    the whole call (ValueError today; any exception type is accepted, none is
    documented); an index without that reference is accepted as well."""
    o.label("ref_shorter_than_span")
    refused, t = _rejected(o, lambda: _from_sequences(e, case, e.all_refs, e.all_ids), "short_ref_rejected")
    if refused:
        return
    o.label("short_ref_accepted")
    e2 = Env()
    e2.__dict__.update(e.__dict__)
    e2.n_table = e.n_table_all
    model = _model_for(e2, e.long_refs, [i for r, i in zip(e.all_refs, e.all_ids or range(len(e.all_refs))) if len(r["seq"]) >= e.span])
    _check_content(o, t, model, e2, case, "with short reference")


def run_table_match(case):
    o = Outcome()
    _apply_break_label(o)
    for fid in case.get("narrowed", []):
        o.exclude(fid)
    e = _derive(case)
    mode = case["build"]
    o.label(e.kind, "build=" + mode, "spaced" if case["spacing"] is not None else "contiguous")
    o.label(f"n_refs={len(case['refs'])}")
    if any(len(r["seq"]) in (e.span - 1, e.span, e.span + 1) for r in case["refs"]):
        o.label("ref_len_span-1..span+1")
    if any(r.get("mask") and any(r["mask"]) for r in case["refs"]):
        o.label("ref_masked")
    if e.kind == "bucket":
        o.label("nb_class=" + str(case.get("nb_class")))
    if case.get("f1_safe"):
        o.label("spaced&ref_masked&built_from_kmers(F1_safe)")
    if e.has_short and not case.get("f1_safe"):
        _short_reference_step(o, e, case)
    if not e.long_refs:
        o.label("no_usable_reference")
        return o

    table = _build(e, case, mode, o)
    model = _model_for(e, e.long_refs, e.ids)
    _check_content(o, table, model, e, case, mode)
    collision = _bucket_labels(o, table, model, e) if e.kind == "bucket" else True

    ref_sets = {}
    for ridx, r in enumerate(e.long_refs):
        for km in set(ref.kmer_tuples(ref.sym_codes(r["seq"]), e.offs)):
            ref_sets.setdefault(km, set()).add(ridx)
    repeated = any(len(v) >= 2 for km, v in ref_sets.items() if km in model.by_kmer)
    if repeated:
        o.label("kmer_repeated_across_refs")
    if len(set(e.ids)) < len(e.ids):
        o.label("duplicate_ref_ids")

    rule_case = case.get("rule")
    rule = _rule(rule_case)
    o.label("rule" if rule is not None else "exact")

    # ---- match(sequence)
    q = case["query"]
    q_len_class = len(q["seq"]) - e.span
    if -1 <= q_len_class <= 1:
        o.label("query_len_span-1..span+1")
    q_mask = _mask_arr(q.get("mask"))
    if q.get("mask") and any(q["mask"]):
        o.label("query_masked")
    n_matches = 0
    # finding C10-F2 (identical k-mers below the similarity threshold): while it is listed as open the
    # model demands them (the generator keeps the class out); otherwise both readings are accepted
    lenient = rule_case is not None and not findings.is_open(F2)
    long_enough = len(q["seq"]) >= e.span
    if long_enough:
        q_kmers = ref.kmer_tuples(ref.sym_codes(q["seq"]), e.offs)
        q_keep = ref.kept_flags(len(q_kmers), q.get("mask"), e.offs)
        want = ref.match_sequence(model, q_kmers, q_keep, rule_case)
        want_req = ref.match_sequence(model, q_kmers, q_keep, rule_case, identical_always=False) if lenient else None

    def do_match():
        return table.match(_seq(q["seq"], q["n"]), similarity_rule=rule, ignore_mask=q_mask)

    def check_match(got):
        if o.check(got.ndim == 2 and got.shape[1] == 3, "match", lambda: f"match() shape {got.shape}"):
            rows = _rows(got, 3)
            _cmp_matches(o, rows, want, want_req, "match", "match(query)")
            col0 = [r[0] for r in rows]
            o.check(col0 == sorted(col0), "match_ordered_by_first_column", lambda: f"first column {col0[:30]}")

    if q["n"] > e.n_table:
        # "The table's base alphabet must extend the alphabet of the sequence": the call is refused (no
        # exception type is documented) - or, the query holding table symbols only, answered correctly
        o.label("query_alphabet_too_large")
        refused, got = _rejected(o, do_match, "foreign_query_rejected")
        if not refused:
            o.label("foreign_query_accepted")
            if long_enough:
                check_match(got)
            else:
                o.check_eq(len(got), 0, "incompatible_alphabet_rejected", "query over a larger alphabet and shorter than the k-mer span")
    elif not long_enough:
        o.label("query_shorter_than_span")
        refused, got = _rejected(o, do_match, "short_query_rejected")
        if not refused:
            o.check_eq(len(got), 0, "match", "query shorter than the k-mer span")
    else:
        check_match(do_match())
        n_matches = len(want)
        if n_matches:
            o.label("has_match")

        # ---- match_table(other)
        others = [q] + ([case["query2"]] if case.get("query2") and len(case["query2"]["seq"]) >= e.span else [])
        others = [x for x in others if x["n"] <= e.n_table]
        other_ids = case.get("other_ids", [7, 8])[: len(others)]
        other_model = _model_for(e, others, other_ids)
        other = _from_sequences(
            e, case, others, other_ids, explicit_alphabet=True, force_ids=True,
            n_buckets=int(table.n_buckets) if e.kind == "bucket" else None,
        )
        if e.kind == "bucket" and int(other.n_buckets) != int(table.n_buckets):
            # default bucket numbers depend on the table size: documented precondition not met
            o.label("match_table_skipped_bucket_mismatch")
        else:
            want4 = ref.match_tables(model, other_model, rule_case)
            want4_req = ref.match_tables(model, other_model, rule_case, identical_always=False) if lenient else None
            got4 = table.match_table(other, similarity_rule=rule)
            if o.check(got4.ndim == 2 and got4.shape[1] == 4, "match_table", lambda: f"match_table() shape {got4.shape}"):
                _cmp_matches(o, _rows(got4, 4), want4, want4_req, "match_table", "match_table(other)")
            if len(others) > 1:
                o.label("other_table_2_refs")
            if rule is not None and e.kind == "bucket" and int(table.n_buckets) > 1:
                if len(want4) > len(ref.match_tables(model, other_model, None)):
                    o.label("match_table:rule_admits_non_identical&n_buckets>1")

        # ---- match_kmer_selection(positions, kmers)
        n_codes = e.n_table**e.k
        sel = []
        for pos_raw, code_raw, from_query in case.get("sel", []):
            if from_query and q_kmers:
                i = pos_raw % len(q_kmers)
                sel.append((i, q_kmers[i]))
            else:
                sel.append((pos_raw % (1 << 32), ref.split_code(code_raw % n_codes, e.n_table, e.k)))
        if sel:
            sel_codes = np.array([ref.code_of(km, e.n_table) for _, km in sel], dtype=np.int64)

            def do_sel(pos_dtype):
                return table.match_kmer_selection(np.array([p for p, _ in sel], dtype=pos_dtype), sel_codes)

            refused = True
            if not case.get("pos_uint32", True):
                # documented dtype is uint32; another integer type may be refused
                refused, got3 = _rejected(o, lambda: do_sel(np.int64), "int64_positions_refused")
            if refused:
                got3 = do_sel(np.uint32)
            want3 = ref.match_selection(model, sel)
            if o.check(got3.ndim == 2 and got3.shape[1] == 3, "match_kmer_selection", lambda: f"shape {got3.shape}"):
                _cmp_multiset(o, _rows(got3, 3), want3, "match_kmer_selection", "match_kmer_selection()")
            if want3:
                o.label("selection_has_match")

    masked = any(x.get("mask") and any(x["mask"]) for x in case["refs"] + [q])
    if rule is not None and e.kind == "bucket" and collision:
        o.label("rule&bucket&collision")
    if rule is not None and case["spacing"] is not None:
        o.label("rule&spaced")
    if masked and e.kind == "bucket":
        o.label("masked&bucket")
    if masked and case["spacing"] is not None:
        o.label("masked&spaced")
    o.mark_nontrivial(repeated and n_matches >= 1 and collision)
    return o


# --------------------------------------------------------------------------
# sub-check: constructors_equal
# --------------------------------------------------------------------------
def run_constructors_equal(case):
    o = Outcome()
    _apply_break_label(o)
    for fid in case.get("narrowed", []):
        o.exclude(fid)
    e = _derive(case)
    o.label(e.kind, "spaced" if case["spacing"] is not None else "contiguous")
    if not e.long_refs:
        o.label("no_usable_reference")
        return o
    model = _model_for(e, e.long_refs, e.ids)
    modes = ["sequences", "kmers", "selection", "tables", "pickle"] + (["positions"] if e.kind == "direct" else [])
    if e.kind == "bucket" and e.n_buckets is None:
        # sub-tables of different size get different default bucket numbers
        modes.remove("tables")
    tables = {}
    for mode in modes:
        tables[mode] = _build(e, case, mode, o)
        _check_content(o, tables[mode], model, e, case, mode)
    base = tables["sequences"]
    # `==` of tables is undocumented and (today) sensitive to the order in which the entries were added.
    # Demanded: a table equals itself and its pickle round trip (the pickle was made from `base`), and
    # `!=` is the negation of `==`.  For the other constructors the content was compared above
    # (_check_content); whether `==` holds as well is recorded as a label only.
    o.check(base == base and not (base != base), "equal_content_equal_tables", "table != itself")
    for mode in modes[1:]:
        t = tables[mode]
        if e.kind == "bucket" and int(t.n_buckets) != int(base.n_buckets):
            o.label("eq_skipped_bucket_mismatch")
            continue
        eq, eq_rev, ne = bool(base == t), bool(t == base), bool(base != t)
        o.check(eq == eq_rev and ne == (not eq), "equal_content_equal_tables", lambda: f"from_sequences vs {mode}: a == b is {eq}, b == a is {eq_rev}, a != b is {ne}")
        if mode == "pickle":
            o.check(eq, "equal_content_equal_tables", lambda: f"from_sequences != its pickle round trip\n{base}\n--\n{t}")
        else:
            o.label(f"eq[{mode}]={eq}")
    if len(_groups(case, len(e.long_refs))) >= 2:
        o.label("merged_from_>=2_tables")
    # tables with different content are different
    if model.entries:
        smaller = model.copy_without_last()
        cls = _table_cls(e.kind)
        ka = _kmer_alphabet(e.n_table, e.k, case)
        by_ref = {}
        order = []
        for km, rid, pos in smaller.entries:
            if rid not in by_ref:
                by_ref[rid] = ([], [])
                order.append(rid)
            by_ref[rid][0].append(pos)
            by_ref[rid][1].append(ref.code_of(km, e.n_table))
        kw = {"n_buckets": int(base.n_buckets)} if e.kind == "bucket" else {}
        if order:
            other = cls.from_kmer_selection(
                ka,
                [np.array(by_ref[r][0], dtype=np.uint32) for r in order],
                [np.array(by_ref[r][1], dtype=np.int64) for r in order],
                ref_ids=order,
                **kw,
            )
            o.check(not (base == other), "different_content_different_tables", "table == table without its last entry")
            o.check(base != other, "different_content_different_tables", "not (table != table without its last entry)")
        # same number of entries, one position / one reference id changed
        for what in ("position", "ref_id"):
            by_ref, order = {}, []
            last = len(model.entries) - 1
            for idx, (km, rid, pos) in enumerate(model.entries):
                if rid not in by_ref:
                    by_ref[rid] = ([], [])
                    order.append(rid)
                by_ref[rid][0].append(pos + 1 if (idx == last and what == "position") else pos)
                by_ref[rid][1].append(ref.code_of(km, e.n_table))
            ids2 = list(order)
            if what == "ref_id":
                ids2[-1] = (ids2[-1] + 1) % (1 << 32)
            same = cls.from_kmer_selection(
                ka,
                [np.array(by_ref[r][0], dtype=np.uint32) for r in order],
                [np.array(by_ref[r][1], dtype=np.int64) for r in order],
                ref_ids=ids2,
                **kw,
            )
            o.check(not (base == same), "different_content_different_tables", f"table == table with one {what} changed")
    ref_sets = {}
    for ridx, r in enumerate(e.long_refs):
        for km in set(ref.kmer_tuples(ref.sym_codes(r["seq"]), e.offs)):
            ref_sets.setdefault(km, set()).add(ridx)
    repeated = any(len(v) >= 2 for km, v in ref_sets.items() if km in model.by_kmer)
    collision = _bucket_labels(o, base, model, e) if e.kind == "bucket" else True
    o.mark_nontrivial(repeated and collision and len(e.long_refs) >= 2)
    return o


# --------------------------------------------------------------------------
# sub-check: bucket_big  (k-mer codes beyond 32 bit)
# --------------------------------------------------------------------------
def run_bucket_big(case):
    from biotite.sequence.align import BucketKmerTable, KmerAlphabet

    o = Outcome()
    _apply_break_label(o)
    for fid in case.get("narrowed", []):
        o.exclude(fid)
    n, k = case["n"], case["k"]
    offs = list(range(k))
    n_codes = n**k
    assert (1 << 32) < n_codes < (1 << 63)
    refs = [r for r in case["refs"] if len(r["seq"]) >= k]
    if not refs:
        o.label("no_usable_reference")
        return o
    ids = [r["id"] for r in refs]
    model = ref.TableModel(n, k)
    for r in refs:
        model.add_sequence(ref.sym_codes(r["seq"]), r["id"], None, offs)
    kw = {} if case["n_buckets"] is None else {"n_buckets": case["n_buckets"]}
    table = BucketKmerTable.from_sequences(k, [_seq(r["seq"], n) for r in refs], ref_ids=ids, **kw)
    if case.get("pickled"):
        t2 = pickle.loads(pickle.dumps(table))
        o.check(t2 == table, "equal_content_equal_tables", "pickle round trip")
        table = t2
        o.label("pickled")
    by_code = model.by_code()
    big = [c for c in by_code if c >= (1 << 32)]
    o.label("codes>=2^32" if big else "codes<2^32_only")
    _check_len(o, table, n_codes, len(by_code), "bucket_big")
    o.check_eq(sorted(int(x) for x in table.get_kmers()), sorted(by_code), "get_kmers", "get_kmers()")
    probes = sorted(set(by_code) | {p % n_codes for p in case["probe"]} | {c % (1 << 32) for c in by_code})
    got = table.count(np.array(probes, dtype=np.int64))
    o.check_eq([int(x) for x in got], [len(by_code.get(c, [])) for c in probes], "count", "count(kmers)")
    if case["check_getitem"]:
        for code in probes:
            if not _cmp_multiset(o, _rows(table[code], 2), by_code.get(code, []), "getitem", f"table[{code}]"):
                break
    nb = int(table.n_buckets)
    buckets = {}
    for c in by_code:
        buckets.setdefault(c % nb, set()).add(c)
    collision = any(len(v) > 1 for v in buckets.values())
    o.label("bucket_collision" if collision else "bucket_no_collision")
    # matching
    q = case["query"]
    n_matches = 0
    if len(q["seq"]) >= k:
        q_kmers = ref.kmer_tuples(ref.sym_codes(q["seq"]), offs)
        want = ref.match_sequence(model, q_kmers, [True] * len(q_kmers), None)
        got = table.match(_seq(q["seq"], n))
        rows = _rows(got, 3)
        _cmp_multiset(o, rows, want, "match", "match(query)")
        o.check([r[0] for r in rows] == sorted(r[0] for r in rows), "match_ordered_by_first_column", "first column")
        n_matches = len(want)
        other_model = ref.TableModel(n, k)
        other_model.add_sequence(ref.sym_codes(q["seq"]), 9, None, offs)
        other = BucketKmerTable.from_sequences(k, [_seq(q["seq"], n)], ref_ids=[9], n_buckets=nb)
        got4 = table.match_table(other)
        _cmp_multiset(o, _rows(got4, 4), ref.match_tables(model, other_model, None), "match_table", "match_table(other)")
        sel = [(i, km) for i, km in enumerate(q_kmers) if i % 2 == 0]
        ka = KmerAlphabet(_alph(n), k)
        got3 = table.match_kmer_selection(
            np.array([p for p, _ in sel], dtype=np.uint32),
            np.array([ref.code_of(km, n) for _, km in sel], dtype=np.int64),
        )
        _cmp_multiset(o, _rows(got3, 3), ref.match_selection(model, sel), "match_kmer_selection", "match_kmer_selection()")
        # the table built from model-computed codes holds the same content (`==` itself is
        # undocumented and order sensitive: recorded as a label)
        t3 = BucketKmerTable.from_kmers(
            ka,
            [np.array([ref.code_of(km, n) for km in ref.kmer_tuples(ref.sym_codes(r["seq"]), offs)], dtype=np.int64) for r in refs],
            ref_ids=ids,
            n_buckets=nb,
        )
        o.label(f"eq[kmers]={bool(t3 == table)}")
        o.check_eq(sorted(int(x) for x in t3.get_kmers()), sorted(by_code), "get_kmers", "from_kmers(model codes): get_kmers()")
        got = t3.count(np.array(probes, dtype=np.int64))
        o.check_eq([int(x) for x in got], [len(by_code.get(c, [])) for c in probes], "count", "from_kmers(model codes): count(kmers)")
        _cmp_multiset(o, _rows(t3.match(_seq(q["seq"], n)), 3), want, "match", "from_kmers(model codes): match(query)")
    if n_matches:
        o.label("has_match")
    o.mark_nontrivial(bool(big) and n_matches >= 1 and collision)
    return o


# --------------------------------------------------------------------------
# sub-check: similar_kmers
# --------------------------------------------------------------------------
def run_similar_kmers(case):
    from biotite.sequence.align import KmerAlphabet

    o = Outcome()
    _apply_break_label(o)
    n, k = case["n"], case["k"]
    rule = _rule(case["rule"])
    ka = KmerAlphabet(_alph(n), k)
    code = case["kmer"] % (n**k)
    kmer = ref.split_code(code, n, k)
    want = sorted(ref.code_of_plain(b, n) for b in ref.similar_set(kmer, n, k, case["rule"]["matrix"], case["rule"]["threshold"]))
    got = [int(x) for x in rule.similar_kmers(ka, code)]
    o.check_eq(len(got), len(set(got)), "similar_kmers_no_duplicates", "duplicates in similar_kmers()")
    # the k-mer itself may always be reported (SimilarityRule contract), see finding C10-F2
    ok = sorted(set(got)) == want or sorted(set(got)) == sorted(set(want) | {code})
    o.check(ok, "similar_kmers", lambda: f"kmer {kmer} T={case['rule']['threshold']}: got {sorted(got)[:40]} want {want[:40]}")
    frac = len(want) / n**k
    o.label("similar=none" if not want else "similar=all" if len(want) == n**k else "similar=some")
    if len(case["rule"]["matrix"]) > n:
        o.label("matrix_alphabet_larger")
    o.mark_nontrivial(0 < frac < 1 and len(want) >= 2)
    return o


# --------------------------------------------------------------------------
# permutations (shared by the selector sub-checks)
# --------------------------------------------------------------------------
class ObjectPerm:
    """Sort keys as the biotite Permutation object hands them out.  The selectors are defined through
    "the ordering of the sort keys from Permutation.permute()", so their oracle asks the object for
    the keys; what the permutation classes themselves promise is decided by the sub-check `permutation`."""

    kind = "object"

    def __init__(self, perm, size):
        self.perm = perm
        self.size = size
        self._keys = {}
        if size <= 5000:
            self._keys = {c: int(v) for c, v in enumerate(perm.permute(np.arange(size, dtype=np.int64)))}

    def key(self, code):
        v = self._keys.get(code)
        if v is None:
            v = self._keys[code] = int(self.perm.permute(np.array([code], dtype=np.int64))[0])
        return v

    @property
    def min(self):
        return int(self.perm.min)

    @property
    def max(self):
        return int(self.perm.max)


def _biotite_permutation(pcase, n, k, spacing_case=None):
    """(RandomPermutation | FrequencyPermutation, counts or None)"""
    from biotite.sequence.align import FrequencyPermutation, KmerAlphabet, RandomPermutation

    if pcase["type"] == "random":
        return RandomPermutation(), None
    rng = np.random.default_rng(pcase["seed"])
    counts = rng.integers(0, pcase["cmax"] + 1, size=n**k)
    ka = KmerAlphabet(_alph(n), k) if spacing_case is None else _kmer_alphabet(n, k, spacing_case)
    return FrequencyPermutation(ka, counts.astype(np.int64)), counts.tolist()


def _perm_pair(pcase, n, k, spacing_case=None):
    """(biotite permutation or None, key model) for k-mers of size k over n symbols."""
    size = n**k
    kind = pcase["type"]
    if kind == "none":
        return None, ref.PermModel("none", size)
    if kind == "table":
        return _table_permutation(pcase["keys"]), ref.PermModel("table", size, list(pcase["keys"]))
    perm, _ = _biotite_permutation(pcase, n, k, spacing_case)
    return perm, ObjectPerm(perm, size)


def _table_permutation(keys):
    """A user-defined Permutation: an arbitrary injective map k-mer code -> int64 sort key."""
    from biotite.sequence.align import Permutation

    class TablePermutation(Permutation):
        def __init__(self, keys):
            self._keys = np.array(keys, dtype=np.int64)

        @property
        def min(self):
            return int(self._keys.min())

        @property
        def max(self):
            return int(self._keys.max())

        def permute(self, kmers):
            return self._keys[kmers]

    return TablePermutation(keys)


def _signed64(v):
    v %= 1 << 64
    return v - (1 << 64) if v >= (1 << 63) else v


def _check_frequency_order(o, keys, counts, lo, hi, what):
    """keys/counts: per k-mer code.  Less frequent k-mers are smaller, the keys are distinct and inside
    [lo, hi]; that they are exactly the ranks lo..hi and how k-mers of equal frequency are ordered is
    not documented (labels)."""
    size = len(keys)
    o.check_eq(len(set(keys)), size, "permutation_unambiguous", f"{what}: two k-mers with the same sort key")
    o.check(lo <= min(keys) and max(keys) <= hi, "permutation_range", lambda: f"{what}: sort keys {min(keys)}..{max(keys)} outside [min, max] = [{lo}, {hi}]")
    o.label("freq_keys=exactly_min..max" if sorted(keys) == list(range(lo, hi + 1)) else "freq_keys=other")
    by_key = sorted(range(size), key=lambda c: keys[c])
    o.check(
        all(counts[a] <= counts[b] for a, b in zip(by_key[:-1], by_key[1:])),
        "permutation_order",
        lambda: f"{what}: a more frequent k-mer has a smaller sort key; counts in key order {[counts[c] for c in by_key][:40]}",
    )
    if len(set(counts)) < size:
        o.label("freq_ties_by_code" if keys == ref.frequency_ranks(counts) else "freq_ties_other_order")


def run_permutation(case):
    from biotite.sequence.align import FrequencyPermutation, KmerTable

    o = Outcome()
    _apply_break_label(o)
    n, k = case["n"], case["k"]
    size = n**k
    kind = case["perm"]["type"]
    perm, counts = _biotite_permutation(case["perm"], n, k)
    perm2, _ = _biotite_permutation(case["perm"], n, k)
    o.label("perm=" + kind)
    codes = [c % size for c in case["codes"]]
    arr = np.array(codes, dtype=np.int64)
    got = [int(x) for x in perm.permute(arr)]
    lo, hi = int(perm.min), int(perm.max)
    o.check(all(lo <= g <= hi for g in got), "permutation_range", lambda: f"value outside [min, max] = [{lo}, {hi}]: {got}")
    o.check_eq([int(x) for x in perm2.permute(arr)], got, "permutation_deterministic", "a second permutation object of the same kind gives other sort keys")
    o.check_eq([int(x) for x in perm.permute(arr)], got, "permutation_deterministic", "second call of permute()")
    by_code = dict(zip(codes, got))
    o.check_eq(len(set(by_code.values())), len(by_code), "permutation_unambiguous", "two k-mers with the same sort key")
    if kind == "random":
        # documented: order = (a * c + 1) mod 2^64 (as int64); the factor itself is only cited, so it is
        # read off the object (key of code 1) and the formula is checked with it
        k0, k1 = (int(x) for x in perm.permute(np.array([0, 1], dtype=np.int64)))
        a = (k1 - 1) % (1 << 64)
        o.check_eq(k0, 1, "permutation_lcg_formula", "sort key of k-mer code 0 (documented: (a*0 + 1) mod 2^64)")
        o.check_eq(got, [_signed64(a * c + 1) for c in codes], "permutation_lcg_formula", f"permute(codes) vs (a*c + 1) mod 2^64 with a = {a:#x}")
        o.check(a % 2 == 1, "permutation_unambiguous", lambda: f"LCG factor {a:#x} is even: the order is ambiguous")
        o.label("lcg_factor=docstring_example" if a == ref.LCG_A else "lcg_factor=other")
        if size <= 1300:
            all_keys = [int(x) for x in perm.permute(np.arange(size, dtype=np.int64))]
            o.check_eq(len(set(all_keys)), size, "permutation_unambiguous", "two k-mers with the same sort key")
        o.mark_nontrivial(len(set(codes)) >= 2)
    else:
        all_keys = [int(x) for x in perm.permute(np.arange(size, dtype=np.int64))]
        o.check_eq([all_keys[c] for c in codes], got, "permutation_deterministic", "permute(all codes) vs permute(codes)")
        _check_frequency_order(o, all_keys, counts, lo, hi, "FrequencyPermutation(counts)")
        # from_table: counts taken from a table
        seq = case["seq"]
        if len(seq) >= k:
            t = KmerTable.from_sequences(k, [_seq(seq, n)], alphabet=_alph(n))
            tcounts = [0] * size
            for km in ref.kmer_tuples(ref.sym_codes(seq), list(range(k))):
                tcounts[ref.code_of_plain(km, n)] += 1
            fp = FrequencyPermutation.from_table(t)
            keys = [int(x) for x in fp.permute(np.arange(size, dtype=np.int64))]
            _check_frequency_order(o, keys, tcounts, int(fp.min), int(fp.max), "FrequencyPermutation.from_table")
            o.label("from_table")
        o.mark_nontrivial(case["perm"]["cmax"] >= 1 and len(set(codes)) >= 2)
    return o


# --------------------------------------------------------------------------
# selector helpers
# --------------------------------------------------------------------------
def _check_selection(o, got, want_pos, all_codes, clause, what, index_check=True):
    """got = (positions, kmers) from biotite; want_pos = expected k-mer positions."""
    pos, kmers = got
    pos = np.asarray(pos)
    ok = True
    if index_check:
        if not o.check(
            pos.dtype.kind in "iu" and pos.ndim == 1,
            clause + "_returns_indices",
            lambda: f"{what}: first return value is a {pos.dtype} array of shape {pos.shape}, expected k-mer positions",
        ):
            return False
        got_pos = [int(x) for x in pos]
    else:
        # open finding: a boolean mask over the k-mers is returned instead of positions
        if pos.dtype == bool:
            got_pos = [int(x) for x in np.flatnonzero(pos)]
        else:
            got_pos = [int(x) for x in pos]
    ok &= o.check_eq(sorted(got_pos), list(want_pos), clause, f"{what}: positions")
    ok &= o.check_eq(len(got_pos), len(set(got_pos)), clause, f"{what}: duplicate positions")
    if ok:
        got_k = [int(x) for x in kmers]
        o.check_eq(got_k, [all_codes[p] for p in got_pos], clause, f"{what}: k-mer codes at the positions")
    return ok


def _expect_too_short(o, fn, clause, what):
    """Fewer k-mers than needed: refused (no exception type documented) or an empty selection."""
    refused, got = _rejected(o, fn, "too_short_rejected")
    if refused:
        return
    pos, kmers = got
    if np.asarray(pos).dtype == bool:  # open finding C10-F3: a mask over the k-mers instead of positions
        pos = np.flatnonzero(pos)
    o.check_eq((len(pos), len(kmers)), (0, 0), clause, what)


def _foreign_alphabet_step(o, fn, want_pos, codes, clause, what, index_check=True):
    """select() with a sequence over an alphabet the selector's alphabet does not extend ("must be
    compatible"): refused with any exception type - or, the sequence holding only symbols of the
    selector's alphabet, answered like the same sequence over the right alphabet (want_pos None =
    sequence too short for a selection)."""
    refused, got = _rejected(o, fn, "foreign_alphabet_rejected")
    if refused:
        return
    o.label("foreign_alphabet_accepted")
    if want_pos is None:
        pos, kmers = got
        if np.asarray(pos).dtype == bool:
            pos = np.flatnonzero(pos)
        o.check_eq((len(pos), len(kmers)), (0, 0), "incompatible_alphabet_rejected", what)
    else:
        _check_selection(o, got, want_pos, codes, clause, what, index_check)


# --------------------------------------------------------------------------
# sub-check: minimizer
# --------------------------------------------------------------------------
def run_minimizer(case):
    from biotite.sequence.align import MinimizerSelector

    o = Outcome()
    _apply_break_label(o)
    for fid in case.get("narrowed", []):
        o.exclude(fid)
    n, k, window = case["n"], case["k"], case["window"]
    offs = ref.offsets(k, case["spacing"])
    true_span = (k if case["spacing"] is None else max(case["spacing"]) + 1)
    perm, pm = _perm_pair(case["perm"], n, k, case)
    ka = _kmer_alphabet(n, k, case)
    selector = MinimizerSelector(ka, window, perm)
    o.label("perm=" + case["perm"]["type"], "spaced" if case["spacing"] is not None else "contiguous")
    seq = case["seq"]
    nontrivial = False
    seq_want, codes = None, []
    if len(seq) < true_span:
        o.label("seq_shorter_than_span")
        _expect_too_short(o, lambda: selector.select(_seq(seq, n)), "minimizer", "sequence shorter than k")
    else:
        kms = ref.kmer_tuples(ref.sym_codes(seq), offs)
        codes = [ref.code_of_plain(km, n) for km in kms]
        keys = [pm.key(c) for c in codes]
        d = len(codes) - window
        o.label("n_kmers-window=" + ("<0" if d < 0 else str(d) if d <= 1 else ">=2"))
        if len(codes) % window == 0:
            o.label("n_kmers_multiple_of_window")
        if d < 0:
            _expect_too_short(o, lambda: selector.select(_seq(seq, n)), "minimizer", "fewer k-mers than the window")
            _expect_too_short(
                o, lambda: selector.select_from_kmers(np.array(codes, dtype=np.int64)), "minimizer", "fewer k-mers than the window"
            )
        else:
            want = seq_want = ref.minimizer_positions(keys, window)
            _check_selection(o, selector.select(_seq(seq, n)), want, codes, "minimizer", "select(sequence)")
            _check_selection(
                o, selector.select(_seq(seq, n), alphabet_check=False), want, codes, "minimizer", "select(sequence, alphabet_check=False)"
            )
            _check_selection(
                o, selector.select_from_kmers(np.array(codes, dtype=np.int64)), want, codes, "minimizer", "select_from_kmers(k-mers of the sequence)"
            )
            tie = any(
                keys[w : w + window].count(min(keys[w : w + window])) >= 2 for w in range(len(keys) - window + 1)
            )
            if tie:
                o.label("tie_in_window")
            nontrivial = d >= 1 and (tie or 1 < len(want) < len(codes))
    # arbitrary k-mer codes
    free = [c % (n**k) for c in case["free_kmers"]]
    if len(free) >= window:
        keys = [pm.key(c) for c in free]
        want = ref.minimizer_positions(keys, window)
        _check_selection(o, selector.select_from_kmers(np.array(free, dtype=np.int64)), want, free, "minimizer", "select_from_kmers(arbitrary codes)")
        o.label("free_kmers")
    if case.get("wrong_alphabet"):
        o.label("wrong_alphabet")
        _foreign_alphabet_step(
            o, lambda: selector.select(_seq(seq, n + 1)), seq_want, codes, "minimizer", "select() with a larger sequence alphabet"
        )
    o.mark_nontrivial(nontrivial)
    return o


# --------------------------------------------------------------------------
# sub-check: syncmer
# --------------------------------------------------------------------------
def run_syncmer(case):
    from biotite.sequence.align import CachedSyncmerSelector, SyncmerSelector

    o = Outcome()
    _apply_break_label(o)
    for fid in case.get("narrowed", []):
        o.exclude(fid)
    n, k, s = case["n"], case["k"], case["s"]
    offset = case["offset"]
    perm, pm = _perm_pair(case["perm"], n, s)
    allowed = ref.syncmer_allowed(k, s, offset)
    o.label("perm=" + case["perm"]["type"])
    if any(x < 0 for x in offset):
        o.label("negative_offset")
    if len(offset) > 1:
        o.label("several_offsets")
    plain = SyncmerSelector(_alph(n), k, s, perm, tuple(offset))
    selectors = [("plain", plain)]
    if case["cached"]:
        selectors.append(("cached", CachedSyncmerSelector(_alph(n), k, s, perm, tuple(offset))))
        o.label("cached")
    seq = case["seq"]
    nontrivial = False
    results = {}
    seq_want, codes = None, []
    if len(seq) < k:
        o.label("seq_shorter_than_k")
        for name, sel in selectors:
            _expect_too_short(o, lambda sel=sel: sel.select(_seq(seq, n)), "syncmer", f"{name}: sequence shorter than k")
    else:
        kms = ref.kmer_tuples(ref.sym_codes(seq), list(range(k)))
        codes = [ref.code_of_plain(km, n) for km in kms]
        want = seq_want = [i for i, km in enumerate(kms) if ref.is_syncmer(km, s, n, pm, allowed)]
        o.label("n_kmers=" + (str(len(kms)) if len(kms) <= 2 else ">=3"))
        for name, sel in selectors:
            results[name] = _check_selection(o, sel.select(_seq(seq, n)), want, codes, "syncmer", f"{name}.select(sequence)")
            _check_selection(
                o, sel.select(_seq(seq, n), alphabet_check=False), want, codes, "syncmer", f"{name}.select(sequence, alphabet_check=False)"
            )
            _check_selection(
                o, sel.select_from_kmers(np.array(codes, dtype=np.int64)), want, codes, "syncmer", f"{name}.select_from_kmers(k-mers of the sequence)"
            )
        ties = any(
            [pm.key(ref.code_of_plain(km[j : j + s], n)) for j in range(k - s + 1)].count(
                min(pm.key(ref.code_of_plain(km[j : j + s], n)) for j in range(k - s + 1))
            )
            >= 2
            for km in kms
        )
        if ties:
            o.label("tie_in_kmer")
        nontrivial = len(kms) >= 2 and (ties or 0 < len(want) < len(kms))
    free = [c % (n**k) for c in case["free_kmers"]]
    if free:
        want = [i for i, c in enumerate(free) if ref.is_syncmer(ref.split_code(c, n, k), s, n, pm, allowed)]
        got = {}
        for name, sel in selectors:
            r = sel.select_from_kmers(np.array(free, dtype=np.int64))
            got[name] = [int(x) for x in r[0]]
            _check_selection(o, r, want, free, "syncmer", f"{name}.select_from_kmers(arbitrary codes)")
        if len(got) == 2:
            o.check_eq(got["cached"], got["plain"], "syncmer_cached_equals_plain", "select_from_kmers")
    if case.get("wrong_alphabet"):
        o.label("wrong_alphabet")
        for name, sel in selectors:
            _foreign_alphabet_step(
                o, lambda sel=sel: sel.select(_seq(seq, n + 1)), seq_want, codes, "syncmer", f"{name}.select() with a larger alphabet"
            )
    o.mark_nontrivial(nontrivial)
    return o


# --------------------------------------------------------------------------
# sub-check: mincode
# --------------------------------------------------------------------------
def run_mincode(case):
    from biotite.sequence.align import MincodeSelector

    o = Outcome()
    _apply_break_label(o)
    for fid in case.get("narrowed", []):
        o.exclude(fid)
    n, k = case["n"], case["k"]
    compression = case["compression"]
    offs = ref.offsets(k, case["spacing"])
    true_span = (k if case["spacing"] is None else max(case["spacing"]) + 1)
    perm, pm = _perm_pair(case["perm"], n, k, case)
    ka = _kmer_alphabet(n, k, case)
    selector = MincodeSelector(ka, compression, perm)
    o.label("perm=" + case["perm"]["type"])
    # "All k-mers that are smaller than this value [the public threshold] are selected": the selection is
    # judged against the selector's own threshold.  The threshold itself ("based on the compression factor
    # and the range of (permuted) k-mer values": the 1/compression quantile of the key range) is compared
    # with min + (max - min + 1) / compression up to float rounding, min/max being those of the permutation.
    thr = float(selector.threshold)
    thr_model = float(ref.mincode_threshold(pm, compression))
    o.check(
        math.isclose(thr, thr_model, rel_tol=1e-9, abs_tol=1e-9),
        "mincode_threshold",
        lambda: f"threshold {thr!r} for compression {compression}, key range [{pm.min}, {pm.max}]: expected {thr_model!r}",
    )
    if thr != thr_model:
        o.label("threshold_differs_in_rounding")
    index_check = case["check_index_array"]

    def decide(codes):
        """expected positions, or None if a key is within float rounding of the threshold"""
        want = []
        for i, c in enumerate(codes):
            key = pm.key(c)
            if abs(key) > (1 << 52) and abs(key - thr) <= 4096:
                return None
            if ref.mincode_selected(key, thr):
                want.append(i)
        return want

    nontrivial = False
    seq = case["seq"]
    seq_want, codes = None, []
    if len(seq) < true_span:
        o.label("seq_shorter_than_span")
        _expect_too_short(o, lambda: selector.select(_seq(seq, n)), "mincode", "sequence shorter than k")
    else:
        kms = ref.kmer_tuples(ref.sym_codes(seq), offs)
        codes = [ref.code_of_plain(km, n) for km in kms]
        want = seq_want = decide(codes)
        if want is None:
            o.ambiguous += 1
        else:
            _check_selection(o, selector.select(_seq(seq, n)), want, codes, "mincode", "select(sequence)", index_check)
            _check_selection(
                o, selector.select(_seq(seq, n), alphabet_check=False), want, codes, "mincode", "select(sequence, alphabet_check=False)", index_check
            )
            _check_selection(
                o, selector.select_from_kmers(np.array(codes, dtype=np.int64)), want, codes, "mincode", "select_from_kmers(k-mers of the sequence)", index_check
            )
            nontrivial = 0 < len(want) < len(codes)
            o.label("selected=none" if not want else "selected=all" if len(want) == len(codes) else "selected=some")
    free = [c % (n**k) for c in case["free_kmers"]]
    if free:
        want = decide(free)
        if want is None:
            o.ambiguous += 1
        else:
            _check_selection(o, selector.select_from_kmers(np.array(free, dtype=np.int64)), want, free, "mincode", "select_from_kmers(arbitrary codes)", index_check)
            nontrivial = nontrivial or 0 < len(want) < len(free)
    if case.get("wrong_alphabet") and not (len(seq) >= true_span and seq_want is None):
        o.label("wrong_alphabet")
        _foreign_alphabet_step(
            o, lambda: selector.select(_seq(seq, n + 1)), seq_want, codes, "mincode", "select() with a larger sequence alphabet", index_check
        )
    o.mark_nontrivial(nontrivial)
    return o


# --------------------------------------------------------------------------
# sub-check: bucket_number
# --------------------------------------------------------------------------
@lru_cache(maxsize=1)
def _listed_primes():
    """The precomputed list bucket_number() documents ("from a precomputed list of primes"), read from
    the package data file - or None if it is not there (any more): the clauses about the list are then
    skipped, the rest is still decided."""
    import biotite.sequence.align as align
    from pathlib import Path

    out = []
    try:
        text = (Path(align.__file__).parent / "primes.txt").read_text()
        for line in text.splitlines():
            line = line.strip()
            if line and not line.startswith("#"):
                out.append(int(line))
    except (OSError, ValueError):
        return None
    return out or None


def run_bucket_number(case):
    """Auxiliary (bucket_number is not named by the property statement; the default bucket count of a
    bucketed table relies on it).  Docstring: "the closest greater prime number from a precomputed
    list", "the actual load factor will be lower".  Whether "greater" includes equality and whether
    n_kmers / load_factor is rounded down or up first is not fixed by that text (today: >= and down)."""
    from biotite.sequence.align import BucketKmerTable, bucket_number

    o = Outcome()
    n_kmers = case["n_kmers"]
    lf = case["load_factor"] if case["explicit_lf"] else 0.8
    call = (lambda: bucket_number(n_kmers, lf)) if case["explicit_lf"] else (lambda: bucket_number(n_kmers))
    primes = _listed_primes()
    number = int(n_kmers / lf)
    got = int(call())
    o.label("explicit_load_factor" if case["explicit_lf"] else "default_load_factor")
    o.check(got >= number, "bucket_number", lambda: f"bucket_number({n_kmers}, {lf}) = {got} < {number}")
    if primes is None:
        o.label("prime_list_not_found")
    else:
        o.check(got in primes, "bucket_number", lambda: f"{got} is not in the list of primes")
        up = math.ceil(n_kmers / lf)
        accepted = {}
        for name, bound, strict in ((">=floor", number, False), (">floor", number, True), (">=ceil", up, False), (">ceil", up, True)):
            first = next((p for p in primes if (p > bound if strict else p >= bound)), None)
            if first is not None:
                accepted.setdefault(first, []).append(name)
        if o.check(got in accepted, "bucket_number", lambda: f"{got} is not the closest listed prime at or above {number} (accepted: {sorted(accepted)})"):
            if len(accepted) > 1:
                o.label("closest_prime:" + "|".join(accepted[got]))
        if number in primes:
            o.label("number_is_listed_prime")
    if got < 10**9:
        o.check(ref.is_prime(got), "bucket_number", lambda: f"{got} is not prime")
    if 1 <= n_kmers <= 60:
        # default bucket count of a table: "a load factor of approximately 0.8" - at most one k-mer per
        # bucket is demanded (or one bucket per possible k-mer)
        text = (LETTERS[:4] * 20)[: n_kmers + 1]
        t = BucketKmerTable.from_sequences(2, [_seq(text, 4)])
        nb = int(t.n_buckets)
        o.check(nb == 16 or nb >= n_kmers, "n_buckets", lambda: f"default n_buckets {nb} for {n_kmers} k-mers")
        o.label("default_n_buckets", "default_load<=0.8" if nb == 16 or nb >= int(n_kmers / 0.8) else "default_load>0.8")
    o.mark_nontrivial(number > 3)
    return o


# --------------------------------------------------------------------------
# strategies
# --------------------------------------------------------------------------
def st_text(n, min_size, max_size):
    """Text over the first n letters; the length is drawn first so that it is spread over the whole
    range (Hypothesis' own list lengths are heavily biased to short)."""
    max_size = max(max_size, min_size)
    return st.integers(min_size, max_size).flatmap(lambda L: st.text(LETTERS[:n], min_size=L, max_size=L))


def _one_in(draw, k):
    """True with probability ~1/k.  False comes first: Hypothesis favours the first element
    ("simplest" choice), which made `integers(0, k-1) == 0` far too frequent."""
    return draw(st.sampled_from([False] * (k - 1) + [True]))


def st_ref_id():
    return st.one_of(
        st.integers(0, 3),
        st.integers(0, 3),
        st.sampled_from([(1 << 32) - 1, 1 << 31, 65535, 65536]),
        st.integers(0, (1 << 32) - 1),
    )


def st_mask(length):
    return st.lists(st.sampled_from([0, 0, 0, 0, 1]), min_size=length, max_size=length)


def _need_n(text):
    return max(2, max((ord(c) - 64 for c in text), default=2))


@st.composite
def st_sequence(draw, n, span, maxlen, sources, n_cap, own_alphabet=True):
    """A sequence dict {seq, n}: short (span-1..span+1), cut from a source, or fresh."""
    cls = draw(st.sampled_from(["short", "slice", "slice", "slice", "fresh", "fresh"]))
    lo = max(1, span - 1)
    if cls == "short":
        length = draw(st.integers(lo, span + 1))
        src = draw(st.sampled_from(sources))
        if len(src) >= length and draw(st.booleans()):
            a = draw(st.integers(0, len(src) - length))
            text = src[a : a + length]
        else:
            text = draw(st_text(n, length, length))
    elif cls == "slice":
        src = draw(st.sampled_from(sources))
        a = draw(st.integers(0, max(0, len(src) - span)))
        length = draw(st.integers(span, maxlen))
        text = src[a : a + length]
        if draw(st.booleans()):
            text += draw(st_text(n, 0, 6))
        if len(text) < span:
            text += draw(st_text(n, span - len(text), span - len(text) + 3))
        text = text[:maxlen]
    else:
        text = draw(st_text(n, span, maxlen))
    need = _need_n(text)
    sn = n_cap
    if own_alphabet and need < n_cap and _one_in(draw, 4):
        sn = draw(st.integers(need, n_cap))
    return {"seq": text, "n": sn}


def _self_scores_min(seq_dicts, offs, matrix):
    best = None
    for sd in seq_dicts:
        kms = ref.kmer_tuples(ref.sym_codes(sd["seq"]), offs)
        keep = ref.kept_flags(len(kms), sd.get("mask"), offs)
        for km, f in zip(kms, keep):
            if f:
                s = sum(matrix[x][x] for x in km)
                best = s if best is None else min(best, s)
    return best


def st_table_case(tier, allow_rule=True, modes=None, allow_f1_safe=False):
    thorough = tier == "thorough"
    maxlen = 120 if thorough else 40

    @st.composite
    def gen(draw):
        use_rule = allow_rule and _one_in(draw, 4)
        n = draw(st.integers(2, 4 if use_rule else 6))
        k = draw(st.integers(2, 3 if use_rule else (5 if thorough else 4)))
        want_spacing = _one_in(draw, 3)
        want_masks = _one_in(draw, 3)
        narrowed = []
        f1_safe = False
        if want_spacing and want_masks and findings.is_open(F1):
            narrowed.append(F1)
            choice = draw(st.sampled_from(["no_spacing", "no_masks", "safe"])) if allow_f1_safe else draw(st.sampled_from(["no_spacing", "no_masks"]))
            if choice == "no_spacing":
                want_spacing = False
            elif choice == "no_masks":
                want_masks = False
            else:
                # spaced k-mers with masked REFERENCES, where the finding cannot interfere: the table is
                # built from k-mer arrays / selections / positions (the keep flags come from the model,
                # biotite's _to_kmer_mask is not involved) and the query carries no mask
                f1_safe = True
        spacing = None
        form = "list"
        if want_spacing:
            spacing = sorted(draw(st.lists(st.integers(0, k + 2), min_size=k, max_size=k, unique=True)))
            # (an unsorted list is not drawn: the documentation does not say that the order is ignored)
            form = draw(st.sampled_from(["str", "list", "array"]))
        offs = list(range(k)) if spacing is None else spacing
        span = offs[-1] + 1
        base = draw(st_text(n, min(maxlen, max(span, 12)), maxlen))
        n_refs = draw(st.sampled_from([1, 2, 2, 3, 3, 4, 5]))
        refs = []
        for _ in range(n_refs):
            r = draw(st_sequence(n, span, maxlen, [base] + [x["seq"] for x in refs], n))
            r["id"] = draw(st_ref_id())
            r["mask"] = draw(st.one_of(st.none(), st_mask(len(r["seq"])))) if want_masks else None
            refs.append(r)
        explicit_alphabet = draw(st.booleans())
        usable = [r for r in refs if len(r["seq"]) >= span] or refs
        n_table = n if explicit_alphabet else max(r["n"] for r in usable)
        sources = [x["seq"] for x in refs] + [base]

        def query():
            q = draw(st_sequence(n_table, span, maxlen, sources, n_table))
            # the common text may hold letters the (inferred) table alphabet lacks
            q["seq"] = "".join(c if ord(c) - 65 < n_table else "A" for c in q["seq"])
            q["mask"] = draw(st.one_of(st.none(), st_mask(len(q["seq"])))) if (want_masks and not f1_safe) else None
            return q

        q = query()
        if n_table < 26 and _one_in(draw, 25):
            q["n"] = n_table + 1
        q2 = query() if _one_in(draw, 3) else None
        kind = draw(st.sampled_from(["direct", "bucket"]))
        mode_pool = list(modes or ["sequences", "kmers", "selection", "tables", "pickle", "positions"])
        if kind == "bucket":
            mode_pool = [m for m in mode_pool if m != "positions"]
        if f1_safe:
            mode_pool = [m for m in mode_pool if m in ("kmers", "selection", "positions")]
        build = draw(st.sampled_from(mode_pool))
        n_buckets, nb_class = None, None
        if kind == "bucket":
            total = sum(max(0, len(r["seq"]) - span + 1) for r in refs)
            classes = ["one", "two", "prime_near", "prime_near", "over", "small"] + ([] if build == "tables" else ["default", "default"])
            nb_class = draw(st.sampled_from(classes))
            if nb_class == "one":
                n_buckets = 1
            elif nb_class == "two":
                n_buckets = 2
            elif nb_class == "prime_near":
                n_buckets = draw(
                    st.sampled_from([ref.prev_prime(max(total, 2)), ref.next_prime(total + 1), ref.next_prime(int(total / 0.8))])
                )
            elif nb_class == "over":
                n_buckets = n_table**k + draw(st.integers(1, 50))
            elif nb_class == "small":
                n_buckets = draw(st.integers(3, 12))
        rule = None
        if use_rule:
            mn = n_table + draw(st.sampled_from([0, 0, 0, 1, 2]))
            upper = draw(st.lists(st.integers(-4, 6), min_size=mn * (mn + 1) // 2, max_size=mn * (mn + 1) // 2))
            diag_boost = draw(st.integers(0, 4))
            matrix = [[0] * mn for _ in range(mn)]
            it = iter(upper)
            for i in range(mn):
                for j in range(i, mn):
                    v = next(it)
                    if i == j:
                        v += diag_boost
                    matrix[i][j] = matrix[j][i] = v
            threshold = draw(st.integers(-4 * k, 10 * k))
            if findings.is_open(F2):
                others = [x for x in ([q] + ([q2] if q2 else [])) if len(x["seq"]) >= span and x["n"] <= n_table]
                lim = _self_scores_min(others, offs, matrix)
                if lim is not None and threshold > lim:
                    threshold = lim
                    narrowed.append(F2)
            rule = {"matrix": matrix, "threshold": threshold}
        case = {
            "n": n,
            "k": k,
            "spacing": spacing,
            "spacing_form": form,
            "refs": refs,
            "explicit_ids": draw(st.booleans()),
            "explicit_alphabet": explicit_alphabet,
            "query": q,
            "query2": q2,
            "other_ids": draw(st.lists(st_ref_id(), min_size=2, max_size=2)),
            "kind": kind,
            "build": build,
            "n_buckets": n_buckets,
            "nb_class": nb_class,
            "rule": rule,
            "sel": draw(st.lists(st.tuples(st.integers(0, 1 << 33), st.integers(0, 1 << 20), st.booleans()), max_size=10)),
            "probe": draw(st.lists(st.integers(0, 1 << 20), max_size=6)),
            "count_sel": draw(st.lists(st.integers(0, 1 << 20), max_size=6)),
            "split": draw(st.lists(st.integers(0, 20), max_size=3)),
            "pos_uint32": draw(st.booleans()),
            "default_ref_ids_omitted": draw(st.booleans()),
            "f1_safe": f1_safe,
            "mask_list_of_none": draw(st.booleans()),
            "pickle_protocol": draw(st.sampled_from([2, 4, 5])),
            "narrowed": narrowed,
        }
        return case

    return gen()


def st_table_match(tier):
    return st_table_case(tier, allow_rule=True, allow_f1_safe=True)


def st_constructors(tier):
    return st_table_case(tier, allow_rule=False, modes=["sequences"])


def st_bucket_big(tier):
    thorough = tier == "thorough"
    maxlen = 150 if thorough else 50
    shapes = [(26, 7), (26, 8), (26, 10), (26, 13), (20, 8), (20, 14), (4, 17), (4, 24), (4, 31), (6, 13), (6, 24), (3, 21), (3, 39), (2, 33), (2, 62)]

    @st.composite
    def gen(draw):
        n, k = draw(st.sampled_from(shapes))
        # few distinct letters (repeats); the last letter makes the leading digits - and the code - large
        letters = sorted(set(draw(st.lists(st.sampled_from(LETTERS[:n]), min_size=1, max_size=3)) + [LETTERS[n - 1]]))
        if _one_in(draw, 6):
            letters = [LETTERS[0], LETTERS[min(1, n - 1)]]  # small codes only
        alphabet = "".join(letters)
        maxl = max(maxlen, k + 20)
        blen = draw(st.integers(k, maxl))
        base = draw(st.text(alphabet, min_size=blen, max_size=blen))
        refs = []
        for _ in range(draw(st.integers(1, 3))):
            a = draw(st.integers(0, len(base)))
            b = draw(st.integers(a, len(base)))
            text = (base[a:b] + draw(st.text(alphabet, max_size=k + 2)))[:maxl]
            if len(text) < k - 1:
                text = base
            refs.append({"seq": text, "id": draw(st_ref_id())})
        src = draw(st.sampled_from([r["seq"] for r in refs] + [base]))
        a = draw(st.integers(0, len(src)))
        qtext = (src[a:] + draw(st.text(alphabet, max_size=k)))[:maxl]
        if len(qtext) < k - 1:
            qtext = src
        total = sum(max(0, len(r["seq"]) - k + 1) for r in refs)
        n_buckets = draw(
            st.sampled_from([None, 1, 2, 3, 7, ref.prev_prime(max(2, total)), ref.next_prime(total + 1), 1 << 16, 100003])
        )
        narrowed = []
        check_getitem = True
        if findings.is_open(F4):
            check_getitem = False
            narrowed.append(F4)
        return {
            "n": n,
            "k": k,
            "refs": refs,
            "query": {"seq": qtext},
            "n_buckets": n_buckets,
            "probe": draw(st.lists(st.integers(0, 1 << 62), max_size=5)),
            "pickled": draw(st.booleans()),
            "check_getitem": check_getitem,
            "narrowed": narrowed,
        }

    return gen()


def st_similar(tier):
    thorough = tier == "thorough"

    @st.composite
    def gen(draw):
        n = draw(st.integers(2, 6 if thorough else 5))
        k = draw(st.integers(2, 4 if n <= 4 else 3))
        mn = n + draw(st.sampled_from([0, 0, 1, 3]))
        upper = draw(st.lists(st.integers(-6, 9), min_size=mn * (mn + 1) // 2, max_size=mn * (mn + 1) // 2))
        matrix = [[0] * mn for _ in range(mn)]
        it = iter(upper)
        for i in range(mn):
            for j in range(i, mn):
                matrix[i][j] = matrix[j][i] = next(it)
        code = draw(st.integers(0, n**k - 1))
        kmer = ref.split_code(code, n, k)
        # thresholds near the achievable scores of this k-mer
        lo = sum(min(matrix[x][:n]) for x in kmer)
        hi = sum(max(matrix[x][:n]) for x in kmer)
        threshold = draw(st.one_of(st.integers(lo - 1, hi + 1), st.integers(-7 * k, 10 * k)))
        return {"n": n, "k": k, "rule": {"matrix": matrix, "threshold": threshold}, "kmer": code}

    return gen()


def st_perm(n, k, allow_none=True, allow_table=True):
    """({"type": none | random | freq | table, ...}, narrowed finding ids).  `table` is an arbitrary
    user-defined permutation (explicit injective list of int64 sort keys, incl. the extremes of the
    type), only for small k-mer alphabets."""
    size = n**k

    @st.composite
    def gen(draw):
        kinds = ["random", "freq"] + (["none"] if allow_none else []) + (["table", "table"] if allow_table and size <= 81 else [])
        kind = draw(st.sampled_from(kinds))
        if kind in ("none", "random"):
            return {"type": kind}, []
        if kind == "freq":
            return {"type": "freq", "seed": draw(st.integers(0, 1 << 30)), "cmax": draw(st.sampled_from([0, 1, 2, 5, 1000]))}, []
        key = st.one_of(
            st.integers(-4, size + 4),
            st.sampled_from([INT64_MIN, INT64_MIN + 1, INT64_MAX - 1, INT64_MAX]),
            st.integers(INT64_MIN, INT64_MAX),
        )
        keys = draw(st.lists(key, min_size=size, max_size=size, unique=True))
        narrowed = []
        if INT64_MAX in keys and findings.is_open(F5):
            repl = INT64_MAX - 2
            while repl in keys:
                repl -= 1
            keys[keys.index(INT64_MAX)] = repl
            narrowed.append(F5)
        return {"type": "table", "keys": keys}, narrowed

    return gen()


def st_permutation_case(tier):
    @st.composite
    def gen(draw):
        n = draw(st.integers(2, 6))
        k = draw(st.integers(2, 4))
        perm, _ = draw(st_perm(n, k, allow_none=False, allow_table=False))
        big = draw(st.booleans()) and perm["type"] == "random"
        codes = draw(st.lists(st.integers(0, (1 << 62) if big else n**k - 1), min_size=1, max_size=20))
        if perm["type"] == "random" and big:
            # RandomPermutation is not tied to an alphabet: any non-negative int64 code
            n, k = 2, 62
        return {"n": n, "k": k, "perm": perm, "codes": codes, "seq": draw(st_text(n, 1, 40))}

    return gen()


def _spacing_draw(draw, k):
    if not _one_in(draw, 4):
        return None, "list"
    sp = sorted(draw(st.lists(st.integers(0, k + 2), min_size=k, max_size=k, unique=True)))
    return sp, draw(st.sampled_from(["str", "list", "array"]))


def st_minimizer(tier):
    thorough = tier == "thorough"
    maxlen = 150 if thorough else 50

    @st.composite
    def gen(draw):
        n = draw(st.integers(2, 6))
        k = draw(st.integers(2, 4))
        spacing, form = _spacing_draw(draw, k)
        span = k if spacing is None else spacing[-1] + 1
        window = draw(st.integers(2, 10))
        edge = _one_in(draw, 4)
        if edge:
            n_kmers = max(0, window + draw(st.integers(-1, 1)))
            length = span - 1 + n_kmers
            text = draw(st_text(n, length, length))
        elif _one_in(draw, 10):
            text = draw(st_text(n, max(1, span - 1), span + window))
        else:
            text = draw(st_text(min(n, draw(st.sampled_from([2, 6, 6]))), span + window, maxlen))
        free_len = draw(st.sampled_from([0, window, window + 1, 2 * window, 3 * window - 1, 25]))
        perm, narrowed = draw(st_perm(n, k))
        return {
            "n": n,
            "k": k,
            "spacing": spacing,
            "spacing_form": form,
            "window": window,
            "perm": perm,
            "narrowed": narrowed,
            "seq": text,
            "free_kmers": draw(st.lists(st.integers(0, n**k - 1), min_size=free_len, max_size=free_len)),
            "wrong_alphabet": _one_in(draw, 10),
        }

    return gen()


def st_syncmer(tier):
    thorough = tier == "thorough"
    maxlen = 120 if thorough else 40

    @st.composite
    def gen(draw):
        n = draw(st.integers(2, 6))
        k = draw(st.integers(3, 7 if n <= 3 else 6 if n == 4 else 5))
        s = draw(st.integers(2, k - 1))
        n_smers = k - s + 1
        norm = draw(st.lists(st.integers(0, n_smers - 1), min_size=1, max_size=min(3, n_smers), unique=True))
        offset = [o - n_smers if draw(st.booleans()) else o for o in norm]
        perm, narrowed = draw(st_perm(n, s))
        text = draw(st.sampled_from([0, 1, 1, 1, 2, 2]))
        text = draw([st_text(n, k - 1, k + 1), st_text(n, k, maxlen), st_text(min(n, 2), k, maxlen)][text])
        return {
            "n": n,
            "k": k,
            "s": s,
            "offset": offset,
            "perm": perm,
            "narrowed": narrowed,
            "seq": text,
            "cached": n**k <= 1300,
            "free_kmers": draw(st.lists(st.integers(0, n**k - 1), max_size=12)),
            "wrong_alphabet": _one_in(draw, 10),
        }

    return gen()


def st_mincode(tier):
    thorough = tier == "thorough"
    maxlen = 120 if thorough else 40

    @st.composite
    def gen(draw):
        n = draw(st.integers(2, 6))
        k = draw(st.integers(2, 4))
        spacing, form = _spacing_draw(draw, k)
        span = k if spacing is None else spacing[-1] + 1
        size = n**k
        compression = draw(
            st.one_of(
                st.sampled_from([1, 1.0, 2, 4, 1.5, 3.0, float(size), size, size * 2]),
                st.floats(1.0, 8.0, allow_nan=False),
                st.floats(1.0, float(size) * 2, allow_nan=False),
                st.integers(1, size),
            )
        )
        perm, narrowed = draw(st_perm(n, k))
        narrowed = [x for x in narrowed if x != F5]  # the mincode selector does not use the windowed minimum
        check_index_array = True
        if findings.is_open(F3):
            check_index_array = False
            narrowed.append(F3)
        return {
            "n": n,
            "k": k,
            "spacing": spacing,
            "spacing_form": form,
            "compression": compression,
            "perm": perm,
            "seq": draw(st_text(n, max(1, span - 1), span + 1) if _one_in(draw, 6) else st_text(n, span, maxlen)),
            "free_kmers": draw(st.lists(st.integers(0, size - 1), max_size=20)),
            "wrong_alphabet": _one_in(draw, 10),
            "check_index_array": check_index_array,
            "narrowed": narrowed,
        }

    return gen()


_FALLBACK_PRIMES = [11, 13, 17, 23, 29, 37, 47, 59, 71, 89, 107, 131, 163, 197, 239, 293, 353, 431, 521, 631, 761, 919, 1103, 10007, 100003, 1000003]


def st_bucket_number(tier):
    @st.composite
    def gen(draw):
        # without the package's list: primes at a similar spacing (factor ~1.2)
        primes = _listed_primes() or _FALLBACK_PRIMES
        explicit = draw(st.booleans())
        lf = draw(st.one_of(st.just(0.8), st.floats(0.05, 1.0, allow_nan=False), st.sampled_from([0.5, 1.0, 0.25])))
        # requests beyond 2^52 are left out: the list is held in float64 there (notes/C10.md, observation O1)
        near = draw(st.sampled_from([p for p in primes if p < (1 << 50)]))
        eff = lf if explicit else 0.8
        n_kmers = draw(
            st.one_of(
                st.integers(0, 200),
                st.integers(0, 10**7),
                st.integers(max(0, int(near * eff) - 3), int(near * eff) + 3),
            )
        )
        return {"n_kmers": n_kmers, "load_factor": lf, "explicit_lf": explicit}

    return gen()


# --------------------------------------------------------------------------
# sub-check: kmer_alphabet  (KmerAlphabet itself, incl. base alphabets beyond 8 / 16 bit symbol codes)
# --------------------------------------------------------------------------
@lru_cache(maxsize=8)
def _int_alphabet(n):
    from biotite.sequence import Alphabet

    return Alphabet(range(n))


def st_kmer_alphabet(tier):
    thorough = tier == "thorough"

    @st.composite
    def gen(draw):
        cls = draw(st.sampled_from(["small", "small", "8bit_edge", "16bit", "16bit", "16bit_edge", "32bit"]))
        if cls == "small":
            n, kmax = draw(st.integers(2, 6)), 6
        elif cls == "8bit_edge":
            n, kmax = draw(st.sampled_from([255, 256])), 4
        elif cls == "16bit":
            n, kmax = draw(st.sampled_from([257, 300, 1000])), 4
        elif cls == "16bit_edge":
            n, kmax = draw(st.sampled_from([65535, 65536])), 3
        else:
            n, kmax = draw(st.sampled_from([65537, 70000])), 3
        k = draw(st.integers(2, kmax))
        spacing, form = _spacing_draw(draw, k)
        span = k if spacing is None else spacing[-1] + 1
        # few distinct symbols (repeated k-mers), the largest symbol codes included
        pool = sorted(set(draw(st.lists(st.integers(0, n - 1), min_size=1, max_size=3)) + [n - 1, draw(st.sampled_from([0, n // 2, max(0, n - 2)]))]))
        maxlen = 60 if thorough else 30
        length = draw(st.integers(max(1, span - 1), span + 1)) if _one_in(draw, 4) else draw(st.integers(span, maxlen + span))
        seq = draw(st.lists(st.sampled_from(pool), min_size=length, max_size=length))
        a = draw(st.integers(0, len(seq)))
        query = (seq[a:] + draw(st.lists(st.sampled_from(pool), max_size=span + 2)))[: maxlen + span]
        return {
            "n": n, "k": k, "spacing": spacing, "spacing_form": form, "size_class": cls,
            "seq": seq, "query": query, "ref_id": draw(st_ref_id()),
            "kind": draw(st.sampled_from(["direct", "bucket", "bucket"])),
            "n_buckets": draw(st.sampled_from([None, 1, 2, 7, 101])),
        }

    return gen()


def run_kmer_alphabet(case):
    from biotite.sequence import GeneralSequence
    from biotite.sequence.align import BucketKmerTable, KmerAlphabet, KmerTable

    o = Outcome()
    _apply_break_label(o)
    n, k = case["n"], case["k"]
    offs = ref.offsets(k, case["spacing"])
    span = (k if case["spacing"] is None else max(case["spacing"]) + 1)
    alph = _int_alphabet(n)
    ka = KmerAlphabet(alph, k, _spacing_arg(case))
    o.label("size=" + case["size_class"], "spaced" if case["spacing"] is not None else "contiguous", f"k={k}")
    n_codes = n**k
    o.check_eq(len(ka), n_codes, "kmer_alphabet_size", "len(KmerAlphabet)")
    o.check_eq(int(ka.k), k, "kmer_alphabet_size", "KmerAlphabet.k")
    if case["spacing"] is None:
        o.check(ka.spacing is None, "kmer_alphabet_size", "spacing attribute of a contiguous k-mer alphabet")
    else:
        o.check_eq([int(x) for x in ka.spacing], sorted(case["spacing"]), "kmer_alphabet_size", "spacing attribute")
    seq = GeneralSequence(alph, case["seq"])
    o.label("code_dtype=" + str(seq.code.dtype))
    o.check_eq([int(x) for x in seq.code], list(case["seq"]), "create_kmers", "symbol codes of the sequence (alphabet = range(n))")
    kms = ref.kmer_tuples(list(case["seq"]), offs) if len(case["seq"]) >= span else []
    codes = [ref.code_of(km, n) for km in kms]
    nontrivial = False
    if len(case["seq"]) < span:
        o.label("seq_shorter_than_span")
        refused, got = _rejected(o, lambda: ka.create_kmers(seq.code), "too_short_rejected")
        if not refused:
            o.check_eq(len(got), 0, "create_kmers", "sequence shorter than the k-mer span")
    else:
        got = ka.create_kmers(seq.code)
        o.check_eq([int(x) for x in got], codes, "create_kmers", f"create_kmers() of {case['seq'][:20]}... over range({n})")
        o.check_eq(int(ka.kmer_array_length(len(case["seq"]))), len(codes), "create_kmers", "kmer_array_length(len(sequence))")
        arr = np.array(kms, dtype=np.int64).reshape(-1, k)
        o.check_eq([int(x) for x in ka.fuse(arr)], codes, "fuse_split", "fuse((n,k) array)")
        o.check_eq(int(ka.fuse(arr[0])), codes[0], "fuse_split", "fuse((k,) array)")
        sp = ka.split(np.array(codes, dtype=np.int64))
        o.check_eq([tuple(int(x) for x in row) for row in np.asarray(sp).reshape(-1, k)], [tuple(km) for km in kms], "fuse_split", "split(array of codes)")
        o.check_eq(tuple(int(x) for x in ka.split(codes[-1])), tuple(kms[-1]), "fuse_split", "split(code)")
        # symbols of range(n) are their own codes
        o.check_eq(int(ka.encode(list(kms[0]))), codes[0], "fuse_split", "encode(k-mer symbols)")
        o.check_eq(tuple(int(x) for x in ka.decode(codes[-1])), tuple(kms[-1]), "fuse_split", "decode(code)")
        if max(codes) >= (1 << 32):
            o.label("codes>=2^32")
        nontrivial = len(set(codes)) < len(codes) or len(codes) >= 3

        # ---- an index over this alphabet
        kind = case["kind"] if n_codes <= 100000 else "bucket"
        model = ref.TableModel(n, k)
        model.add_sequence(list(case["seq"]), case["ref_id"], None, offs)
        kw = {"spacing": _spacing_arg(case)}
        if kind == "bucket" and case["n_buckets"] is not None:
            kw["n_buckets"] = case["n_buckets"]
        cls = KmerTable if kind == "direct" else BucketKmerTable
        table = cls.from_sequences(k, [seq], ref_ids=[case["ref_id"]], **kw)
        o.label(kind)
        by_code = model.by_code()
        o.check_eq(sorted(int(x) for x in table.get_kmers()), sorted(by_code), "get_kmers", "get_kmers()")
        probes = sorted(by_code)
        got = table.count(np.array(probes, dtype=np.int64))
        o.check_eq([int(x) for x in got], [len(by_code[c]) for c in probes], "count", "count(kmers)")
        if kind == "bucket" and max(probes) >= (1 << 32) and findings.is_open(F4):
            o.exclude(F4)
        else:
            for code in probes[:8]:
                if not _cmp_multiset(o, _rows(table[code], 2), by_code[code], "getitem", f"table[{code}]"):
                    break
        q = list(case["query"])
        if len(q) >= span:
            q_kmers = ref.kmer_tuples(q, offs)
            want = ref.match_sequence(model, q_kmers, [True] * len(q_kmers), None)
            rows = _rows(table.match(GeneralSequence(alph, q)), 3)
            _cmp_multiset(o, rows, want, "match", "match(query)")
            if want:
                o.label("has_match")
    o.mark_nontrivial(nontrivial)
    return o


# --------------------------------------------------------------------------
# declarations
# --------------------------------------------------------------------------

# --------------------------------------------------------------------------
# sequences / tables over alphabets that differ from the table alphabet
# --------------------------------------------------------------------------
MM_LETTERS = "ACGTNRYKMSWB"
MM_KINDS = ["same", "prefix", "infix", "infix", "suffix", "perm", "superset", "superset"]


def _mm_derive(draw, base, kind):
    n = len(base)
    if kind == "same":
        return base
    if kind == "prefix":
        return base[: draw(st.integers(2, n))]
    if kind == "infix":
        i = draw(st.integers(1, n - 2))
        return base[i : draw(st.integers(i + 2, n))]
    if kind == "suffix":
        return base[draw(st.integers(1, n - 2)) :]
    if kind == "perm":
        return "".join(draw(st.permutations(list(base))))
    extra = [c for c in MM_LETTERS if c not in base]
    return base + "".join(draw(st.lists(st.sampled_from(extra), min_size=1, max_size=2, unique=True)))


def st_alphabet_mismatch(tier):
    @st.composite
    def gen(draw):
        n = draw(st.integers(3, 6))
        base = "".join(draw(st.lists(st.sampled_from(MM_LETTERS), min_size=n, max_size=n, unique=True)))
        k = draw(st.sampled_from([2, 2, 3]))
        maxlen = 12 if tier == "quick" else 30
        # reference sequences: alphabets of the references of one table
        ref_kinds = [draw(st.sampled_from(["same", "same", "prefix", "infix", "superset", "perm"])) for _ in range(draw(st.integers(1, 3)))]
        refs = []
        for kind in ref_kinds:
            alph = _mm_derive(draw, base, kind)
            refs.append({"alph": alph, "kind": kind, "seq": draw(st.text(alph, min_size=k, max_size=maxlen))})
        qkind = draw(st.sampled_from(MM_KINDS))
        qalph = _mm_derive(draw, base, qkind)
        # the query re-uses pieces of the references where its alphabet allows (so that matches exist)
        src = "".join(ch for r in refs for ch in r["seq"] if ch in qalph)
        query = (src[: draw(st.integers(0, len(src)))] + draw(st.text(qalph, min_size=0, max_size=maxlen)))[:maxlen]
        if len(query) < k:
            query = (query + qalph * k)[:k]
        okind = draw(st.sampled_from(MM_KINDS))
        oalph = _mm_derive(draw, base, okind)
        other = draw(st.text(oalph, min_size=k, max_size=maxlen))
        return {
            "base": base, "k": k, "refs": refs, "query": {"alph": qalph, "kind": qkind, "seq": query},
            "other": {"alph": oalph, "kind": okind, "seq": other}, "bucket": draw(st.booleans()),
            "explicit": draw(st.booleans()),
            "generic_alphabet": draw(st.booleans()),
        }

    return gen()


_MM_GENERIC = [False]


def _mm_alphabet(alph):
    from biotite.sequence import Alphabet, LetterAlphabet

    # generic Alphabet objects (symbols = one-letter strings) or LetterAlphabet objects
    return Alphabet(list(alph)) if _MM_GENERIC[0] else LetterAlphabet(alph)


def _mm_seq(text, alph):
    from biotite.sequence import GeneralSequence

    return GeneralSequence(_mm_alphabet(alph), list(text) if _MM_GENERIC[0] else text)


def _mm_naive(query, refs, k, offs=None):
    """symbol-wise matches of contiguous (or, with offs, spaced) k-mers: (query pos, ref index, ref pos)"""
    offs = list(range(k)) if offs is None else list(offs)
    span = offs[-1] + 1
    out = []
    for ri, r in enumerate(refs):
        for rp in range(len(r) - span + 1):
            rk = [r[rp + x] for x in offs]
            for qp in range(len(query) - span + 1):
                if [query[qp + x] for x in offs] == rk:
                    out.append((qp, ri, rp))
    return sorted(out)


def run_alphabet_mismatch(case):
    """The index is defined on symbols.  Where a sequence or a table over another alphabet is
    handed in, the only accepted outcomes are a refusal (alphabet does not extend / no common
    alphabet / different k-mer alphabets; ValueError today, no exception type is documented, any is
    accepted and recorded as a label) or the symbol-wise correct result - never matches computed
    from codes of different alphabets."""
    from biotite.sequence import LetterAlphabet
    from biotite.sequence.align import BucketKmerTable, KmerTable

    o = Outcome()
    base, k = case["base"], case["k"]
    _MM_GENERIC[0] = bool(case.get("generic_alphabet"))
    o.label("generic_Alphabet" if _MM_GENERIC[0] else "LetterAlphabet")
    Table = BucketKmerTable if case["bucket"] else KmerTable
    refs = case["refs"]
    ref_texts = [r["seq"] for r in refs]
    ref_seqs = [_mm_seq(r["seq"], r["alph"]) for r in refs]
    alphs = [r["alph"] for r in refs]
    o.label(*[f"ref_kind={r['kind']}" for r in refs], f"query_kind={case['query']['kind']}", f"other_kind={case['other']['kind']}")

    # ---- from_sequences: is there an alphabet that extends all reference alphabets?
    if case["explicit"]:
        table_alph = base
        fits = all(base.startswith(a) for a in alphs)
        kwargs = {"alphabet": _mm_alphabet(base)}
    else:
        longest = max(alphs, key=len)
        fits = all(longest.startswith(a) for a in alphs)
        table_alph = longest
        kwargs = {}
    # match_table() of bucketed tables requires the same number of buckets on both sides
    bucket_kw = {"n_buckets": 11} if case["bucket"] else {}
    kwargs.update(bucket_kw)
    refused, table = _rejected(o, lambda: Table.from_sequences(k, ref_seqs, **kwargs), "from_sequences_rejected")
    if refused:
        o.label("from_sequences_rejected")
        o.check(not fits, "compatible_alphabets_accepted", lambda: f"from_sequences raised an exception although {table_alph!r} extends {alphs}")
        o.mark_nontrivial(not fits)
        return o
    if not fits:
        o.label("from_sequences_accepted_mixed_alphabets")
        in_table = all(ch in table_alph for t in ref_texts for ch in t)
        if not in_table:
            o.fail("incompatible_alphabet_rejected", f"from_sequences indexed references over {alphs} without a common alphabet")
            return o
    real_alph = "".join(table.alphabet.get_symbols()) if hasattr(table, "alphabet") else table_alph
    # content of the table, symbol-wise
    ka = table.kmer_alphabet
    want_content = sorted((t[p : p + k], ri, p) for ri, t in enumerate(ref_texts) for p in range(len(t) - k + 1))
    got_content = []
    for code in table.get_kmers():
        kmer = "".join(ka.decode(int(code)))
        for ri, p in table[int(code)].tolist():
            got_content.append((kmer, int(ri), int(p)))
    o.check_eq(sorted(got_content), want_content, "table_holds_exactly_the_reference_kmers", f"references {ref_texts} over {alphs}")

    # ---- match(sequence over another alphabet)
    q = case["query"]
    q_fits = real_alph.startswith(q["alph"])

    def do_match():
        return table.match(_mm_seq(q["seq"], q["alph"]))

    want = _mm_naive(q["seq"], ref_texts, k)
    if q_fits:
        got = do_match()
        o.check_eq(sorted(map(tuple, got.tolist())), want, "matches_exactly_identical_kmers", f"query {q['seq']!r} over {q['alph']!r}, table alphabet {real_alph!r}")
    else:
        refused, got = _rejected(o, do_match, "query_rejected")
        if refused:
            o.label("query_rejected")
        else:
            o.label("query_accepted_although_not_extended")
            o.check_eq(
                sorted(map(tuple, got.tolist())), want, "incompatible_alphabet_rejected",
                f"match() accepted a query over {q['alph']!r} (table alphabet {real_alph!r}) and returned matches that are not the identical k-mers",
            )
    # ---- a series of queries with short-lived alphabet objects of changing compatibility: the
    # answer for one query must not depend on the queries made before
    series = [real_alph[1:], real_alph, real_alph[::-1], real_alph[: max(2, len(real_alph) - 1)], real_alph[1:] + real_alph[:1], real_alph]
    for qa in series:
        if len(qa) < 1:
            continue
        text = "".join(ch for t in ref_texts for ch in t if ch in qa)[:10]
        if len(text) < k:
            text = (text + qa * k)[:k]
        fits_now = real_alph.startswith(qa)
        want_now = _mm_naive(text, ref_texts, k)
        refused, got_now = _rejected(o, lambda: table.match(_mm_seq(text, qa)), "series_query_rejected")
        if refused:
            o.check(not fits_now, "compatible_alphabets_accepted", f"query over {qa!r} (table alphabet {real_alph!r}) was rejected after earlier queries with other alphabets")
            continue
        o.check_eq(
            sorted(map(tuple, got_now.tolist())), want_now,
            "matches_exactly_identical_kmers" if fits_now else "incompatible_alphabet_rejected",
            f"query {text!r} over {qa!r} in a series of queries, table alphabet {real_alph!r}",
        )
    # ---- match_table(table over another alphabet)
    ot = case["other"]
    other_table = Table.from_sequences(k, [_mm_seq(ot["seq"], ot["alph"])], **bucket_kw)
    same_alph = ot["alph"] == real_alph
    # rows: (ref id other, pos other, ref id self, pos self)
    want_t = sorted(
        (0, op, ri, rp)
        for ri, t in enumerate(ref_texts)
        for rp in range(len(t) - k + 1)
        for op in range(len(ot["seq"]) - k + 1)
        if ot["seq"][op : op + k] == t[rp : rp + k]
    )
    for a, b, swap in ((table, other_table, False), (other_table, table, True)):
        refused, got_t = _rejected(o, lambda: a.match_table(b), "match_table_rejected")
        if refused:
            o.label("match_table_rejected")
            o.check(not same_alph, "compatible_alphabets_accepted", "match_table raised an exception for equal alphabets")
            continue
        rows = sorted((r[2], r[3], r[0], r[1]) if swap else tuple(r) for r in map(tuple, got_t.tolist()))
        clause = "matches_exactly_identical_kmers" if same_alph else "incompatible_alphabet_rejected"
        o.check_eq(rows, want_t, clause, f"match_table between tables over {real_alph!r} and {ot['alph']!r} (swapped={swap})")
        if not same_alph:
            o.label("match_table_accepted_different_alphabets")
    o.mark_nontrivial(not (q_fits and same_alph and all(a == base for a in alphs)))
    return o


# --------------------------------------------------------------------------
# an index restored by pickling in ANOTHER interpreter (other string-hash salt)
# --------------------------------------------------------------------------
_CHILD = r"""
import json, pickle, sys
from biotite.sequence import Alphabet, GeneralSequence, LetterAlphabet
from biotite.sequence.align import BucketKmerTable, KmerTable
job = pickle.loads(sys.stdin.buffer.read())
def mk(alph, text):
    a = Alphabet(list(alph)) if job["generic"] else LetterAlphabet(alph)
    return GeneralSequence(a, list(text) if job["generic"] else text)
Table = BucketKmerTable if job["bucket"] else KmerTable
kw = {"n_buckets": 11} if job["bucket"] else {}
if job.get("spacing") is not None:
    kw["spacing"] = job["spacing"]
restored = pickle.loads(job["table"])
fresh = Table.from_sequences(job["k"], [mk(a, t) for a, t in job["refs"]], **kw)
out = {"equal": bool(restored == fresh and fresh == restored)}
try:
    out["match_table"] = sorted(map(list, restored.match_table(fresh).tolist()))
    out["match_table_fresh"] = sorted(map(list, fresh.match_table(fresh).tolist()))
except Exception as e:
    out["match_table_error"] = type(e).__name__ + ": " + str(e)
out["match"] = sorted(map(list, restored.match(mk(*job["query"])).tolist()))
sys.stdout.write(json.dumps(out))
"""


def st_pickle_cross(tier):
    @st.composite
    def gen(draw):
        n = draw(st.integers(3, 6))
        base = "".join(draw(st.lists(st.sampled_from(MM_LETTERS), min_size=n, max_size=n, unique=True)))
        k = draw(st.sampled_from([2, 3, 4]))
        spacing = None
        if _one_in(draw, 3):
            spacing = sorted(draw(st.lists(st.integers(0, k + 2), min_size=k, max_size=k, unique=True)))
        span = k if spacing is None else spacing[-1] + 1
        refs = [draw(st.text(base, min_size=span, max_size=span + 10)) for _ in range(draw(st.integers(1, 3)))]
        src = draw(st.sampled_from(refs))
        a = draw(st.integers(0, len(src) - span))
        query = (src[a:] + draw(st.text(base, max_size=6)))[: span + 10]
        return {
            "base": base, "k": k, "spacing": spacing, "refs": refs, "query": query,
            "bucket": draw(st.booleans()), "generic_alphabet": draw(st.booleans()),
            "hashseed": draw(st.integers(1, 4_000_000)),
        }

    return gen()


def run_pickle_cross(case):
    import os
    import signal
    import subprocess
    import sys

    from biotite.sequence.align import BucketKmerTable, KmerTable

    o = Outcome()
    _MM_GENERIC[0] = bool(case["generic_alphabet"])
    base, k = case["base"], case["k"]
    Table = BucketKmerTable if case["bucket"] else KmerTable
    kw = {"n_buckets": 11} if case["bucket"] else {}
    spacing = case.get("spacing")
    if spacing is not None:
        kw["spacing"] = list(spacing)
    table = Table.from_sequences(k, [_mm_seq(t, base) for t in case["refs"]], **kw)
    # the usual in-process check first (it also makes the alphabets compare / hash themselves)
    o.check(pickle.loads(pickle.dumps(table)) == table, "restored_by_pickling_equal", "in-process pickle round trip")
    try:
        hash(table.alphabet)
    except TypeError:
        o.label("alphabet_not_hashable")
    job = {
        "table": pickle.dumps(table), "k": k, "refs": [(base, t) for t in case["refs"]], "bucket": case["bucket"],
        "generic": bool(case["generic_alphabet"]), "query": (base, case["query"]), "spacing": spacing,
    }
    env = dict(os.environ)
    env["PYTHONHASHSEED"] = str(case["hashseed"])
    try:
        proc = subprocess.run([sys.executable, "-c", _CHILD], input=pickle.dumps(job), capture_output=True, env=env, timeout=300)
    except subprocess.TimeoutExpired:
        # machine load, not the property
        o.label("child_timeout")
        o.invalid = True
        return o
    if proc.returncode != 0:
        err = proc.stderr.decode(errors="replace")
        crashed = proc.returncode in (-signal.SIGSEGV, -signal.SIGABRT, -signal.SIGBUS, -signal.SIGFPE, -signal.SIGILL)
        if crashed or (proc.returncode > 0 and "Traceback" in err and "biotite" in err):
            o.fail("restored_by_pickling_equal", f"the second interpreter failed (exit {proc.returncode}): {err[-600:]}")
        elif proc.returncode > 0 and "Traceback" in err:
            raise RuntimeError(f"pickle_cross_process: child script failed outside biotite: {err[-600:]}")
        else:
            # killed from outside (SIGTERM / SIGKILL, OOM killer) or no traceback: not decided
            o.label(f"child_exit={proc.returncode}")
            o.invalid = True
        return o
    try:
        res = json.loads(proc.stdout.decode())
    except ValueError:
        o.label("child_output_unreadable")
        o.invalid = True
        return o
    o.check(res["equal"], "restored_by_pickling_equal", "index restored in another interpreter != the same index built there")
    o.check("match_table_error" not in res, "restored_by_pickling_equal", lambda: f"match_table of restored vs fresh index: {res.get('match_table_error')}")
    if "match_table" in res:
        o.check_eq(res["match_table"], res["match_table_fresh"], "restored_by_pickling_equal", "match_table(restored, fresh) vs match_table(fresh, fresh)")
    want = [list(t) for t in _mm_naive(case["query"], case["refs"], k, spacing)]
    o.check_eq(res["match"], want, "matches_exactly_identical_kmers", "match() on the index restored in another interpreter")
    o.label("bucket" if case["bucket"] else "direct", "generic_Alphabet" if case["generic_alphabet"] else "LetterAlphabet")
    o.label("spaced" if spacing is not None else "contiguous", f"k={k}")
    o.mark_nontrivial(len(want) > 0)
    return o


SUBS = [
    Sub(
        "pickle_cross_process",
        st_pickle_cross,
        run_pickle_cross,
        quick=32,
        thorough=400,
        rule="index pickled here and restored in a second interpreter with another PYTHONHASHSEED; >= 1 match",
        clauses="restored by pickling: equal to the index built from the same sequences, same matches",
    ),
    Sub(
        "alphabet_mismatch",
        st_alphabet_mismatch,
        run_alphabet_mismatch,
        quick=1600,
        thorough=60000,
        rule="a reference, query or second table over an alphabet that is not the table alphabet (prefix, infix, suffix, permutation, superset)",
        clauses="matches are defined on symbols: a foreign alphabet is either rejected (any exception type) or handled symbol-wise correctly (from_sequences, match, match_table; both table variants)",
    ),
    Sub(
        "table_match",
        st_table_match,
        run_table_match,
        quick=4400,
        thorough=190000,
        rule=">= 1 k-mer stored for >= 2 references and >= 1 match (bucketed: and >= 1 bucket collision)",
        clauses="match / match_table / match_kmer_selection return exactly the matching triples (exact, similar, masked, spaced) "
        "for direct and bucketed tables built by any one constructor; count, get_kmers, table[kmer], in, len, iteration agree",
    ),
    Sub(
        "constructors_equal",
        st_constructors,
        run_constructors_equal,
        quick=1600,
        thorough=90000,
        rule=">= 2 usable references sharing a k-mer (bucketed: and a collision)",
        clauses="from_sequences, from_kmers, from_kmer_selection, from_positions, from_tables and a pickle round trip of equal "
        "content give tables with identical content; a table equals (==) itself and its pickle round trip, == is symmetric and != its "
        "negation (== between different constructors is recorded only: undocumented, order sensitive); a table with one entry "
        "less / one position / one reference id changed is unequal",
    ),
    Sub(
        "bucket_big",
        st_bucket_big,
        run_bucket_big,
        quick=1200,
        thorough=60000,
        rule="table holds a k-mer code >= 2^32, >= 1 match, >= 1 bucket collision",
        clauses="BucketKmerTable over k-mer alphabets beyond 32 bit: match, match_table, match_kmer_selection, count, get_kmers, table[kmer], pickling",
    ),
    Sub(
        "kmer_alphabet",
        st_kmer_alphabet,
        run_kmer_alphabet,
        quick=600,
        thorough=30000,
        rule="a repeated k-mer or >= 3 k-mers",
        clauses="KmerAlphabet.create_kmers (contiguous and spaced) / fuse / split / encode / decode / kmer_array_length follow the "
        "documented radix formula, also for base alphabets with more than 2^8 / 2^16 symbols (16 / 32 bit sequence codes); an "
        "index over such an alphabet holds and matches exactly those k-mers",
    ),
    Sub(
        "similar_kmers",
        st_similar,
        run_similar_kmers,
        quick=1600,
        thorough=90000,
        rule="between 2 and all-but-one k-mers are similar",
        clauses="ScoreThresholdRule.similar_kmers = all k-mers with summed score >= threshold, no duplicates",
    ),
    Sub(
        "permutation",
        st_permutation_case,
        run_permutation,
        quick=800,
        thorough=40000,
        rule=">= 2 distinct codes (frequency permutation: counts not all equal)",
        clauses="sort keys in [min, max], unambiguous, the same for every object and call; RandomPermutation = (a*c + 1) mod 2^64 "
        "(documented formula, factor read off the object); FrequencyPermutation: less frequent k-mers are smaller (tie order and "
        "exact key values recorded only)",
    ),
    Sub(
        "minimizer",
        st_minimizer,
        run_minimizer,
        quick=2800,
        thorough=150000,
        rule=">= 2 windows and (a tie inside a window or a selection that is neither one k-mer nor all)",
        clauses="MinimizerSelector.select / select_from_kmers return the leftmost minimum (by the sort keys of the permutation "
        "object) of every window, each once",
    ),
    Sub(
        "syncmer",
        st_syncmer,
        run_syncmer,
        quick=2200,
        thorough=120000,
        rule=">= 2 k-mers and (a tie among the s-mers or a selection that is neither empty nor all)",
        clauses="SyncmerSelector / CachedSyncmerSelector select exactly the k-mers whose leftmost minimum s-mer is at an allowed offset",
    ),
    Sub(
        "mincode",
        st_mincode,
        run_mincode,
        quick=2200,
        thorough=120000,
        rule="selection neither empty nor all",
        clauses="MincodeSelector selects exactly the k-mers with (permuted) code below its public threshold; the threshold is "
        "min + range / compression of the permutation's value range (up to float rounding)",
    ),
    Sub(
        "bucket_number",
        st_bucket_number,
        run_bucket_number,
        quick=480,
        thorough=20000,
        rule="requested number > 3",
        clauses="auxiliary: bucket_number returns a listed prime that is the closest one at or above n_kmers / load_factor (>= or >, "
        "rounded down or up: all four readings of the docstring accepted); default n_buckets of a table gives a load factor <= 1",
    ),
]


# --------------------------------------------------------------------------
# open findings
# --------------------------------------------------------------------------
_CONTENT_CLAUSES = {
    "get_kmers",
    "getitem",
    "count",
    "contains",
    "iteration",
    "match",
    "match_table",
    "match_kmer_selection",
    "equal_content_equal_tables",
}


def _any_mask(case):
    seqs = list(case.get("refs", [])) + [case.get("query"), case.get("query2")]
    return any(s and s.get("mask") and any(s["mask"]) for s in seqs)


def spaced_kmers_with_ignore_mask(sub, case, clause, message):
    return (
        sub in ("table_match", "constructors_equal")
        and case.get("spacing") is not None
        and _any_mask(case)
        and not case.get("f1_safe")
        and clause in _CONTENT_CLAUSES
    )


def identical_kmer_below_similarity_threshold(sub, case, clause, message):
    if sub != "table_match" or case.get("rule") is None or clause not in ("match", "match_table"):
        return False
    k = case["k"]
    offs = list(range(k)) if case["spacing"] is None else sorted(case["spacing"])
    span = offs[-1] + 1
    seqs = [s for s in (case.get("query"), case.get("query2")) if s and len(s["seq"]) >= span]
    lim = _self_scores_min(seqs, offs, case["rule"]["matrix"])
    return lim is not None and lim < case["rule"]["threshold"] and "unexpected []" in message


def mincode_returns_boolean_mask(sub, case, clause, message):
    return sub == "mincode" and clause == "mincode_returns_indices" and "bool" in message


def bucket_getitem_truncates_code(sub, case, clause, message):
    return sub == "bucket_big" and clause == "getitem" and case["n"] ** case["k"] > (1 << 32)


def minimum_at_int64_max_sort_key(sub, case, clause, message):
    return (
        sub in ("minimizer", "syncmer")
        and clause in ("minimizer", "syncmer")
        and case.get("perm", {}).get("type") == "table"
        and INT64_MAX in case["perm"]["keys"]
    )


FINDINGS = {
    "minimum_at_int64_max_sort_key": minimum_at_int64_max_sort_key,
    "spaced_kmers_with_ignore_mask": spaced_kmers_with_ignore_mask,
    "identical_kmer_below_similarity_threshold": identical_kmer_below_similarity_threshold,
    "mincode_returns_boolean_mask": mincode_returns_boolean_mask,
    "bucket_getitem_truncates_code": bucket_getitem_truncates_code,
}
