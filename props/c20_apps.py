"""
C20  Application wrappers follow their life cycle and always clean up.

Four families of histories (op-lists of <= 8 calls), each interpreted step by
step on the real wrapper and on a reference state machine of the documented
life cycle CREATED -> RUNNING -> FINISHED -> JOINED | CANCELLED:

* ``base_*``   an in-process ``Application`` subclass (no child process): the
               generic ``start/join/cancel/get_app_state`` machinery.
* ``local_*``  a trivial ``LocalApp`` subclass driving ``fixtures/bin/fake_generic``.
* ``msa_*``    ``ClustalOmegaApp``, ``MafftApp``, ``MuscleApp``, ``Muscle5App`` driving
               the fake MSA tools of ``fixtures/bin`` (behaviour chosen per case
               through the control file named by ``VERIF_FAKE_CTL``).
* ``tool_*``   ``TantanApp``, ``RNAfoldApp``, ``RNAplotApp``, ``RNAalifoldApp``, ``DsspApp`` driving
               fake_tantan / fake_rnafold / fake_rnaplot / fake_rnaalifold / fake_dssp
               (``fixtures/bin/fakelib_tools.py``): the tool's answer (mask intervals, structure,
               energies, coordinates, SSE letters) is chosen by the case, the tool derives it from
               the input it really read and logs that input.

* ``convenience_entry``  the one-call entry points (``MSAApp.align()``, ``TantanApp.mask_repeats()``,
               ``compute_secondary_structure()``, ``compute_coordinates()``, ``annotate_sse()``) with the
               same inputs and tool behaviours: result or exception, and what is left behind.

The oracle decides for every call whether it must succeed or raise
``AppStateError`` (and then leave cwd, temp files, child process and clean-up
count untouched).  Whenever the model reaches a terminal state (JOINED,
CANCELLED - by join, cancel, timeout, failing exit code, unparsable output or
launch failure) clean-up must have run exactly once, ``os.getcwd()`` must be what
it was, the private temp directory of the case must be empty and the child must
be dead.  After JOINED the results must equal what the fake tool wrote, mapped
back to input order and sequence type.

Nothing is concluded from elapsed time: a "hang" is a tool that waits for a gate
file which the history never creates; the wrapper is then joined with
``timeout=0.2`` and only the exception type and the resources afterwards are
looked at.  A tool that gives up at its gate (after 240 s: the worker was starved)
logs that, and the case is then discarded as invalid instead of judged.  The only
clock uses are bounded waits (60 - 300 s, far beyond anything but a stalled machine)
for a SIGKILLed child to disappear from /proc and for an ungated tool to exit.

Where neither the property statement nor a docstring fixes the behaviour, every
legitimate outcome is accepted and labelled (``protected_getter_*``, ``ctor_*``,
``exit_exc=*``, ``garbage_accepted`` ...); something is still checked on each branch.

A history is interpreted up to its first violation: afterwards model and wrapper
may have diverged and later verdicts would be meaningless.
"""

import json
import os
import shutil
import signal
import subprocess
import tempfile
import time
from pathlib import Path

from hypothesis import strategies as st

from vlib import Enum, Outcome, Sub

PROPERTY = "C20"
RULE = (
    "op-list histories (<= 8 calls over start/join/cancel/get_app_state/setters/getters plus the "
    "harness ops release/wait_exit) on application wrappers driven by fake tools; non-trivial = "
    "the history reaches a terminal state through a failure path (non-zero exit, timeout, "
    "unparsable or missing output, launch failure) or through cancel"
)

BIN = Path(__file__).resolve().parent.parent / "fixtures" / "bin"
ENV = "VERIF_FAKE_CTL"
JOIN_TIMEOUT_HANG = 0.2
JOIN_TIMEOUT_LONG = 300.0
TERMINAL = ("JOINED", "CANCELLED")
PROTEIN_LETTERS = "ACDEFGHIKLMNPQRSTVWYBZX"
STDIN_TOKEN = "verif stdin token\nsecond line\n"

_CLASS_CACHE = {}


def setup():
    names = ["fake_clustalo", "fake_mafft", "fake_muscle3", "fake_muscle5", "fake_generic"]
    names += ["fake_tantan", "fake_rnafold", "fake_rnaplot", "fake_rnaalifold", "fake_dssp"]
    for name in names:
        p = BIN / name
        if not (p.exists() and os.access(p, os.X_OK)):
            raise RuntimeError(f"fixture {p} is missing or not executable")


# --------------------------------------------------------------------------
# small helpers
# --------------------------------------------------------------------------
def _proc_state(pid):
    """State letter of /proc/<pid>/stat or None if the pid does not exist."""
    try:
        with open(f"/proc/{pid}/stat", "rb") as f:
            data = f.read()
    except (FileNotFoundError, ProcessLookupError):
        return None
    rest = data[data.rfind(b")") + 2 :]
    return rest[:1].decode()


def _is_dead(pid):
    return _proc_state(pid) in (None, "Z", "X")


def _wait_dead(pid, limit=60.0):
    """Bounded wait: SIGKILL delivery is asynchronous.  True if the pid died."""
    t_end = time.monotonic() + limit
    while True:
        if _is_dead(pid):
            return True
        if time.monotonic() > t_end:
            return False
        time.sleep(0.005)


def _wait_exited(pid, limit=120.0):
    """Wait (without reaping) until our child has exited."""
    t_end = time.monotonic() + limit
    while time.monotonic() < t_end:
        try:
            r = os.waitid(os.P_PID, pid, os.WEXITED | os.WNOWAIT | os.WNOHANG)
        except ChildProcessError:
            return True  # already reaped
        if r is not None:
            return True
        time.sleep(0.003)
    return False


def _state_name(app_state):
    return app_state.name


def _expect_state_error(o, AppStateError, fn, what):
    """A call the life cycle does not allow must raise AppStateError - nothing else."""
    try:
        r = fn()
    except AppStateError:
        return
    except Exception as e:  # noqa: BLE001 - reported as a violation of this very clause
        o.fail(
            "call_outside_life_cycle_raises_state_error",
            f"{what}: raised {type(e).__name__}: {e} instead of AppStateError",
        )
        return
    o.fail("call_outside_life_cycle_raises_state_error", f"{what}: expected AppStateError but got a value {r!r:.200}")


def _construct_or_launch_failure(o, sess, construct, what):
    """Wrappers that probe the version of their binary in the constructor: with a binary that cannot be
    launched the constructor may fail (then nothing may be left behind) or defer the failure to start()
    (then the history goes on and the model expects the launch failure there).  Returns the app or None."""
    from biotite.application import VersionError

    try:
        app = construct()
    except (OSError, subprocess.SubprocessError, VersionError) as e:
        o.label(f"ctor_exc={type(e).__name__}")
        o.check_eq(sess.tmp_listing(), [], "no_temp_file_left", f"after failed {what}")
        o.check_eq(os.getcwd(), sess.cwd0, "cwd_unchanged", f"after failed {what}")
        o.check_eq(sess.log(), [], "no_child_left", f"the tool ran although the {what} failed")
        return None
    o.label("ctor_defers_launch_failure")
    return app


def _run_convenience(o, sess, call, check, must_fail, may_fail, launches, extra_dirs=()):
    """The one-call entry points (MSAApp.align(), TantanApp.mask_repeats(), ...): start + join + getter in
    one function.  The wrapper object is never seen, so only what the property states about the outside
    world is judged: the result (or that a failed run raises), the temp directory, the working directory
    and the child process (its pid is taken from the tool's own log)."""
    try:
        val = call()
    except Exception as e:  # noqa: BLE001 - "a failed run raises": no type is documented
        o.label(f"convenience_exc={type(e).__name__}")
        if not (must_fail or may_fail):
            raise
        o.label("path=convenience_failed")
        o.mark_nontrivial()
    else:
        if must_fail:
            o.fail("failed_run_raises_on_join", f"the convenience function returned {val!r:.200} although the run failed")
        elif may_fail:
            o.label("path=convenience_garbage_accepted")
        else:
            o.label("path=convenience_ok")
            check(val)
    starts = [r for r in sess.log() if r.get("phase") == "start"]
    o.check_eq(len(starts), 1 if launches else 0, "tool_started_once", "number of tool invocations")
    for r in starts:
        o.check(_wait_dead(r["pid"]), "no_child_left", f"child {r['pid']} is in state {_proc_state(r['pid'])} after the convenience function")
    o.check_eq(sess.tmp_listing(), [], "no_temp_file_left", "after the convenience function")
    for d in extra_dirs:
        o.check_eq(sorted(os.listdir(d)), [], "no_temp_file_left", f"directory {d} after the convenience function")
    o.check_eq(os.getcwd(), sess.cwd0, "cwd_unchanged", "after the convenience function")


def _app_classes():
    from biotite.application import (
        Application,
        AppState,
        AppStateError,
        LocalApp,
        TimeoutError as AppTimeoutError,
        requires_state,
    )

    return Application, AppState, AppStateError, LocalApp, AppTimeoutError, requires_state


# --------------------------------------------------------------------------
# wrapper classes (defined lazily: biotite is imported inside run)
# --------------------------------------------------------------------------
def _counted(cls):
    """Subclass that counts clean_up() calls and remembers the Popen object."""
    key = ("counted", cls)
    if key not in _CLASS_CACHE:

        class Counted(cls):
            verif_cleanups = 0
            verif_proc = None

            def run(self):
                try:
                    super().run()
                finally:
                    # only a fall-back (and the failed-launch path): after a successful start() the
                    # model asks the documented accessor get_process(), see LocalModel.op_start
                    self.verif_proc = getattr(self, "_process", None)

            def clean_up(self):
                self.verif_cleanups += 1
                super().clean_up()

        Counted.__name__ = "Counted" + cls.__name__
        _CLASS_CACHE[key] = Counted
    return _CLASS_CACHE[key]


WEB_URL = "https://verif.invalid/app"


def _dummy_app_class(web=None):
    """web: None = plain Application; True / False = WebApp with obey_rules set like that."""
    key = "dummy" if web is None else "dummy_web"
    if key not in _CLASS_CACHE:
        Application, AppState, _, _, _, requires_state = _app_classes()
        if web is not None:
            from biotite.application import WebApp as Application

        class DummyApp(Application):
            """In-process application: finished when `done` is set or after `k` polls."""

            def __init__(self, k, run_raises, evaluate_raises, obey_rules=None):
                if obey_rules is None:
                    super().__init__()
                else:
                    super().__init__(WEB_URL, obey_rules=obey_rules)
                self.k = k
                self.run_raises = run_raises
                self.evaluate_raises = evaluate_raises
                self.polls = 0
                self.told_finished = False
                self.done = False
                self.verif_cleanups = 0
                self.runs = 0
                self.param = None
                self.result = None

            def run(self):
                self.runs += 1
                if self.run_raises:
                    raise OSError("cannot launch")

            def is_finished(self):
                self.polls += 1
                finished = self.done or (self.k is not None and self.polls > self.k)
                if finished:
                    self.told_finished = True  # the wrapper has been told that the program is through
                return finished

            def wait_interval(self):
                return 0.0002

            def evaluate(self):
                if self.evaluate_raises:
                    raise ValueError("unparsable output")
                self.result = ("result", self.param)

            def clean_up(self):
                self.verif_cleanups += 1

            @requires_state(AppState.CREATED)
            def set_param(self, value):
                self.param = value

            @requires_state(AppState.JOINED)
            def get_result(self):
                return self.result

        _CLASS_CACHE[key] = DummyApp
    return _CLASS_CACHE[key]


def _echo_app_class():
    if "echo" not in _CLASS_CACHE:
        _, AppState, _, LocalApp, _, requires_state = _app_classes()

        class EchoApp(LocalApp):
            """Trivial LocalApp: the result is the JSON document the tool prints."""

            def __init__(self, bin_path):
                super().__init__(bin_path)
                self._result = None

            def evaluate(self):
                super().evaluate()
                self._result = json.loads(self.get_stdout())

            @requires_state(AppState.JOINED)
            def get_result(self):
                return self._result

        _CLASS_CACHE["echo"] = EchoApp
    return _CLASS_CACHE["echo"]


# ==========================================================================
# 1. in-process Application (base life cycle)
# ==========================================================================
# "finish" is a harness op: the simulated external program completes (like a
# child process exiting).  Independently the program completes by itself once
# is_finished() has been polled more than k times (k = None: never).
# ["join", "expired"]: join(timeout=t) with t shorter than the time since start(); a program that
# has finished by then needs no waiting, so the join succeeds like one without timeout
BASE_OPS = [["start"], ["join"], ["cancel"], ["state"], ["get_result"], ["set_param", 7], ["finish"], ["join", "expired"]]
BASE_BEHAVIOURS = [
    {"k": None, "run_raises": False, "evaluate_raises": False},
    {"k": 0, "run_raises": False, "evaluate_raises": False},
    {"k": 2, "run_raises": False, "evaluate_raises": False},
    {"k": None, "run_raises": True, "evaluate_raises": False},
    {"k": None, "run_raises": False, "evaluate_raises": True},
    {"k": 2, "run_raises": False, "evaluate_raises": True},
]


def st_base(tier):
    set_param = st.integers(0, 9).map(lambda v: ["set_param", v])
    any_op = st.one_of(st.sampled_from(BASE_OPS[:5] + [["finish"], ["start"], ["join", "expired"], ["rule"]]), set_param)
    before = st.one_of(set_param, st.sampled_from([["get_result"], ["state"], ["cancel"], ["finish"]]))
    during = st.one_of(set_param, st.sampled_from([["get_result"], ["state"], ["state"], ["finish"], ["finish"], ["start"], ["rule"]]))
    beh = st.fixed_dictionaries(
        {
            "k": st.sampled_from([None, None, 0, 1, 2, 4]),
            "run_raises": st.sampled_from([False] * 5 + [True]),
            "evaluate_raises": st.sampled_from([False] * 3 + [True]),
            "web": st.sampled_from([None, None, True, False]),
        }
    )

    @st.composite
    def ops(draw):
        if draw(st.sampled_from([False] * 6 + [True])):
            return draw(st.lists(any_op, max_size=8))
        pre = draw(st.lists(before, max_size=2))
        mid = draw(st.lists(during, max_size=3))
        end = draw(st.sampled_from([["join"], ["join"], ["join", "expired"], ["cancel"]]))
        post = draw(st.lists(any_op, max_size=1))
        return pre + [["start"]] + mid + [end] + post

    return st.fixed_dictionaries({"beh": beh, "ops": ops()})


def enum_base(tier):
    import itertools

    for beh in BASE_BEHAVIOURS:
        for n in range(0, 5):
            for ops in itertools.product(BASE_OPS, repeat=n):
                yield {"beh": beh, "ops": [list(op) for op in ops]}


def run_base(case):
    _, AppState, AppStateError, _, AppTimeoutError, _ = _app_classes()
    o = Outcome()
    beh = case["beh"]
    k = beh["k"]
    web = beh.get("web")  # None: Application; True / False: WebApp(obey_rules=web)
    if web is None:
        app = _dummy_app_class()(k, beh["run_raises"], beh["evaluate_raises"])
    else:
        app = _dummy_app_class(web)(k, beh["run_raises"], beh["evaluate_raises"], obey_rules=web)
        o.label("webapp_obeys_rules" if web else "webapp_ignores_rules")
    cwd0 = os.getcwd()

    state = "CREATED"  # RUNNING also stands for "finished but not yet observed"
    param = None
    path = None
    rejected = 0

    def finishes_on_next_poll():
        # app.polls / app.done are the state of the simulated external program
        return app.done or (k is not None and app.polls + 1 > k)

    def snapshot():
        # polling the program is an observation, not a side effect
        return (app.verif_cleanups, app.runs, app.param, app.done, os.getcwd())

    def rejected_call(fn, what):
        nonlocal rejected
        rejected += 1
        before = snapshot()
        _expect_state_error(o, AppStateError, fn, f"{what} in {state}")
        o.check_eq(snapshot(), before, "rejected_call_has_no_side_effects", f"{what} in {state}")

    def allowed(fn, what):
        try:
            return True, fn()
        except AppStateError as e:
            o.fail("call_allowed_by_life_cycle_succeeds", f"{what} in {state}: AppStateError {e}")
            return False, None

    for i, op in enumerate(case["ops"]):
        name = op[0]
        if name == "start":
            if state != "CREATED":
                rejected_call(app.start, "start")
            elif beh["run_raises"]:
                o.expect_raises(OSError, app.start, "launch_failure_propagates", "start")
                state, path = "CANCELLED", "launch_failure"
            else:
                allowed(app.start, "start")
                state = "RUNNING"
        elif name == "join":
            if state not in ("RUNNING", "FINISHED"):
                rejected_call(app.join, "join")
            elif state == "RUNNING" and not app.done and k is None:
                # never finishes: join with a tiny timeout must time out and cancel
                try:
                    app.join(timeout=0.003)
                    o.fail("timeout_raises_timeout_error", "join(timeout) of a never finishing app returned")
                except AppTimeoutError:
                    pass
                except AppStateError as e:
                    o.fail("call_allowed_by_life_cycle_succeeds", f"join in {state}: {e}")
                state, path = "CANCELLED", "timeout"
            else:
                try:
                    if len(op) > 1 and finishes_on_next_poll():
                        o.label("join_finished_app_with_expired_timeout")
                        try:
                            app.join(timeout=1e-9)
                        except AppTimeoutError as e:
                            o.fail("finished_app_joins_whatever_the_timeout", f"join(timeout=1e-9) of a finished program: {e}")
                            state, path = "CANCELLED", "timeout"
                            break
                    else:
                        app.join()
                    if beh["evaluate_raises"]:
                        o.fail("failed_run_raises_on_join", "join returned although evaluate() raised")
                    state, path = "JOINED", "joined"
                except ValueError:
                    if not beh["evaluate_raises"]:
                        raise
                    state, path = "CANCELLED", "garbage"
                except AppStateError as e:
                    o.fail("call_allowed_by_life_cycle_succeeds", f"join in {state}: {e}")
                    state = "CANCELLED"
        elif name == "cancel":
            if state not in ("RUNNING", "FINISHED"):
                rejected_call(app.cancel, "cancel")
            else:
                allowed(app.cancel, "cancel")
                state, path = "CANCELLED", "cancel"
        elif name == "state":
            # How often and when the wrapper polls the program is not documented (WebApp: a state query "may
            # involve a server contact"; today also the text of an AppStateError polls): the model follows
            # the polls that really happened - the wrapper is FINISHED once a poll has told it so.
            polls_before = app.polls
            got = _state_name(app.get_app_state())
            if state == "RUNNING":
                if app.told_finished:
                    state = "FINISHED"
                if app.polls == polls_before:
                    o.label("state_query_without_poll")
            o.check_eq(got, state, "state_query_follows_life_cycle", f"op {i}")
        elif name == "get_result":
            if state != "JOINED":
                rejected_call(app.get_result, "get_result")
            else:
                ok, val = allowed(app.get_result, "get_result")
                if ok:
                    o.check_eq(val, ("result", param), "results_equal_tool_output", "get_result")
        elif name == "set_param":
            if state != "CREATED":
                rejected_call(lambda: app.set_param(op[1]), "set_param")
            else:
                allowed(lambda: app.set_param(op[1]), "set_param")
                param = op[1]
        elif name == "finish":
            app.done = True
        elif name == "rule":
            # WebApp: the URL getter and the rule check work in every state and change nothing
            if web is None:
                continue
            from biotite.application import RuleViolationError

            before = snapshot()
            o.check_eq(app.app_url(), WEB_URL, "webapp_url_and_rules", "app_url()")
            if web:
                o.expect_raises(RuleViolationError, lambda: app.violate_rule("too many requests"), "webapp_url_and_rules", "violate_rule() with obey_rules=True")
                o.expect_raises(RuleViolationError, app.violate_rule, "webapp_url_and_rules", "violate_rule() without message")
            else:
                o.check_eq(app.violate_rule("too many requests"), None, "webapp_url_and_rules", "violate_rule() with obey_rules=False")
            o.check_eq(snapshot(), before, "rejected_call_has_no_side_effects", "app_url()/violate_rule()")
        else:
            raise RuntimeError(f"unknown op {op}")
        # invariants after every step
        o.check_eq(os.getcwd(), cwd0, "cwd_unchanged", f"after op {i} {name}")
        want_cleanups = 1 if state in TERMINAL else 0
        o.check_eq(app.verif_cleanups, want_cleanups, "clean_up_exactly_once", f"after op {i} {name} (model {state})")
        o.check(app.runs <= 1, "run_started_at_most_once", f"run() called {app.runs} times")
        if state in TERMINAL or state == "CREATED":
            o.check_eq(_state_name(app.get_app_state()), state, "state_query_follows_life_cycle", f"after op {i} {name}")
        if o.violations:
            break  # model and wrapper may have diverged

    o.label(f"path={path}", f"end={state}", "rejected" if rejected else "no_rejected")
    o.mark_nontrivial(path in ("timeout", "garbage", "launch_failure", "cancel"))
    return o


# ==========================================================================
# 2./3. LocalApp based wrappers with fake tools
# ==========================================================================
class Session:
    """Everything owned by one case: private directories, control file, env."""

    def __init__(self):
        self.dir = tempfile.mkdtemp(prefix="verif_c20_")
        self.tmp = os.path.join(self.dir, "tmp")
        self.exec_dirs = [os.path.join(self.dir, "exec0"), os.path.join(self.dir, "exec1"), os.path.join(self.dir, "no_such_dir")]
        os.mkdir(self.tmp)
        os.mkdir(self.exec_dirs[0])
        os.mkdir(self.exec_dirs[1])
        self.ctl_path = os.path.join(self.dir, "ctl.json")
        self.log_path = os.path.join(self.dir, "log.jsonl")
        self.gate_path = os.path.join(self.dir, "gate")
        self.stdin_path = os.path.join(self.dir, "stdin.txt")
        with open(self.stdin_path, "w") as f:
            f.write(STDIN_TOKEN)
        self.cwd0 = os.getcwd()
        self.old_tempdir = tempfile.tempdir
        self.old_env = os.environ.get(ENV)
        tempfile.tempdir = self.tmp
        os.environ[ENV] = self.ctl_path
        self.stdin_files = []
        self.app = None

    def write_ctl(self, ctl):
        ctl = dict(ctl)
        ctl["log"] = self.log_path
        ctl["gate"] = self.gate_path if ctl.get("gate") else None
        with open(self.ctl_path, "w") as f:
            json.dump(ctl, f)

    def release(self):
        with open(self.gate_path, "w") as f:
            f.write("go")

    def log(self):
        if not os.path.exists(self.log_path):
            return []
        out = []
        with open(self.log_path) as f:
            for line in f:
                try:
                    out.append(json.loads(line))
                except ValueError:
                    pass  # the tool was killed while writing
        return out

    def tmp_listing(self):
        return sorted(os.listdir(self.tmp))

    def bin_path(self, kind, tool):
        if kind == "ok":
            return str(BIN / tool)
        if kind == "missing":
            return os.path.join(self.dir, "no_such_tool")
        if kind == "noexec":
            p = BIN / "not_executable"
            if p.exists() and not os.access(p, os.X_OK):
                return str(p)
            q = os.path.join(self.dir, "not_executable")
            with open(q, "w") as f:
                f.write("not executable\n")
            os.chmod(q, 0o644)
            return q
        raise RuntimeError(kind)

    def close(self):
        """Never let one case poison the next: kill children, restore cwd/env."""
        harness_problem = None
        try:
            os.chdir(self.cwd0)
            proc = getattr(self.app, "verif_proc", None) if self.app is not None else None
            pids = set()
            if proc is not None:
                pids.add(proc.pid)
                if proc.poll() is None:
                    try:
                        proc.kill()
                    except ProcessLookupError:
                        pass
                try:
                    proc.wait(timeout=20)
                except subprocess.TimeoutExpired:
                    harness_problem = f"child {proc.pid} survived SIGKILL"
                for stream in (proc.stdin, proc.stdout, proc.stderr):
                    try:
                        if stream is not None:
                            stream.close()
                    except Exception:
                        pass
                if proc.returncode is not None and 90 <= proc.returncode <= 99:
                    harness_problem = f"fake tool reported a harness problem (exit {proc.returncode})"
            # children the wrapper does not know about (must not exist, but be safe)
            for rec in self.log():
                pid = rec.get("pid")
                if pid is not None and pid not in pids and rec.get("phase") == "start":
                    pids.add(pid)
                    try:
                        os.kill(pid, signal.SIGKILL)
                    except (ProcessLookupError, PermissionError):
                        pass
            for f in self.stdin_files:
                try:
                    f.close()
                except Exception:
                    pass
        finally:
            tempfile.tempdir = self.old_tempdir
            if self.old_env is None:
                os.environ.pop(ENV, None)
            else:
                os.environ[ENV] = self.old_env
            shutil.rmtree(self.dir, ignore_errors=True)
        return harness_problem


class LocalModel:
    """Reference state machine + interpreter shared by local_* and msa_*."""

    def __init__(self, o, sess, app, case, hooks):
        (_, self.AppState, self.AppStateError, _, self.AppTimeoutError, _) = _app_classes()
        self.o = o
        self.sess = sess
        self.app = app
        self.case = case
        self.hooks = hooks  # dict of callables for app specific ops / result checks
        self.tool = case["tool"]
        self.state = "CREATED"
        # what is known about the child: none | blocked | unknown | exited | dead
        self.child = "none"
        self.released = not self.tool.get("gate")
        self.exec_dir = sess.cwd0
        self.options = []
        self.settings = {}
        self.path = None
        self.rejected = 0
        self.lazy_undecided = 0
        self.terminal_checked = False
        self.bad_bin = case.get("bin", "ok") != "ok"
        self.stdin_set = False
        self.stalled = False  # a bounded harness wait ran out: the case is discarded
        # True after a join that was allowed to succeed on unparsable output: the results are undefined
        self.results_undefined = False

    # ---- helpers
    def snapshot(self):
        proc = self.app.verif_proc
        alive = None
        if self.child == "blocked" and proc is not None:
            alive = not _is_dead(proc.pid)
        # what a *running* tool does to the temp directory and to its log by itself is no side effect of the
        # rejected call: both are compared only while no child is running
        quiescent = self.child in ("none", "exited", "dead")
        return (
            os.getcwd(),
            self.sess.tmp_listing() if quiescent else None,
            self.app.verif_cleanups,
            alive,
            len(self.sess.log()) if quiescent else None,
        )

    def rejected_call(self, fn, what):
        self.rejected += 1
        before = self.snapshot()
        _expect_state_error(self.o, self.AppStateError, fn, f"{what} in {self.state}")
        after = self.snapshot()
        self.o.check_eq(after, before, "rejected_call_has_no_side_effects", f"{what} in {self.state}")
        if self.state != "RUNNING":
            self.o.check_eq(
                _state_name(self.app.get_app_state()), self.state, "rejected_call_has_no_side_effects", f"state after rejected {what}"
            )

    def allowed(self, fn, what):
        try:
            return True, fn()
        except self.AppStateError as e:
            self.o.fail("call_allowed_by_life_cycle_succeeds", f"{what} in {self.state}: AppStateError {e}")
            return False, None

    def guarded(self, allowed_states, fn, what):
        """A state-guarded call; returns (called_ok, value)."""
        if self.state in allowed_states:
            return self.allowed(fn, what)
        self.rejected_call(fn, what)
        return False, None

    def bad_option(self):
        # An additional option with an embedded NUL cannot be handed to the OS: Popen raises ValueError,
        # a launch failure that is not an OSError.  (The option is a str, i.e. inside the documented domain
        # "list of str" of add_additional_options(); hand-written cases may still hold a non-string option.)
        return any(not isinstance(x, str) or "\0" in x for x in self.options)

    def undecided_call(self, fn, what, label):
        """A call whose admissibility in the current state is fixed neither by the property nor by a
        docstring: AppStateError and a value are both accepted (labelled), anything else is not, and
        the call must not have side effects either way.  Returns (returned_a_value, value)."""
        before = self.snapshot()
        try:
            val = fn()
            ok = True
            self.o.label(f"{label}=value")
        except self.AppStateError:
            val, ok = None, False
            self.o.label(f"{label}=state_error")
        self.o.check_eq(self.snapshot(), before, "rejected_call_has_no_side_effects", f"{what} in {self.state}")
        return ok, val

    def will_fail_launch(self):
        return self.bad_bin or self.exec_dir == self.sess.exec_dirs[2] or self.bad_option()

    # ---- ops
    def op_start(self):
        if self.state != "CREATED":
            self.rejected_call(self.app.start, "start")
            return
        if self.will_fail_launch():
            self.o.expect_raises(
                (OSError, ValueError, TypeError), self.app.start, "launch_failure_propagates", "start with a tool that cannot be launched"
            )
            self.state, self.path = "CANCELLED", "launch_failure"
            if self.bad_option():
                self.o.label("launch_failure_not_oserror")
            return
        ok, _ = self.allowed(self.app.start, "start")
        self.state = "RUNNING"
        self.child = "unknown" if self.released else "blocked"
        if ok:
            # the documented accessor first; the private attribute (recorded in run()) is only a fall-back
            proc = None
            try:
                proc = self.app.get_process()
            except Exception:  # noqa: BLE001 - judged by the "get" op, not here
                pass
            if isinstance(proc, subprocess.Popen):
                self.app.verif_proc = proc
            else:
                self.o.label("popen_from_private_attribute")
            self.o.check(isinstance(self.app.verif_proc, subprocess.Popen), "start_launches_child", "no Popen object after start()")

    def op_join(self, timeout):
        if self.state not in ("RUNNING", "FINISHED"):
            self.rejected_call(lambda: self.app.join(timeout), "join")
            return
        mode = self.tool["mode"]
        if self.child == "blocked":
            # the tool hangs: finite surrogate, see module docstring
            try:
                self.app.join(timeout=JOIN_TIMEOUT_HANG)
                self.o.fail("timeout_raises_timeout_error", "join(timeout=0.2) of a hanging tool returned")
            except self.AppTimeoutError:
                pass
            except TimeoutError as e:
                # the documented exception is biotite.application.TimeoutError, which is not a builtin TimeoutError
                self.o.fail(
                    "timeout_raises_timeout_error",
                    f"join(timeout=0.2) raised the builtin {type(e).__name__} instead of biotite.application.TimeoutError",
                )
            except self.AppStateError as e:
                self.o.fail("call_allowed_by_life_cycle_succeeds", f"join in {self.state}: {e}")
            self.state, self.path, self.child = "CANCELLED", "timeout", "dead"
            return
        # "ok" | "exit_error" (failing exit code) | "any_error" (unparsable / missing output)
        # | "either" (output that the wrapper is not bound to recognise as unparsable)
        expect = self.hooks["join_outcome"]()
        if self.state == "FINISHED":
            self.o.label("join_from_finished")
        try:
            self.app.join(timeout)
            if expect in ("exit_error", "any_error"):
                self.o.fail(
                    "failed_run_raises_on_join",
                    f"join returned although the tool behaved as {mode}/{self.tool.get('garbage')} (expected {expect})",
                )
            self.state, self.path = "JOINED", "joined"
            if expect == "either":
                # accepted; what the getters return is undefined, state and clean-up are still judged
                self.results_undefined = True
                self.path = "garbage_accepted"
                self.o.label("garbage_accepted")
        except self.AppStateError as e:
            self.o.fail("call_allowed_by_life_cycle_succeeds", f"join in {self.state}: {e}")
            self.state = "CANCELLED"
        except self.AppTimeoutError as e:
            self.o.fail("no_timeout_without_hang", f"join(timeout={timeout}) of a tool that exits at once: {e}")
            self.state = "CANCELLED"
        except Exception as e:  # noqa: BLE001 - no docstring names the type raised for a failed run
            self.state = "CANCELLED"
            if expect == "ok":
                if isinstance(e, subprocess.SubprocessError):
                    self.o.fail("successful_run_joins", f"join of a run that was meant to succeed raised {type(e).__name__}: {e}")
                    self.child = "dead"
                    return
                raise
            if expect == "exit_error":
                # "a failing exit code raises": neither the class nor the text of the error is documented
                self.path = "nonzero_exit"
                self.o.label(f"exit_exc={type(e).__name__}")
                self.o.label("exit_code_in_message" if str(self.tool["exit_code"]) in str(e) else "exit_code_not_in_message")
            else:
                self.path = self.hooks["failure_path"]()
                self.o.label(f"garbage_exc={type(e).__name__}")
        self.child = "dead"

    def op_cancel(self):
        if self.state not in ("RUNNING", "FINISHED"):
            self.rejected_call(self.app.cancel, "cancel")
            return
        if self.state == "FINISHED":
            self.o.label("cancel_from_finished")
        self.allowed(self.app.cancel, "cancel")
        self.state, self.path, self.child = "CANCELLED", "cancel", "dead"

    def op_state(self):
        got = _state_name(self.app.get_app_state())
        if self.state == "RUNNING":
            if self.child == "blocked":
                self.o.check_eq(got, "RUNNING", "state_query_follows_life_cycle", "tool is still running")
            elif self.child == "exited":
                self.o.check_eq(got, "FINISHED", "state_query_follows_life_cycle", "tool has exited")
                self.state = "FINISHED"
            else:
                self.o.check(got in ("RUNNING", "FINISHED"), "state_query_follows_life_cycle", f"got {got} while running")
                if got == "FINISHED":
                    self.state, self.child = "FINISHED", "exited"
        else:
            self.o.check_eq(got, self.state, "state_query_follows_life_cycle", "get_app_state")

    def op_release(self):
        if not self.released:
            self.sess.release()
            self.released = True
            if self.child == "blocked":
                self.child = "unknown"

    def op_wait_exit(self):
        proc = self.app.verif_proc
        if self.child == "unknown" and proc is not None:
            if not _wait_exited(proc.pid):
                # 120 s for a tool that only writes a few lines: the machine is stalled, nothing can be judged
                self.stalled = True
                return
            self.child = "exited"

    def op_finished_getter(self, name, want):
        """get_exit_code / get_stdout / get_stderr: PROTECTED getters whose docstrings name no state.
        They must work once the program is known to have finished (FINISHED, JOINED: evaluate() of every
        subclass relies on it) and cannot work before anything was started (CREATED) or while the program
        certainly still runs (gated tool).  Whether they may be read after a failed or cancelled run
        (CANCELLED, e.g. to diagnose it) is not documented: both outcomes are accepted there."""
        fn = getattr(self.app, name)
        if self.state in ("FINISHED", "JOINED"):
            ok, val = self.allowed(fn, name)
        elif self.state == "RUNNING" and self.child != "blocked":
            # The child may have exited already; whether FINISHED is entered without a
            # state query is not documented.  Accept both, check the value if any.
            self.lazy_undecided += 1
            try:
                val = fn()
                ok = True
            except self.AppStateError:
                return
        elif self.state == "CANCELLED":
            ok, val = self.undecided_call(fn, name, "protected_getter_after_cancel")
            if ok and self.path == "launch_failure":
                self.o.check(val is None or val == "", "results_equal_tool_output", f"{name} after a failed launch: {val!r:.100} (no program ran)")
            # the value is the program's output only if the program ran to its end
            if self.path not in ("nonzero_exit", "garbage", "missing_output"):
                return
        else:
            self.rejected_call(fn, name)
            return
        if ok and want is not None:
            self.o.check_eq(val, want(), "results_equal_tool_output", name)

    def run_ops(self):
        o = self.o
        for i, op in enumerate(self.case["ops"]):
            name = op[0]
            if name == "start":
                self.op_start()
            elif name == "join":
                self.op_join(op[1])
            elif name == "cancel":
                self.op_cancel()
            elif name == "state":
                self.op_state()
            elif name == "release":
                self.op_release()
            elif name == "wait_exit":
                self.op_wait_exit()
            elif name == "set_exec_dir":
                d = self.sess.exec_dirs[op[1]]
                ok, _ = self.guarded(("CREATED",), lambda: self.app.set_exec_dir(d), "set_exec_dir")
                if ok:
                    self.exec_dir = d
            elif name == "add_options":
                ok, _ = self.guarded(("CREATED",), lambda: self.app.add_additional_options(list(op[1])), "add_additional_options")
                if ok:
                    self.options += list(op[1])
            elif name == "set_stdin":
                f = open(self.sess.stdin_path)
                self.sess.stdin_files.append(f)
                ok, _ = self.guarded(("CREATED",), lambda: self.app.set_stdin(f), "set_stdin")
                if ok:
                    self.stdin_set = True
            elif name == "get":
                g = op[1]
                if g == "get_command" and any(not isinstance(x, str) for x in self.options):
                    # the command line cannot be rendered with a non-string option (hand-written cases only)
                    o.label("get_command_skipped_bad_option")
                elif g == "get_command" and self.path == "launch_failure":
                    # "Get the executed command.  Cannot be called until the application has been started":
                    # nothing was executed - a value and a state error are both reasonable
                    ok, val = self.undecided_call(self.app.get_command, g, "get_command_after_failed_launch")
                    if ok:
                        self.hooks["check_command"](val)
                elif g == "get_command":
                    ok, val = self.guarded(("RUNNING", "FINISHED", "JOINED", "CANCELLED"), self.app.get_command, g)
                    if ok:
                        self.hooks["check_command"](val)
                elif g == "get_process" and self.state in ("JOINED", "CANCELLED"):
                    # PROTECTED getter without a documented state: after the run has ended the (dead) Popen
                    # object may or may not be handed out (after a failed launch there is none)
                    ok, val = self.undecided_call(self.app.get_process, g, "protected_getter_after_end")
                    if ok and self.path == "launch_failure":
                        o.check(val is None, "no_child_left", f"get_process after a failed launch: {val!r}")
                    elif ok:
                        o.check(val is self.app.verif_proc and val is not None, "results_equal_tool_output", "get_process")
                elif g == "get_process":
                    ok, val = self.guarded(("RUNNING", "FINISHED"), self.app.get_process, g)
                    if ok:
                        o.check(val is self.app.verif_proc and val is not None, "results_equal_tool_output", "get_process")
                elif g == "get_exit_code":
                    self.op_finished_getter(g, self.hooks["want_exit_code"])
                elif g == "get_stdout":
                    self.op_finished_getter(g, self.hooks["want_stdout"])
                elif g == "get_stderr":
                    self.op_finished_getter(g, lambda: self.tool.get("stderr", ""))
                else:
                    self.hooks["getter"](self, g)
            else:
                self.hooks["op"](self, op)
            if self.stalled:
                break
            # ---- invariants after every step
            o.check_eq(os.getcwd(), self.sess.cwd0, "cwd_unchanged", f"after op {i} {name}")
            want_cleanups = 1 if self.state in TERMINAL else 0
            o.check_eq(
                self.app.verif_cleanups, want_cleanups, "clean_up_exactly_once", f"after op {i} {name} (model {self.state}, path {self.path})"
            )
            if self.state in TERMINAL:
                self.check_terminal(first=not self.terminal_checked, where=f"after op {i} {name}")
                self.terminal_checked = True
            if o.violations:
                break  # model and wrapper may have diverged

    # ---- terminal state
    def check_terminal(self, first, where):
        o = self.o
        o.check_eq(_state_name(self.app.get_app_state()), self.state, "state_query_follows_life_cycle", f"terminal state {where}")
        proc = self.app.verif_proc
        if self.path == "launch_failure":
            o.check(proc is None, "no_child_left", "a child exists after a failed launch")
            if first:
                o.check_eq(self.sess.log(), [], "no_child_left", "the tool ran although the launch failed")
        elif proc is not None:
            if first:
                dead = _wait_dead(proc.pid)
            else:
                dead = _is_dead(proc.pid)
            o.check(dead, "no_child_left", f"child {proc.pid} is in state {_proc_state(proc.pid)} {where} (path {self.path})")
        # the directory is judged when it is quiescent: after the child is gone
        o.check_eq(self.sess.tmp_listing(), [], "no_temp_file_left", f"{where} (path {self.path})")
        if first and self.path not in ("launch_failure",):
            self.check_tool_saw()
        if self.state == "JOINED" and first and not self.results_undefined:
            self.hooks["check_results"](self)

    def check_tool_saw(self):
        """What the tool logged about its invocation: exec dir and options."""
        recs = self.sess.log()
        starts = [r for r in recs if r.get("phase") == "start"]
        if self.path in ("timeout", "cancel") and not starts:
            return  # killed before it could log
        o = self.o
        if not o.check_eq(len(starts), 1, "tool_started_once", "number of tool invocations"):
            return
        s = starts[0]
        o.check_eq(s["cwd"], os.path.realpath(self.exec_dir), "tool_runs_in_exec_dir", "working directory seen by the tool")
        o.check_eq(s["argv"][: len(self.options)], self.options, "options_precede_arguments", f"argv {s['argv']}")
        proc = self.app.verif_proc
        if proc is not None:
            o.check_eq(s["pid"], proc.pid, "tool_started_once", "pid")
        if self.stdin_set and self.hooks.get("stdin_reaches_tool") and "stdin" in s:
            o.label("stdin_file_set")
            o.check_eq(s["stdin"], STDIN_TOKEN, "stdin_file_passed_to_tool", "what the tool read from standard input")
        self.hooks["check_argv"](self, s["argv"][len(self.options) :])
        if "check_input" in self.hooks and self.path not in ("timeout", "cancel"):
            self.hooks["check_input"]()

    def discard_if_stalled(self):
        """A tool that gave up waiting at its gate (or that did not exit within the bounded wait) means
        that the worker was stopped or starved for minutes: what was observed says nothing about biotite."""
        if self.stalled or any(r.get("phase") == "gate_timeout" for r in self.sess.log()):
            self.o.invalid = True
            del self.o.violations[:]
            self.o.label("discarded:machine_stalled")

    def labels(self):
        o = self.o
        self.discard_if_stalled()
        o.label(
            f"path={self.path}",
            f"end={self.state}",
            "rejected" if self.rejected else "no_rejected",
            f"mode={self.tool['mode']}",
            "gated" if self.tool.get("gate") else "ungated",
        )
        if self.lazy_undecided:
            o.label("lazy_finished_undecided")
        if self.exec_dir != self.sess.cwd0 and self.path not in (None,):
            o.label("exec_dir!=cwd")
        o.mark_nontrivial(self.path in ("timeout", "nonzero_exit", "garbage", "garbage_accepted", "missing_output", "launch_failure", "cancel"))


# --------------------------------------------------------------------------
# strategies shared by local_* and msa_*
# --------------------------------------------------------------------------
def st_ops(setters, getters, gated):
    """Histories of <= 8 calls.  Most have the shape
    (setters/getters) start (queries/harness ops) join|cancel (anything),
    the rest are arbitrary op lists."""
    setter = st.sampled_from(setters)
    getter = st.sampled_from(getters).map(lambda g: ["get", g])
    state_op = st.just(["state"])
    start = st.just(["start"])
    join = st.sampled_from([["join", None], ["join", JOIN_TIMEOUT_LONG]])
    wait = st.just(["wait_exit"])
    ctrl = st.sampled_from([["release"], ["wait_exit"]])
    any_op = st.one_of(start, start, join, st.just(["cancel"]), state_op, ctrl, setter, getter)

    @st.composite
    def gen(draw):
        if draw(st.sampled_from([False] * 6 + [True])):
            return draw(st.lists(any_op, max_size=8))
        # the exec dir differs from the cwd in most histories (k = 2 does not exist: launch failure)
        # ... and sometimes an option that cannot be passed on: a launch failure that is not an OSError
        pre = draw(
            st.sampled_from(
                [[["set_exec_dir", 0]]] * 3
                + [[["set_exec_dir", 1]]] * 3
                + [[["set_exec_dir", 2]]]
                + [[["add_options", ["--verif\u0000n"]]]]
                + [[]] * 4
            )
        )
        pre = pre + draw(st.lists(st.one_of(setter, setter, getter, state_op, st.just(["cancel"])), max_size=2 - len(pre)))
        release = gated and draw(st.booleans())
        if draw(st.sampled_from([False] * 5 + [True])):
            # the run is *observed* to be finished before it is joined / cancelled / read
            mid = [["wait_exit"], ["state"]] + draw(st.lists(st.one_of(getter, state_op), max_size=0 if release else 1))
            if release:
                mid.insert(0, ["release"])
        else:
            mid = draw(st.lists(st.one_of(getter, getter, state_op, wait, setter, start), max_size=2 if release else 3))
            if release:
                mid.insert(draw(st.integers(0, len(mid))), ["release"])
        end = draw(st.one_of(join, join, join, st.just(["cancel"])))
        post = draw(st.lists(any_op, max_size=1))
        return pre + [["start"]] + mid + [end] + post

    return gen()


COMMON_SETTERS = [
    ["set_exec_dir", 0],
    ["set_exec_dir", 0],
    ["set_exec_dir", 1],
    ["set_exec_dir", 1],
    ["set_exec_dir", 2],
    ["add_options", ["--verif-a"]],
    ["add_options", ["--verif-b", "--verif-c"]],
    # a string the OS cannot pass on: the launch fails with an error that is not an OSError
    ["add_options", ["--verif-n", "4\u0000x"]],
    ["add_options", ["--verif\u0000n"]],
    ["set_stdin"],
]
COMMON_GETTERS = ["get_command", "get_process", "get_exit_code", "get_stdout", "get_stderr"]

ST_STDERR = st.sampled_from(["", "warning: something\n", "two\nlines of stderr\n"])


# ==========================================================================
# 2. trivial LocalApp
# ==========================================================================
def st_local(tier):
    setters = COMMON_SETTERS + [["set_arguments", ["pos1", "--verif-x"]], ["set_arguments", []], ["set_stdin"], ["set_stdin"]]
    getters = COMMON_GETTERS + ["get_result", "get_result"]

    @st.composite
    def gen(draw):
        mode = draw(st.sampled_from(["ok", "ok", "ok", "exit", "exit", "garbage"]))
        tool = {"mode": mode, "gate": draw(st.sampled_from([False, False, False, True])), "stderr": draw(ST_STDERR)}
        if mode != "garbage":
            tool["payload"] = draw(st.integers(0, 1000))
        if mode == "exit":
            tool["exit_code"] = draw(st.sampled_from([1, 2, 3, 77, 255]))
        return {
            "bin": draw(st.sampled_from(["ok"] * 12 + ["missing", "noexec"])),
            "tool": tool,
            "ops": draw(st_ops(setters, getters, tool["gate"])),
        }

    return gen()


def run_local(case):
    o = Outcome()
    sess = Session()
    try:
        tool = case["tool"]
        if tool["mode"] == "garbage":
            stdout = "{this is not json"
        else:
            stdout = json.dumps({"payload": tool["payload"]})
        sess.write_ctl(
            {
                "mode": tool["mode"],
                "gate": tool["gate"],
                "stderr": tool["stderr"],
                "stdout": stdout,
                "exit_code": tool.get("exit_code", 0),
            }
        )
        cls = _counted(_echo_app_class())
        bin_path = sess.bin_path(case["bin"], "fake_generic")
        app = cls(bin_path)
        sess.app = app
        args = []

        def op(model, op):
            nonlocal args
            if op[0] == "set_arguments":
                ok, _ = model.guarded(("CREATED",), lambda: app.set_arguments(list(op[1])), "set_arguments")
                if ok:
                    args = list(op[1])
            else:
                raise RuntimeError(f"unknown op {op}")

        def getter(model, g):
            if g == "get_result":
                ok, val = model.guarded(("JOINED",), app.get_result, g)
                if ok:
                    o.check_eq(val, {"payload": tool["payload"]}, "results_equal_tool_output", "get_result")
            else:
                raise RuntimeError(f"unknown getter {g}")

        def check_command(val):
            o.check_eq(val, " ".join([bin_path] + model.options + args), "command_reports_invocation", "get_command")

        def check_results(model):
            ok, val = model.allowed(app.get_result, "get_result")
            if ok:
                o.check_eq(val, {"payload": tool["payload"]}, "results_equal_tool_output", "get_result after join")
            ok, val = model.allowed(app.get_stdout, "get_stdout")
            if ok:
                o.check_eq(val, stdout, "results_equal_tool_output", "get_stdout after join")
            ok, val = model.allowed(app.get_exit_code, "get_exit_code")
            if ok:
                o.check_eq(val, 0, "results_equal_tool_output", "get_exit_code after join")

        hooks = {
            "join_outcome": lambda: {"ok": "ok", "exit": "exit_error", "garbage": "any_error"}[tool["mode"]],
            "stdin_reaches_tool": True,
            "failure_path": lambda: "garbage",
            "want_exit_code": lambda: tool.get("exit_code", 0),
            "want_stdout": lambda: stdout,
            "check_command": check_command,
            "check_results": check_results,
            "check_argv": lambda model, argv: o.check_eq(argv, args, "arguments_passed_to_tool", "argv"),
            "op": op,
            "getter": getter,
        }
        model = LocalModel(o, sess, app, case, hooks)
        model.run_ops()
        model.labels()
        o.label(f"bin={case['bin']}")
    finally:
        problem = sess.close()
    if problem:
        raise RuntimeError(problem)
    return o


# ==========================================================================
# 3. MSA wrappers
# ==========================================================================
MSA_APPS = {
    "clustalo": {
        "tool": "fake_clustalo",
        "custom": False,
        "matrix": {"protein": False, "nucleotide": False},
        "setters": [["full_matrix"], ["set_guide_tree"], ["set_distance_matrix"]],
        "getters": ["get_guide_tree", "get_distance_matrix"],
    },
    "mafft": {
        "tool": "fake_mafft",
        "custom": True,
        "matrix": {"protein": True, "nucleotide": True},
        "setters": [],
        "getters": ["get_guide_tree"],
    },
    "muscle3": {
        "tool": "fake_muscle3",
        "custom": True,
        "matrix": {"protein": True, "nucleotide": False},
        "setters": [["set_gap_penalty", -3.0], ["set_gap_penalty", [-7, -1]]],
        "getters": ["get_guide_tree"],
    },
    "muscle5": {
        "tool": "fake_muscle5",
        "custom": False,
        "matrix": {"protein": False, "nucleotide": False},
        "setters": [["use_super5"], ["set_threads", 2], ["set_iterations", 1, 2]],
        "getters": [],
    },
}
# what the other major version of MUSCLE prints (only the wrappers of MUSCLE probe the version)
MSA_WRONG_VERSION = {"muscle3": "muscle 5.1.linux64 []\nBuilt Jan 13 2022 23:17:13\n", "muscle5": "MUSCLE v3.8.31 by Robert C. Edgar\n"}
MSA_GETTERS = ["get_alignment", "get_alignment", "get_alignment_order", "get_alignment_order"]
GARBAGE_KINDS = ["text", "drop_row", "ragged", "bad_header"]


def st_msa(tier):
    maxlen = 10 if tier == "quick" else 30

    @st.composite
    def gen(draw):
        seqtype = draw(st.sampled_from(["protein", "protein", "nucleotide", "nucleotide", "custom"]))
        if seqtype == "custom":
            # only MAFFT and MUSCLE 3 map custom alphabets; the others must reject them (rarely generated)
            app = draw(st.sampled_from(["mafft"] * 5 + ["muscle3"] * 5 + ["clustalo", "muscle5"]))
        else:
            app = draw(st.sampled_from(sorted(MSA_APPS)))
        spec = MSA_APPS[app]
        # mostly 2..6 sequences; sometimes 11..13 so that row labels reach two digits
        # (the wrappers name the rows "0", "1", ... "10", ...: order restoration must be numeric)
        n = draw(st.one_of(st.integers(2, 6), st.integers(2, 6), st.integers(2, 6), st.integers(11, 13)))
        case = {"app": app, "seqtype": seqtype}
        if seqtype == "protein":
            case["seqs"] = draw(st.lists(st.text(PROTEIN_LETTERS, min_size=1, max_size=maxlen), min_size=n, max_size=n))
        elif seqtype == "nucleotide":
            letters = draw(st.sampled_from(["ACGT", "ACGT", "ACGTNRY"]))
            case["seqs"] = draw(st.lists(st.text(letters, min_size=1, max_size=maxlen), min_size=n, max_size=n))
        else:
            k = draw(st.integers(2, 24))
            case["alphabet_size"] = k
            case["seqs"] = draw(
                st.lists(st.lists(st.integers(0, k - 1), min_size=1, max_size=maxlen), min_size=n, max_size=n)
            )
        if seqtype == "custom":
            case["matrix"] = draw(st.sampled_from([True] * 11 + [False]))  # custom alphabets need a matrix (TypeError otherwise)
        elif spec["matrix"][seqtype]:
            case["matrix"] = draw(st.booleans())
        else:
            case["matrix"] = False
        case["gap_raw"] = draw(st.lists(st.lists(st.integers(0, 40), min_size=1, max_size=4), min_size=n, max_size=n))
        case["extra_cols"] = draw(st.integers(0, 3))
        case["order"] = draw(st.one_of(st.just(list(range(n))), st.permutations(list(range(n)))))
        mode = draw(st.sampled_from(["ok", "ok", "ok", "ok", "exit", "exit", "garbage", "garbage", "missing"]))
        tool = {"mode": mode, "gate": draw(st.sampled_from([False, False, False, True])), "stderr": draw(ST_STDERR)}
        if mode == "exit":
            tool["exit_code"] = draw(st.sampled_from([1, 2, 3, 77, 255]))
            tool["write_before_exit"] = draw(st.booleans())
        elif mode == "garbage":
            tool["garbage"] = draw(st.sampled_from(GARBAGE_KINDS))
        elif mode == "missing":
            tool["unlink_out"] = draw(st.booleans())
        if tool["gate"]:
            # a tool that has read its input and written all its output and then hangs
            tool["early_output"] = draw(st.booleans())
        case["tool"] = tool
        case["bin"] = draw(st.sampled_from(["ok"] * 14 + ["missing", "noexec"]))
        if app in MSA_WRONG_VERSION and draw(st.sampled_from([False] * 15 + [True])):
            case["version"] = True
        case["ops"] = draw(
            st_ops(spec["setters"] * 3 + COMMON_SETTERS, MSA_GETTERS + spec["getters"] + COMMON_GETTERS, tool["gate"])
        )
        if spec["setters"] and draw(st.sampled_from([False] * 4 + [True])):
            # an option set again before the start replaces the earlier value (and whatever resource it held)
            again = draw(st.sampled_from(spec["setters"]))
            case["ops"] = [again, again] + case["ops"]
        return case

    return gen()


def _build_sequences(case):
    from biotite.sequence import Alphabet, GeneralSequence, NucleotideSequence, ProteinSequence
    from biotite.sequence.align import SubstitutionMatrix
    import numpy as np

    st_ = case["seqtype"]
    matrix = None
    if st_ == "protein":
        seqs = [ProteinSequence(s) for s in case["seqs"]]
        mapped = list(case["seqs"])
        if case["matrix"]:
            matrix = SubstitutionMatrix.std_protein_matrix()
    elif st_ == "nucleotide":
        amb = any(c not in "ACGT" for s in case["seqs"] for c in s)
        # all sequences must share one alphabet
        seqs = [NucleotideSequence(s, ambiguous=amb) for s in case["seqs"]]
        mapped = list(case["seqs"])
        if case["matrix"]:
            matrix = SubstitutionMatrix.std_nucleotide_matrix()
    else:
        k = case["alphabet_size"]
        symbols = [f"sym{i}" for i in range(k)]
        alph = Alphabet(symbols)
        seqs = [GeneralSequence(alph, [symbols[c] for c in codes]) for codes in case["seqs"]]
        prot = ProteinSequence.alphabet.get_symbols()
        mapped = ["".join(prot[c] for c in codes) for codes in case["seqs"]]
        if case["matrix"]:
            score = np.full((k, k), -2, dtype=np.int32)
            score[np.arange(k), np.arange(k)] = 5
            matrix = SubstitutionMatrix(alph, alph, score)
    return seqs, mapped, matrix


def _patterns(lengths, gap_raw, extra):
    width = max(lengths) + extra
    pats = []
    for n, raws in zip(lengths, gap_raw):
        row = ["x"] * n
        j = 0
        while len(row) < width:
            row.insert(raws[j % len(raws)] % (len(row) + 1), "-")
            j += 1
        pats.append("".join(row))
    return pats


def _expected_trace(pats):
    width = len(pats[0])
    trace = [[-1] * len(pats) for _ in range(width)]
    for i, pat in enumerate(pats):
        pos = 0
        for c, ch in enumerate(pat):
            if ch == "x":
                trace[c][i] = pos
                pos += 1
    return trace


def _msa_class(name):
    from biotite.application.clustalo import ClustalOmegaApp
    from biotite.application.mafft import MafftApp
    from biotite.application.muscle import Muscle5App, MuscleApp

    return {"clustalo": ClustalOmegaApp, "mafft": MafftApp, "muscle3": MuscleApp, "muscle5": Muscle5App}[name]


def run_msa(case):
    import numpy as np

    o = Outcome()
    sess = Session()
    try:
        spec = MSA_APPS[case["app"]]
        tool = case["tool"]
        seqs, mapped, matrix = _build_sequences(case)
        n = len(seqs)
        pats = _patterns([len(s) for s in seqs], case["gap_raw"], case["extra_cols"])
        order = list(case["order"])
        ctl = dict(tool)
        ctl["patterns"] = pats
        ctl["order"] = order
        if case.get("version"):
            ctl["version"] = MSA_WRONG_VERSION[case["app"]]
        sess.write_ctl(ctl)
        o.label(f"app={case['app']}", f"seqtype={case['seqtype']}", f"n={n}", f"bin={case['bin']}")
        if order != sorted(order):
            o.label("reordered")
        if case["matrix"]:
            o.label("matrix")

        cls = _counted(_msa_class(case["app"]))
        bin_path = sess.bin_path(case["bin"], spec["tool"])

        def construct():
            if case["app"] in ("clustalo", "muscle5"):
                # these take no custom matrix (ClustalOmegaApp ignores it, Muscle5App has no parameter)
                return cls(seqs, bin_path)
            return cls(seqs, bin_path, matrix)

        convenience = bool(case.get("convenience"))
        app = None
        # ---- constructions that fail
        if convenience:
            pass
        elif case["seqtype"] == "custom" and (not spec["custom"] or not case["matrix"]) and case["bin"] == "ok" and not case.get("version"):
            # the docstrings promise no particular type: TypeError today, ValueError would be as natural
            o.expect_raises((TypeError, ValueError), construct, "unsupported_sequence_type_rejected", "custom alphabet without mapping support")
            o.check_eq(sess.tmp_listing(), [], "no_temp_file_left", "after rejected construction")
            o.label("path=ctor_type_error")
            return o
        if convenience:
            pass
        elif case["seqtype"] == "custom" and (not spec["custom"] or not case["matrix"]):
            # which of the two problems (binary, sequence type) is reported first is nobody's business
            o.invalid = True
            return o
        if case.get("version") and not convenience:
            # The binary answers the version probe with another major version (MUSCLE 3 <-> 5).  Nothing
            # documents what the constructor does then (VersionError today): if it raises nothing may be
            # left behind, if it returns the run goes on as usual (the fake tool does not care).
            o.label("version_mismatch")
        if convenience:
            pass
        elif case["bin"] != "ok" or case.get("version"):
            app = _construct_or_launch_failure(o, sess, construct, "construction (version probe)")
            if app is None:
                o.label("path=ctor_launch_failure" if case["bin"] != "ok" else "path=ctor_version_error")
                return o
        else:
            app = construct()
        sess.app = app

        def op(model, op):
            s = model.settings
            name = op[0]
            if name == "full_matrix":
                ok, _ = model.guarded(("CREATED",), app.full_matrix_calculation, name)
                if ok:
                    s["full"] = True
            elif name in ("set_guide_tree", "set_distance_matrix"):
                from biotite.sequence.phylo import upgma

                nseq = len(seqs)
                dist = np.array([[abs(i - j) for j in range(nseq)] for i in range(nseq)], dtype=float)
                if name == "set_guide_tree":
                    tree = upgma(dist)
                    ok, _ = model.guarded(("CREATED",), lambda: app.set_guide_tree(tree), name)
                else:
                    ok, _ = model.guarded(("CREATED",), lambda: app.set_distance_matrix(dist), name)
                if ok:
                    s[name] = True
                    o.label("clustalo_" + name)
            elif name == "set_gap_penalty":
                pen = op[1] if not isinstance(op[1], list) else tuple(op[1])
                ok, _ = model.guarded(("CREATED",), lambda: app.set_gap_penalty(pen), name)
                if ok:
                    s["gap"] = (pen, pen) if not isinstance(pen, tuple) else pen
            elif name == "use_super5":
                ok, _ = model.guarded(("CREATED",), app.use_super5, name)
                if ok:
                    s["super5"] = True
            elif name == "set_threads":
                ok, _ = model.guarded(("CREATED",), lambda: app.set_thread_number(op[1]), name)
                if ok:
                    s["threads"] = op[1]
            elif name == "set_iterations":
                ok, _ = model.guarded(("CREATED",), lambda: app.set_iterations(op[1], op[2]), name)
                if ok:
                    s["iters"] = (op[1], op[2])
            else:
                raise RuntimeError(f"unknown op {op}")

        def check_alignment(ali, what):
            from biotite.sequence.align import Alignment

            if not o.check(isinstance(ali, Alignment), "results_equal_tool_output", f"{what}: {type(ali)}"):
                return
            o.check_array_eq(ali.trace, np.array(_expected_trace(pats)), "alignment_mapped_back_to_input_order", f"{what}: trace")
            o.check_eq(len(ali.sequences), n, "alignment_mapped_back_to_input_order", "number of sequences")
            for i, (got, want) in enumerate(zip(ali.sequences, seqs)):
                o.check(
                    type(got) is type(want) and got.get_alphabet() == want.get_alphabet() and np.array_equal(got.code, want.code),
                    "alignment_mapped_back_to_sequence_type",
                    lambda: f"{what}: sequence {i} is {got!r}, want {want!r}",
                )

        def check_order(arr, what):
            o.check_array_eq(np.asarray(arr), np.array(order), "order_equals_tool_order", what)

        def check_tree(tree, what):
            from biotite.sequence.phylo import Tree

            if o.check(isinstance(tree, Tree), "results_equal_tool_output", f"{what}: {type(tree)}"):
                o.check_eq(sorted(l.index for l in tree.leaves), list(range(n)), "results_equal_tool_output", f"{what}: leaves")

        def check_distmat(mat, what):
            want = np.abs(np.arange(n)[:, None] - np.arange(n)[None, :]) * 0.25
            o.check_array_eq(np.asarray(mat), want, "results_equal_tool_output", what)

        def getter(model, g):
            if g == "get_alignment":
                ok, val = model.guarded(("JOINED",), app.get_alignment, g)
                if ok:
                    check_alignment(val, g)
            elif g == "get_alignment_order":
                ok, val = model.guarded(("JOINED",), app.get_alignment_order, g)
                if ok:
                    check_order(val, g)
            elif g == "get_guide_tree":
                ok, val = model.guarded(("JOINED",), app.get_guide_tree, g)
                if ok:
                    check_tree(val, g)
            elif g == "get_distance_matrix":
                if model.state == "JOINED" and not model.settings.get("full"):
                    return  # ValueError by design of ClustalOmegaApp, not part of the property
                ok, val = model.guarded(("JOINED",), app.get_distance_matrix, g)
                if ok:
                    check_distmat(val, g)
            else:
                raise RuntimeError(f"unknown getter {g}")

        def check_results(model):
            ok, val = model.allowed(app.get_alignment, "get_alignment")
            if ok:
                check_alignment(val, "get_alignment after join")
            ok, val = model.allowed(app.get_alignment_order, "get_alignment_order")
            if ok:
                check_order(val, "get_alignment_order after join")
            if "get_guide_tree" in spec["getters"]:
                ok, val = model.allowed(app.get_guide_tree, "get_guide_tree")
                if ok:
                    check_tree(val, "get_guide_tree after join")
            if model.settings.get("full"):
                ok, val = model.allowed(app.get_distance_matrix, "get_distance_matrix")
                if ok:
                    check_distmat(val, "get_distance_matrix after join")

        def check_input():
            # what the tool read must be the input sequences (mapped for custom alphabets)
            inputs = [r for r in sess.log() if r.get("phase") == "input"]
            if o.check_eq(len(inputs), 1, "tool_started_once", "input records"):
                # the header names are a private convention between run() and evaluate(): order and content count
                o.check_eq([e[1] for e in inputs[0]["entries"]], list(mapped), "input_sequences_passed_to_tool", "sequences of the FASTA the tool read")
                o.check_eq(inputs[0]["matrix"] is not None, matrix is not None, "matrix_passed_to_tool", "matrix option")
                if inputs[0]["matrix"] is not None:
                    o.check(len(inputs[0]["matrix"].strip()) > 0, "matrix_passed_to_tool", "matrix file is empty")

        def check_argv(model, argv):
            s = model.settings
            a = case["app"]
            if a == "clustalo":
                o.check_eq("--full" in argv, bool(s.get("full")), "setter_effect_iff_accepted", f"--full in {argv}")
            elif a == "muscle3":
                if "gap" in s:
                    # the values count, not their formatting

                    def value_of(flag):
                        try:
                            return float(argv[argv.index(flag) + 1])
                        except (ValueError, IndexError):
                            return None

                    got = (value_of("-gapopen"), value_of("-gapextend"))
                    want = (float(s["gap"][0]), float(s["gap"][1]))
                    o.check(got == want, "setter_effect_iff_accepted", f"gap penalties {want} in {argv}")
                else:
                    o.check("-gapopen" not in argv, "setter_effect_iff_accepted", f"-gapopen in {argv}")
            elif a == "muscle5":
                o.check_eq("-super5" in argv, bool(s.get("super5")), "setter_effect_iff_accepted", f"-super5 in {argv}")
                o.check_eq("-threads" in argv, "threads" in s, "setter_effect_iff_accepted", f"-threads in {argv}")
                o.check_eq("-consiters" in argv, "iters" in s, "setter_effect_iff_accepted", f"-consiters in {argv}")

        if convenience:
            o.label("convenience")
            unsupported = case["seqtype"] == "custom" and (not spec["custom"] or not case["matrix"])
            launches = case["bin"] == "ok" and not unsupported

            def call():
                if case["app"] in ("clustalo", "muscle5"):
                    return cls.align(seqs, bin_path)
                return cls.align(seqs, bin_path, matrix)

            def check(val):
                check_alignment(val, "align()")
                if launches:
                    check_input()

            _run_convenience(o, sess, call, check, must_fail=not launches or tool["mode"] != "ok", may_fail=False, launches=launches)
            return o

        def join_outcome():
            m = tool["mode"]
            if m == "ok":
                return "ok"
            if m == "exit":
                return "exit_error"
            return "any_error"

        def want_stdout():
            return None

        def check_command(val):
            parts = val.split(" ")
            o.check_eq(parts[0], bin_path, "command_reports_invocation", "first word of get_command")
            o.check_eq(parts[1 : 1 + len(model.options)], model.options, "options_precede_arguments", f"get_command {val}")

        hooks = {
            "join_outcome": join_outcome,
            "stdin_reaches_tool": True,
            "failure_path": lambda: "missing_output" if tool["mode"] == "missing" else "garbage",
            "want_exit_code": lambda: tool.get("exit_code", 0) if tool["mode"] == "exit" else 0,
            "want_stdout": None,
            "check_command": check_command,
            "check_results": check_results,
            "check_argv": check_argv,
            "check_input": check_input,
            "op": op,
            "getter": getter,
        }
        model = LocalModel(o, sess, app, case, hooks)
        model.run_ops()
        model.labels()
        if tool["mode"] == "garbage" and model.path == "garbage":
            o.label(f"garbage={tool['garbage']}")
    finally:
        problem = sess.close()
    # exit code 93 = "the input file does not fit the planned alignment": a harness problem
    # unless the wrapper handed the wrong sequences to the tool (then it is the violation above)
    if problem and not any(c == "input_sequences_passed_to_tool" for c, _ in o.violations):
        raise RuntimeError(problem)
    return o


# ==========================================================================
# 4. the other LocalApp wrappers: tantan, RNAfold, RNAplot, RNAalifold, DSSP
# ==========================================================================
# Candidate findings (analysis and reproducers: notes/C20-wrappers.md).  While a candidate is listed
# here its input class is narrowed out of the cases inside run_tool() and counted with o.exclude();
# VERIF_C20_DRIVE_CANDIDATES=1 drives the classes instead (to reproduce the candidates).
# Both candidates found when this section was written were repaired in /repo (known_findings.json:
# C20-f "non-UTF-8 output", C20-g "RNAplot clean_up"); the narrowing stays in the code for a future
# open finding but the set is empty, so every class is driven.
OPEN_CANDIDATES = set()


def _candidate_open(fid):
    return fid in OPEN_CANDIDATES and not os.environ.get("VERIF_C20_DRIVE_CANDIDATES")


TOOL_APPS = {
    # non_ascii: TantanApp is not bound to reject it (any text is a sequence with nothing or something
    # masked); today it fails incidentally in str.encode("ASCII") - both outcomes are accepted
    "tantan": {"tool": "fake_tantan", "getters": ["get_mask"], "garbage": ["non_ascii"], "garbage_either": ["non_ascii"], "missing": False},
    "rnafold": {
        "tool": "fake_rnafold",
        "result_on_stdout": True,
        "getters": ["get_free_energy", "get_dot_bracket", "get_base_pairs"],
        "garbage": ["text", "bad_energy", "no_energy"],
        "missing": True,
    },
    "rnaplot": {"tool": "fake_rnaplot", "getters": ["get_coordinates"], "garbage": ["text", "ragged", "binary_file"], "missing": True},
    "rnaalifold": {
        "tool": "fake_rnaalifold",
        "result_on_stdout": True,
        "getters": [
            "get_free_energy",
            "get_covariance_energy",
            "get_consensus_sequence_string",
            "get_dot_bracket",
            "get_base_pairs",
            "get_base_pairs:0",
            "get_base_pairs:1",
            "get_base_pairs:3",
        ],
        "garbage": ["text", "bad_energy", "no_energy"],
        "missing": True,
    },
    "dssp": {"tool": "fake_dssp", "getters": ["get_sse"], "garbage": ["text", "no_header", "short_lines", "binary_file"], "missing": True},
}
TOOL_VALUE_OPTS = {
    "tantan": {"-m", "-x"},
    "rnafold": {"-T"},
    "rnaplot": {"-i", "--output-format", "-t"},
    "rnaalifold": {"-T"},
    "dssp": {"-i", "-o", "--output-format"},
}
RES_NAMES = ["ALA", "GLY", "SER", "TRP", "LYS", "GLU", "PRO", "HIS"]
SSE_LETTERS = "HBEGITSP "
DSSP_VERSIONS = {"4.4": "mkdssp version 4.4.0\n", "4.0": "mkdssp 4.0\n", "3.1": "mkdssp version 3.1.4\n", "none": "mkdssp: no version information\n"}


def st_tool(tier):
    quick = tier == "quick"
    maxlen = 12 if quick else 40
    raw = st.integers(0, 60)
    raw_pairs = st.lists(st.lists(raw, min_size=2, max_size=2), max_size=4 if quick else 10)
    temperature = st.sampled_from([None, None, 25, 37, 60, 4])
    energy = st.integers(-9999, 999)

    constraint = st.fixed_dictionaries(
        {
            "pairs": raw_pairs,
            "marks": st.lists(st.tuples(raw, st.sampled_from("|x<>")).map(list), max_size=4),
            "enforce": st.booleans(),
            "as_mask": st.booleans(),
            "flip": st.booleans(),
        }
    )
    fold_setters = st.one_of(
        st.sampled_from([25, 30, 42]).map(lambda t: ["set_temperature", t]),
        constraint.map(lambda c: ["set_constraints", c]),
        constraint.map(lambda c: ["set_constraints", c]),
    )

    @st.composite
    def gen(draw):
        app = draw(st.sampled_from(sorted(TOOL_APPS)))
        spec = TOOL_APPS[app]
        case = {"app": app}
        setters = []
        if app == "tantan":
            seqtype = draw(st.sampled_from(["protein", "nucleotide"]))
            as_list = draw(st.booleans())
            nseq = draw(st.integers(1, 4)) if as_list else 1
            letters = PROTEIN_LETTERS if seqtype == "protein" else draw(st.sampled_from(["ACGT", "ACGT", "ACGTNRY"]))
            case["input"] = {
                "seqtype": seqtype,
                "as_list": as_list,
                "seqs": draw(st.lists(st.text(letters, min_size=1, max_size=maxlen * 8 if draw(st.integers(0, 9)) == 0 else maxlen), min_size=nseq, max_size=nseq)),
                "matrix": draw(st.booleans()),
            }
            case["plan"] = {
                "masks": draw(st.lists(st.lists(st.lists(raw, min_size=2, max_size=2), max_size=3), min_size=nseq, max_size=nseq)),
                "wrap": draw(st.sampled_from([0, 3, 7, 60])),
            }
        elif app == "rnafold":
            letters = draw(st.sampled_from(["ACGT", "ACGT", "ACGTN"]))
            case["input"] = {"seq": draw(st.text(letters, min_size=1, max_size=maxlen)), "temperature": draw(temperature)}
            case["plan"] = {"pairs": draw(raw_pairs), "energy": draw(energy)}
            setters = draw(st.lists(fold_setters, min_size=3, max_size=3))
        elif app == "rnaplot":
            case["input"] = {
                "by": draw(st.sampled_from(["dot_bracket", "base_pairs"])),
                "n": draw(st.integers(2, maxlen)),
                "pairs": draw(raw_pairs),
                "flip": draw(st.booleans()),
                "layout": draw(st.sampled_from([None, None, 0, 1, 2, 3, 4])),
            }
            case["plan"] = {"coord_seed": draw(st.integers(0, 2**31))}
            setters = [["set_layout_type", k] for k in draw(st.lists(st.integers(0, 4), min_size=2, max_size=2))]
        elif app == "rnaalifold":
            nseq = draw(st.integers(2, 5))
            case["input"] = {
                "seqs": draw(st.lists(st.text("ACGT", min_size=1, max_size=maxlen), min_size=nseq, max_size=nseq)),
                "gap_raw": draw(st.lists(st.lists(st.integers(0, 40), min_size=1, max_size=4), min_size=nseq, max_size=nseq)),
                "extra_cols": draw(st.integers(0, 3)),
                "temperature": draw(temperature),
            }
            case["plan"] = {"pairs": draw(raw_pairs), "free": draw(energy), "cov": draw(energy), "consensus_seed": draw(st.integers(0, 2**31))}
            setters = draw(st.lists(fold_setters, min_size=3, max_size=3))
        else:
            nres = draw(st.integers(1, maxlen))
            case["input"] = {
                # per residue: starts a new chain?, step of the residue number, residue name
                "residues": draw(
                    st.lists(
                        st.tuples(st.sampled_from([False] * 5 + [True]), st.sampled_from([1, 1, 1, 2, 5]), st.integers(0, len(RES_NAMES) - 1)).map(list),
                        min_size=nres,
                        max_size=nres,
                    )
                ),
                "natoms": draw(st.integers(1, 4)),
                "annotated": draw(st.booleans()),
                "coord_seed": draw(st.integers(0, 2**31)),
            }
            case["plan"] = {"sse": draw(st.text(SSE_LETTERS, min_size=nres, max_size=nres))}
            case["version"] = draw(st.sampled_from(["4.4", "4.4", "4.0", "3.1", "none"]))
        modes = ["ok"] * 4 + ["exit"] * 2 + ["garbage"] * 2 + (["missing"] if spec["missing"] else [])
        mode = draw(st.sampled_from(modes))
        tool = {
            "mode": mode,
            "gate": draw(st.sampled_from([False, False, False, True])),
            "stderr": draw(ST_STDERR),
            "early_output": draw(st.booleans()),
        }
        if mode == "exit":
            tool["exit_code"] = draw(st.sampled_from([1, 2, 3, 77, 255]))
            tool["write_before_exit"] = draw(st.booleans())
        elif mode == "garbage":
            # "binary" = stdout is not UTF-8; only where stdout is the result and one line of it can never be
            # parsed, so that the join must fail however the bytes are decoded (class of C20-F1-candidate)
            tool["garbage"] = draw(st.sampled_from(spec["garbage"] * 3 + (["binary"] * 2 if spec.get("result_on_stdout") else [])))
        elif mode == "missing":
            tool["unlink_out"] = draw(st.booleans())
        case["tool"] = tool
        case["bin"] = draw(st.sampled_from(["ok"] * 14 + ["missing", "noexec"]))
        common = COMMON_SETTERS
        if app == "rnaplot":
            # RNAplot writes ./rna.ss and the wrapper reads ./rna.ss: only meaningful with exec dir = cwd
            common = [op for op in COMMON_SETTERS if not (op[0] == "set_exec_dir" and op[1] in (0, 1))]
        ops = draw(st_ops(setters * 3 + common, spec["getters"] * 2 + COMMON_GETTERS, tool["gate"]))
        if setters and draw(st.sampled_from([False] * 4 + [True])):
            # an option set again before the start replaces the earlier value
            ops = [draw(st.sampled_from(setters)), draw(st.sampled_from(setters))] + ops
        if app == "rnaplot":
            ops = [op for op in ops if not (op[0] == "set_exec_dir" and op[1] in (0, 1))]
        case["ops"] = ops
        return case

    return gen()


def _structure(n, raw_pairs):
    """A nested (pseudoknot free) structure of length n from raw index pairs: (dot-bracket, pairs)."""
    partner = [-1] * n
    pairs = []
    for a, b in raw_pairs:
        if n < 2:
            break
        i, j = sorted((a % n, b % n))
        if i == j or partner[i] != -1 or partner[j] != -1:
            continue
        if any((p < i < q < j) or (i < p < j < q) for p, q in pairs):
            continue
        partner[i], partner[j] = j, i
        pairs.append((i, j))
    db = "".join("." if partner[k] == -1 else ("(" if partner[k] > k else ")") for k in range(n))
    return db, sorted(pairs)


def _pairs_of(dotbracket):
    """Base pairs of a '(' ')' '.' string by a stack; None if it is not balanced."""
    stack, pairs = [], []
    for i, c in enumerate(dotbracket):
        if c == "(":
            stack.append(i)
        elif c == ")":
            if not stack:
                return None
            pairs.append((stack.pop(), i))
        elif c != ".":
            return None
    return None if stack else sorted(pairs)


def _constraint(n, spec):
    """(constraint string the tool must receive, keyword arguments for set_constraints)."""
    import numpy as np

    db, pairs = _structure(n, spec["pairs"])
    chars = list(db)
    for pos, role in spec["marks"]:
        if chars[pos % n] == ".":
            chars[pos % n] = role
    if all(c == "." for c in chars):
        chars[0] = "x"
    kwargs = {}
    if pairs:
        arr = np.array(pairs, dtype=int)
        if spec["flip"]:
            arr[::2] = arr[::2, ::-1]  # the order within a pair must not matter
        kwargs["pairs"] = arr
    for key, role in (("paired", "|"), ("unpaired", "x"), ("downstream", "<"), ("upstream", ">")):
        mask = np.array([c == role for c in chars])
        if mask.any():
            kwargs[key] = mask if spec["as_mask"] else np.where(mask)[0]
    kwargs["enforce"] = bool(spec["enforce"])
    return "".join(chars), kwargs


def _pair_set(val):
    import numpy as np

    arr = np.asarray(val)
    if arr.size == 0:
        return []
    return sorted(tuple(sorted(int(x) for x in row)) for row in arr.reshape(-1, 2))


def _parse_matrix_text(text):
    """(column symbols, integer table) of a substitution matrix in the NCBI text format; None if it is none."""
    lines = [ln.split() for ln in text.split("\n") if ln.strip() and not ln.lstrip().startswith("#")]
    if not lines:
        return None
    symbols = lines[0]
    rows = lines[1:]
    try:
        if [r[0] for r in rows] != symbols or any(len(r) != len(symbols) + 1 for r in rows):
            return None
        return symbols, [[int(v) for v in r[1:]] for r in rows]
    except (ValueError, IndexError):
        return None


def _split_argv(app, argv):
    opts, flags, positional = {}, [], []
    takes = TOOL_VALUE_OPTS[app]
    i = 0
    while i < len(argv):
        a = argv[i]
        if a in takes and i + 1 < len(argv):
            opts[a] = argv[i + 1]
            i += 2
        elif a.startswith("-") and len(a) > 1:
            flags.append(a)
            i += 1
        else:
            positional.append(a)
            i += 1
    return opts, flags, positional


class ToolModel(LocalModel):
    """LocalModel + the working directory of the case is looked at, too."""

    def op_start(self):
        super().op_start()
        if self.state == "RUNNING" and self.app.verif_proc is not None and "after_start" in self.hooks:
            self.hooks["after_start"]()

    def check_terminal(self, first, where):
        super().check_terminal(first, where)
        self.o.check_eq(sorted(os.listdir(self.sess.cwd0)), [], "no_temp_file_left", f"working directory {where} (path {self.path})")


# ---- one driver per wrapper: everything that depends on the wrapper's own API -------------
class _Driver:
    """settings = what the accepted setter calls have set (the model of the options)."""

    def __init__(self, case, o, sess):
        self.case, self.o, self.sess = case, o, sess
        self.inp, self.tool = case["input"], case["tool"]
        self.app = None

    plan = None
    setter_names = ()

    def construct(self, cls, bin_path):
        raise NotImplementedError

    def op(self, model, op):
        raise RuntimeError(f"unknown op {op}")

    def getter(self, model, g):
        ok, val = model.guarded(("JOINED",), getattr(self.app, g), g)
        if ok and not model.results_undefined:
            self.check_value(model, g, val)

    def check_results(self, model):
        for g in dict.fromkeys(TOOL_APPS[self.case["app"]]["getters"]):
            self.getter(model, g)

    def convenience(self, cls, bin_path):
        """Calls the one-call entry point; returns {getter name: the value it stands for}."""
        raise NotImplementedError

    def input_record(self):
        inputs = [r for r in self.sess.log() if r.get("phase") == "input"]
        if self.o.check_eq(len(inputs), 1, "tool_started_once", "input records"):
            return inputs[0]
        return None


class _Tantan(_Driver):
    def __init__(self, case, o, sess):
        super().__init__(case, o, sess)
        import numpy as np

        masks, plan = [], []
        for seq, raws in zip(self.inp["seqs"], case["plan"]["masks"]):
            n = len(seq)
            mask = np.zeros(n, dtype=bool)
            intervals = []
            for a, b in raws:
                start = a % (n + 1)
                stop = min(n, start + b % (n + 1))
                intervals.append([start, stop])
                mask[start:stop] = True
            masks.append(mask)
            plan.append(intervals)
        self.masks = masks
        self.plan = {"masks": plan, "wrap": case["plan"]["wrap"]}
        o.label("tantan:" + self.inp["seqtype"], "tantan:list" if self.inp["as_list"] else "tantan:single")
        if any(m.any() for m in masks):
            o.label("tantan:masked")

    def construct(self, cls, bin_path):
        from biotite.sequence import NucleotideSequence, ProteinSequence
        from biotite.sequence.align import SubstitutionMatrix

        if self.inp["seqtype"] == "protein":
            seqs = [ProteinSequence(s) for s in self.inp["seqs"]]
            matrix = SubstitutionMatrix.std_protein_matrix()
        else:
            amb = any(c not in "ACGT" for s in self.inp["seqs"] for c in s)
            seqs = [NucleotideSequence(s, ambiguous=amb) for s in self.inp["seqs"]]
            matrix = SubstitutionMatrix.std_nucleotide_matrix()
        self.matrix = matrix if self.inp["matrix"] else None
        self.sequence_arg = seqs if self.inp["as_list"] else seqs[0]
        if cls is None:
            return None
        self.app = cls(self.sequence_arg, self.matrix, bin_path)
        return self.app

    def convenience(self, cls, bin_path):
        self.construct(None, None)
        return {"get_mask": cls.mask_repeats(self.sequence_arg, self.matrix, bin_path)}

    def check_value(self, model, g, val):
        import numpy as np

        o = self.o
        if self.inp["as_list"]:
            if not o.check(isinstance(val, list) and len(val) == len(self.masks), "results_equal_tool_output", f"get_mask: {val!r:.200}"):
                return
        else:
            val = [val]
        for i, (got, want) in enumerate(zip(val, self.masks)):
            if o.check(isinstance(got, np.ndarray) and got.dtype == bool, "results_equal_tool_output", f"mask {i}: {got!r:.100}"):
                o.check_array_eq(got, want, "mask_equals_tool_output", f"mask of sequence {i}")

    def check_argv(self, model, argv):
        o = self.o
        opts, flags, positional = _split_argv("tantan", argv)
        # which masking letter is used is private to the wrapper (the fake tool masks with the letter it
        # is given; without -x it lower-cases like the real one): the masks are compared anyway
        o.check_eq("-p" in flags, self.inp["seqtype"] == "protein", "options_passed_to_tool", f"-p in {argv}")
        o.check_eq("-m" in opts, self.matrix is not None, "matrix_passed_to_tool", f"-m in {argv}")
        o.check_eq(len(positional), 1, "options_passed_to_tool", f"one input file in {argv}")

    def check_input(self):
        rec = self.input_record()
        if rec is None:
            return
        self.o.check_eq([e[1] for e in rec["entries"]], list(self.inp["seqs"]), "input_sequences_passed_to_tool", "sequences of the FASTA the tool read")
        if self.matrix is None or rec["matrix"] is None:
            self.o.check_eq(rec["matrix"] is None, self.matrix is None, "matrix_passed_to_tool", "matrix file")
        else:
            # symbols and scores count, not the white space
            want = ([str(x) for x in self.matrix.get_alphabet1().get_symbols()], [[int(v) for v in row] for row in self.matrix.score_matrix()])
            self.o.check_eq(_parse_matrix_text(rec["matrix"]), want, "matrix_passed_to_tool", "matrix file (parsed)")


class _Fold(_Driver):
    """RNAfoldApp and RNAalifoldApp: temperature and constraints."""

    def length(self):
        raise NotImplementedError

    def op(self, model, op):
        s = model.settings
        if op[0] == "set_temperature":
            ok, _ = model.guarded(("CREATED",), lambda: self.app.set_temperature(op[1]), op[0])
            if ok:
                s["T"] = op[1]
        elif op[0] == "set_constraints":
            text, kwargs = _constraint(self.length(), op[1])
            ok, _ = model.guarded(("CREATED",), lambda: self.app.set_constraints(**kwargs), op[0])
            if ok:
                s["constraint"] = text
                s["enforce"] = kwargs["enforce"]
                self.o.label(self.case["app"] + ":constraints")
        else:
            raise RuntimeError(f"unknown op {op}")

    def check_argv(self, model, argv):
        o = self.o
        s = model.settings
        opts, flags, positional = _split_argv(self.case["app"], argv)
        temp = s.get("T", self.inp["temperature"] if self.inp["temperature"] is not None else 37)
        try:
            got_temp = float(opts.get("-T"))
        except (TypeError, ValueError):
            got_temp = None
        o.check_eq(got_temp, float(temp), "options_passed_to_tool", f"temperature (as a number) in {argv}")
        o.check_eq("-C" in flags, "constraint" in s, "options_passed_to_tool", f"-C in {argv}")
        o.check_eq("--enforceConstraint" in flags, bool(s.get("enforce")), "options_passed_to_tool", f"--enforceConstraint in {argv}")
        o.check_eq(len(positional), 1, "options_passed_to_tool", f"one input file in {argv}")

    def ctor_kwargs(self):
        return {} if self.inp["temperature"] is None else {"temperature": self.inp["temperature"]}


class _RNAfold(_Fold):
    def __init__(self, case, o, sess):
        super().__init__(case, o, sess)
        n = len(self.inp["seq"])
        self.db, self.pairs = _structure(n, case["plan"]["pairs"])
        self.energy = float(f"{case['plan']['energy'] / 100:.2f}")
        self.plan = {"dotbracket": self.db, "energy": self.energy}
        if self.pairs:
            o.label("rnafold:paired")

    def length(self):
        return len(self.inp["seq"])

    def construct(self, cls, bin_path):
        from biotite.sequence import NucleotideSequence

        seq = NucleotideSequence(self.inp["seq"], ambiguous=any(c not in "ACGT" for c in self.inp["seq"]))
        self.sequence_arg = seq
        if cls is None:
            return None
        self.app = cls(seq, bin_path=bin_path, **self.ctor_kwargs())
        return self.app

    def convenience(self, cls, bin_path):
        self.construct(None, None)
        self.inp = dict(self.inp, temperature=None)  # the entry point takes no temperature
        db, energy = cls.compute_secondary_structure(self.sequence_arg, bin_path=bin_path)
        return {"get_dot_bracket": db, "get_free_energy": energy}

    def check_value(self, model, g, val):
        o = self.o
        if g == "get_free_energy":
            o.check(isinstance(val, float) and val == self.energy, "energy_equals_tool_output", f"{g}: {val!r}, tool printed {self.energy}")
        elif g == "get_dot_bracket":
            o.check_eq(val, self.db, "structure_equals_tool_output", g)
        else:
            o.check_eq(_pair_set(val), self.pairs, "base_pairs_equal_tool_structure", f"{g} for {self.db}")

    def check_input(self):
        rec = self.input_record()
        if rec is None:
            return
        s = self.model.settings
        self.o.check_eq(rec["seq"], self.inp["seq"], "input_sequences_passed_to_tool", "sequence line the tool read")
        self.o.check_eq(rec["rest"], [s["constraint"]] if "constraint" in s else [], "constraints_passed_to_tool", "lines after the sequence")


class _RNAalifold(_Fold):
    def __init__(self, case, o, sess):
        super().__init__(case, o, sess)
        import numpy as np

        seqs = self.inp["seqs"]
        self.pats = _patterns([len(s) for s in seqs], self.inp["gap_raw"], self.inp["extra_cols"])
        self.width = len(self.pats[0])
        self.rows = []
        for s, pat in zip(seqs, self.pats):
            it = iter(s)
            self.rows.append("".join(next(it) if c == "x" else "-" for c in pat))
        self.db, self.pairs = _structure(self.width, case["plan"]["pairs"])
        self.free = float(f"{case['plan']['free'] / 100:.2f}")
        self.cov = float(f"{case['plan']['cov'] / 100:.2f}")
        rng = np.random.default_rng(case["plan"]["consensus_seed"])
        self.consensus = "".join("ACGU_"[k] for k in rng.integers(0, 5, size=self.width))
        self.plan = {"dotbracket": self.db, "free": self.free, "cov": self.cov, "consensus": self.consensus}
        if self.pairs:
            o.label("rnaalifold:paired")

    def length(self):
        return self.width

    def construct(self, cls, bin_path):
        import numpy as np
        from biotite.sequence import NucleotideSequence
        from biotite.sequence.align import Alignment

        seqs = [NucleotideSequence(s) for s in self.inp["seqs"]]
        self.trace = np.array(_expected_trace(self.pats), dtype=np.int64)
        self.alignment_arg = Alignment(seqs, self.trace, score=0)
        if cls is None:
            return None
        self.app = cls(self.alignment_arg, bin_path=bin_path, **self.ctor_kwargs())
        return self.app

    def convenience(self, cls, bin_path):
        self.construct(None, None)
        self.inp = dict(self.inp, temperature=None)  # the entry point takes no temperature
        db, free, cov = cls.compute_secondary_structure(self.alignment_arg, bin_path=bin_path)
        return {"get_dot_bracket": db, "get_free_energy": free, "get_covariance_energy": cov}

    def getter(self, model, g):
        if g.startswith("get_base_pairs:"):
            k = int(g.split(":")[1]) % len(self.inp["seqs"])
            ok, val = model.guarded(("JOINED",), lambda: self.app.get_base_pairs(sequence_index=k), g)
            if ok:
                pos = self.trace[:, k]
                want = sorted((int(pos[i]), int(pos[j])) for i, j in self.pairs if pos[i] != -1 and pos[j] != -1)
                self.o.check_eq(_pair_set(val), want, "base_pairs_mapped_to_sequence", f"get_base_pairs(sequence_index={k}) for {self.db} and row {self.rows[k]}")
                self.o.label("rnaalifold:pairs_of_sequence")
        else:
            super().getter(model, g)

    def check_value(self, model, g, val):
        o = self.o
        if g == "get_free_energy":
            o.check(isinstance(val, float) and val == self.free, "energy_equals_tool_output", f"{g}: {val!r}, tool printed {self.free}")
        elif g == "get_covariance_energy":
            o.check(isinstance(val, float) and val == self.cov, "energy_equals_tool_output", f"{g}: {val!r}, tool printed {self.cov}")
        elif g == "get_consensus_sequence_string":
            o.check_eq(val, self.consensus, "consensus_equals_tool_output", g)
        elif g == "get_dot_bracket":
            o.check_eq(val, self.db, "structure_equals_tool_output", g)
        else:
            o.check_eq(_pair_set(val), self.pairs, "base_pairs_equal_tool_structure", f"{g} for {self.db}")

    def check_input(self):
        rec = self.input_record()
        if rec is None:
            return
        s = self.model.settings
        self.o.check_eq([e[1] for e in rec["entries"]], list(self.rows), "input_sequences_passed_to_tool", "rows of the alignment the tool read")
        got = rec["constraint"]
        self.o.check_eq(
            None if got is None else got.rstrip("\n"), s.get("constraint"), "constraints_passed_to_tool", "constraint the tool read from stdin"
        )


class _RNAplot(_Driver):
    def __init__(self, case, o, sess):
        super().__init__(case, o, sess)
        import numpy as np

        self.n = self.inp["n"]
        self.db, self.pairs = _structure(self.n, self.inp["pairs"])
        rng = np.random.default_rng(case["plan"]["coord_seed"])
        self.coords = rng.integers(-20000, 20001, size=(self.n, 2))
        self.plan = {"coords": self.coords.tolist()}
        o.label("rnaplot:by_" + self.inp["by"])

    def construct(self, cls, bin_path):
        import numpy as np
        from biotite.application.viennarna import RNAplotApp

        kwargs = {"bin_path": bin_path}
        if self.inp["layout"] is not None:
            kwargs["layout_type"] = RNAplotApp.Layout(self.inp["layout"])
        if self.inp["by"] == "dot_bracket":
            kwargs["dot_bracket"] = self.db
        else:
            arr = np.array(self.pairs, dtype=int).reshape(-1, 2)
            if self.inp["flip"]:
                arr[::2] = arr[::2, ::-1]
            kwargs["base_pairs"] = arr
            kwargs["length"] = self.n
        self.kwargs = kwargs
        if cls is None:
            return None
        self.app = cls(**kwargs)
        return self.app

    def convenience(self, cls, bin_path):
        self.construct(None, bin_path)
        return {"get_coordinates": cls.compute_coordinates(**self.kwargs)}

    def op(self, model, op):
        from biotite.application.viennarna import RNAplotApp

        if op[0] == "set_layout_type":
            ok, _ = model.guarded(("CREATED",), lambda: self.app.set_layout_type(RNAplotApp.Layout(op[1])), op[0])
            if ok:
                model.settings["layout"] = op[1]
        else:
            raise RuntimeError(f"unknown op {op}")

    def check_value(self, model, g, val):
        import numpy as np

        if self.o.check(isinstance(val, np.ndarray), "results_equal_tool_output", f"{g}: {type(val)}"):
            # the tool prints two decimals; the dtype of the result is not documented
            want = self.coords / 100
            self.o.check(
                val.shape == want.shape and bool(np.allclose(np.asarray(val, dtype=float), want, rtol=0, atol=5e-3)),
                "coordinates_equal_tool_output",
                lambda: f"{g}: got {val.tolist()!r:.400}, want {want.tolist()!r:.400}",
            )

    def check_argv(self, model, argv):
        o = self.o
        opts, _, _ = _split_argv("rnaplot", argv)
        layout = model.settings.get("layout", self.inp["layout"] if self.inp["layout"] is not None else 1)
        o.check_eq(opts.get("-t"), str(layout), "options_passed_to_tool", f"layout type in {argv}")
        o.check_eq(opts.get("--output-format"), "xrna", "options_passed_to_tool", f"output format in {argv}")
        o.check("-i" in opts, "options_passed_to_tool", f"input file in {argv}")

    def check_input(self):
        rec = self.input_record()
        if rec is None:
            return
        lines = rec["lines"]
        if self.o.check(len(lines) == 2 and len(lines[0]) == self.n, "input_structure_passed_to_tool", f"input file lines {lines}"):
            if self.inp["by"] == "dot_bracket":
                self.o.check_eq(lines[1], self.db, "input_structure_passed_to_tool", "structure line the tool read")
            else:
                self.o.check(
                    len(lines[1]) == self.n and _pairs_of(lines[1]) == self.pairs,
                    "input_structure_passed_to_tool",
                    f"structure line {lines[1]} for pairs {self.pairs} and length {self.n}",
                )


class _Dssp(_Driver):
    def __init__(self, case, o, sess):
        super().__init__(case, o, sess)
        nres = len(self.inp["residues"])
        sse = (case["plan"]["sse"] + " " * nres)[:nres]
        self.plan = {"sse": sse}
        self.sse = ["C" if c == " " else c for c in sse]
        self.version = case.get("version", "4.4")
        o.label("dssp:version=" + self.version)

    def build(self):
        import numpy as np
        from biotite.structure import AtomArray

        names = ["N", "CA", "C", "O"][: self.inp["natoms"]]
        n = len(self.inp["residues"]) * len(names)
        arr = AtomArray(n)
        rng = np.random.default_rng(self.inp["coord_seed"])
        arr.coord = (rng.integers(-800, 801, size=(n, 3)) * 0.125).astype(np.float32)
        chain, rid, k = 0, 0, 0
        breaks = 0
        for idx, (new_chain, step, name) in enumerate(self.inp["residues"]):
            if new_chain and idx > 0 and chain < 5:
                chain, rid = chain + 1, 0
                breaks += 1
            elif idx > 0 and step > 1:
                breaks += 1
            rid += step
            for a in names:
                arr.chain_id[k] = "ABCDEF"[chain]
                arr.res_id[k] = rid
                arr.res_name[k] = RES_NAMES[name]
                arr.atom_name[k] = a
                arr.element[k] = a[0]
                k += 1
        if self.inp["annotated"]:
            arr.set_annotation("charge", np.zeros(n, dtype=int))
            arr.set_annotation("b_factor", np.full(n, 20.0))
            arr.set_annotation("occupancy", np.ones(n))
        if breaks:
            self.o.label("dssp:break_lines")
        return arr

    def construct(self, cls, bin_path):
        self.array = self.build()
        if cls is None:
            return None
        self.app = cls(self.array, bin_path)
        return self.app

    def convenience(self, cls, bin_path):
        self.construct(None, None)
        return {"get_sse": cls.annotate_sse(self.array, bin_path)}

    def check_value(self, model, g, val):
        import numpy as np

        o = self.o
        if o.check(isinstance(val, np.ndarray) and val.dtype.kind == "U", "results_equal_tool_output", f"{g}: {val!r:.100}"):
            o.check_eq(val.tolist(), self.sse, "sse_per_residue_equals_tool_output", g)

    def check_argv(self, model, argv):
        opts, _, positional = _split_argv("dssp", argv)
        if self.version.startswith("4"):
            self.o.check(
                len(positional) == 2 and "-i" not in opts and "-o" not in opts, "options_passed_to_tool", f"mkdssp >= 4 takes <in> <out>: {argv}"
            )
        else:
            self.o.check("-i" in opts and "-o" in opts and not positional, "options_passed_to_tool", f"mkdssp < 4 takes -i <in> -o <out>: {argv}")

    def check_input(self):
        rec = self.input_record()
        if rec is None:
            return
        o = self.o
        col = {c: k for k, c in enumerate(rec["columns"])}
        arr = self.array
        if not o.check_eq(len(rec["rows"]), arr.array_length(), "input_structure_passed_to_tool", "number of atoms the tool read"):
            return
        need = ["label_atom_id", "label_comp_id", "label_asym_id", "label_seq_id", "Cartn_x", "Cartn_y", "Cartn_z"]
        if not o.check(all(c in col for c in need), "input_structure_passed_to_tool", f"atom_site columns {rec['columns']}"):
            return
        got = [[r[col[c]] for c in need[:4]] + [float(r[col[c]]) for c in need[4:]] for r in rec["rows"]]
        want = [
            [str(arr.atom_name[i]), str(arr.res_name[i]), str(arr.chain_id[i]), str(int(arr.res_id[i]))] + [float(x) for x in arr.coord[i]]
            for i in range(arr.array_length())
        ]
        o.check_eq(got, want, "input_structure_passed_to_tool", "atoms the tool read")


_DRIVERS = {"tantan": _Tantan, "rnafold": _RNAfold, "rnaplot": _RNAplot, "rnaalifold": _RNAalifold, "dssp": _Dssp}


def _tool_class(name):
    from biotite.application.dssp import DsspApp
    from biotite.application.tantan import TantanApp
    from biotite.application.viennarna import RNAalifoldApp, RNAfoldApp, RNAplotApp

    return {"tantan": TantanApp, "rnafold": RNAfoldApp, "rnaplot": RNAplotApp, "rnaalifold": RNAalifoldApp, "dssp": DsspApp}[name]


def _narrow_tool(case, o):
    """The behaviour of the fake tool after the input classes of the open candidates are taken out."""
    app = case["app"]
    spec = TOOL_APPS[app]
    tool = dict(case["tool"])
    if tool["mode"] == "missing" and not spec["missing"]:
        tool["mode"] = "ok"  # an empty answer is a valid "nothing is masked" (only hand-written cases come here)
    if tool["mode"] == "garbage" and tool.get("garbage") == "binary":
        if not spec.get("result_on_stdout"):
            tool["garbage"] = spec["garbage"][0]  # only hand-written cases come here
        elif _candidate_open("C20-F1-candidate"):
            tool["garbage"] = spec["garbage"][0]
            o.exclude("C20-F1-candidate")
    if app == "rnaplot" and _candidate_open("C20-F2-candidate"):
        # rna.ss must exist whenever clean_up() runs after a launch: the tool writes it first, always
        narrowed = False
        if tool["mode"] == "missing":
            tool["mode"], tool["garbage"] = "garbage", "text"
            narrowed = True
        if tool["mode"] == "exit" and not tool.get("write_before_exit"):
            tool["write_before_exit"] = True
            narrowed = True
        if tool["gate"] and not tool.get("early_output"):
            tool["early_output"] = True
            narrowed = True
        if narrowed:
            o.exclude("C20-F2-candidate")
    return tool


def run_tool(case):
    o = Outcome()
    name = case["app"]
    spec = TOOL_APPS[name]
    old_cwd = os.getcwd()
    work = tempfile.mkdtemp(prefix="verif_c20w_")
    os.chdir(work)  # RNAplot writes into the working directory: every case gets its own
    sess = None
    problem = None
    try:
        sess = Session()
        tool = _narrow_tool(case, o)
        case = dict(case, tool=tool)
        if name == "rnaplot":
            case["ops"] = [op for op in case["ops"] if not (op[0] == "set_exec_dir" and op[1] in (0, 1))]
        drv = _DRIVERS[name](case, o, sess)
        ctl = dict(tool)
        ctl["plan"] = drv.plan
        if name == "dssp":
            ctl["version"] = DSSP_VERSIONS[drv.version]
        sess.write_ctl(ctl)
        o.label(f"app={name}", f"bin={case['bin']}")

        cls = _counted(_tool_class(name))
        bin_path = sess.bin_path(case["bin"], spec["tool"])
        if case.get("convenience"):
            o.label("convenience", f"{name}:convenience")
            launches = case["bin"] == "ok"
            either = tool["mode"] == "garbage" and tool.get("garbage") in spec.get("garbage_either", ())

            class _NoSettings:
                settings = {}
                options = []

            def check(values):
                for g, val in values.items():
                    drv.check_value(None, g, val)
                recs = sess.log()
                starts = [r for r in recs if r.get("phase") == "start"]
                if len(starts) == 1:
                    drv.model = _NoSettings
                    drv.check_argv(_NoSettings, starts[0]["argv"])
                    drv.check_input()

            _run_convenience(
                o,
                sess,
                lambda: drv.convenience(_tool_class(name), bin_path),
                check,
                must_fail=not launches or (tool["mode"] != "ok" and not either),
                may_fail=either,
                launches=launches,
                extra_dirs=(sess.cwd0,),
            )
            return o
        if name == "dssp" and case["bin"] != "ok":
            # DsspApp probes the version of the binary in its constructor
            app = _construct_or_launch_failure(o, sess, lambda: drv.construct(cls, bin_path), "construction (version probe)")
            if app is None:
                o.label("path=ctor_launch_failure", f"{name}:ctor_launch_failure")
                return o
        else:
            app = drv.construct(cls, bin_path)
        sess.app = app
        o.check_eq(sess.log(), [], "tool_started_once", "the tool ran before start()")

        def join_outcome():
            if tool["mode"] == "garbage" and tool.get("garbage") in spec.get("garbage_either", ()):
                return "either"
            return {"ok": "ok", "exit": "exit_error"}.get(tool["mode"], "any_error")

        def check_command(val):
            parts = val.split(" ")
            o.check_eq(parts[0], bin_path, "command_reports_invocation", "first word of get_command")
            o.check_eq(parts[1 : 1 + len(model.options)], model.options, "options_precede_arguments", f"get_command {val}")

        def wait_for_output():
            # harness synchronisation, no verdict: RNAplot's result file exists from here on
            t_end = time.monotonic() + 25.0
            while time.monotonic() < t_end:
                if any(r.get("phase") == "output" for r in sess.log()):
                    return
                if _is_dead(app.verif_proc.pid):
                    return
                time.sleep(0.003)
            raise RuntimeError("fake tool did not produce its output within the bounded wait")

        hooks = {
            "join_outcome": join_outcome,
            "failure_path": lambda: "missing_output" if tool["mode"] == "missing" else "garbage",
            "want_exit_code": lambda: tool.get("exit_code", 0) if tool["mode"] == "exit" else 0,
            "want_stdout": None,
            "check_command": check_command,
            "check_results": drv.check_results,
            "check_argv": drv.check_argv,
            "check_input": drv.check_input,
            "op": drv.op,
            "getter": drv.getter,
        }
        if name == "rnaplot" and _candidate_open("C20-F2-candidate"):
            hooks["after_start"] = wait_for_output
        model = ToolModel(o, sess, app, case, hooks)
        drv.model = model
        model.run_ops()
        model.labels()
        o.label(f"{name}:{model.path}")
        if tool["mode"] == "garbage" and model.path == "garbage":
            o.label(f"{name}:garbage={tool['garbage']}")
    finally:
        try:
            if sess is not None:
                problem = sess.close()
        finally:
            os.chdir(old_cwd)
            shutil.rmtree(work, ignore_errors=True)
    # exit code 93 = "the plan does not fit the input": a harness problem unless the wrapper handed
    # the wrong input to the tool (then it is the violation recorded above)
    if problem and not any(c.startswith("input_") or c == "constraints_passed_to_tool" for c, _ in o.violations):
        raise RuntimeError(problem)
    return o


def st_convenience(tier):
    """The inputs and tool behaviours of msa_lifecycle / tool_lifecycle, without a history: one call of the
    convenience entry point.  Never gated (the entry points take no timeout)."""

    def strip(case, family):
        case = dict(case)
        tool = dict(case["tool"], gate=False)
        tool.pop("early_output", None)
        case["tool"] = tool
        case["ops"] = []
        case["convenience"] = True
        case["family"] = family
        case.pop("version", None) if family == "msa" else None
        return case

    return st.one_of(st_msa(tier).map(lambda c: strip(c, "msa")), st_tool(tier).map(lambda c: strip(c, "tool")))


def run_convenience(case):
    return run_msa(case) if case["family"] == "msa" else run_tool(case)


# --------------------------------------------------------------------------
SUBS = [
    Sub(
        "base_lifecycle",
        st_base,
        run_base,
        quick=3000,
        thorough=100000,
        rule="terminal state reached through timeout, failing evaluate, failing run or cancel",
        clauses="Application.start/join/cancel/get_app_state and requires_state on an in-process app: "
        "allowed iff the life cycle allows it, rejected calls without side effects, clean_up exactly once",
    ),
    Sub(
        "local_lifecycle",
        st_local,
        run_local,
        quick=640,
        thorough=16000,
        rule="terminal state reached through non-zero exit, timeout, garbage, launch failure or cancel",
        clauses="LocalApp life cycle with a real child process: state errors, exec dir, options, stdout/stderr/exit code, "
        "cwd restored, child dead, clean_up exactly once",
    ),
    Sub(
        "msa_lifecycle",
        st_msa,
        run_msa,
        quick=960,
        thorough=24000,
        rule="terminal state reached through non-zero exit, timeout, garbage/missing output, launch failure or cancel",
        clauses="ClustalOmegaApp/MafftApp/MuscleApp/Muscle5App: life cycle, temp files removed, alignment and order "
        "equal the tool's output mapped back to input order and sequence type",
    ),
    Sub(
        "tool_lifecycle",
        st_tool,
        run_tool,
        quick=2400,
        thorough=48000,
        rule="terminal state reached through non-zero exit, timeout, garbage/missing output, launch failure or cancel",
        clauses="TantanApp/RNAfoldApp/RNAplotApp/RNAalifoldApp/DsspApp: life cycle, setters only before the start, temp files "
        "and working directory clean, getters equal the fake tool's output (mask, structure, base pairs, energies, "
        "coordinates, SSE per residue), the tool received the given input and options",
    ),
]

SUBS.append(
    Sub(
        "convenience_entry",
        st_convenience,
        run_convenience,
        quick=320,
        thorough=8000,
        rule="the run inside the convenience function fails (non-zero exit, garbage/missing output, launch failure)",
        clauses="MSAApp.align() (ClustalOmega, MAFFT, MUSCLE 3/5), TantanApp.mask_repeats(), RNAfoldApp/RNAalifoldApp."
        "compute_secondary_structure(), RNAplotApp.compute_coordinates(), DsspApp.annotate_sse(): result equals the "
        "tool's output or the failed run raises; no child, temp file or changed working directory is left",
    )
)

ENUMS = [
    Enum(
        "base_enum",
        enum_base,
        run_base,
        rule="all op sequences of length <= 4 over {start, join, cancel, state, get_result, set_param, finish} x 6 behaviours",
        clauses="same as base_lifecycle, exhaustively for short histories",
        exhaustive=True,
    )
]

FINDINGS = {}
