"""
C13  Slicing annotations and annotated sequences matches a per-base model.

Oracle: every location is the *set of positions* it covers.  Slicing keeps
(old set & slice); MISS_LEFT / MISS_RIGHT are set iff positions were removed on
that side; the other flags are preserved; features without surviving location
disappear.  Feature indexing is a concatenation of per-location subsequences in
biological order, written out here with plain Python strings.

Revised after the audit (notes/audit/C13.md, decisions in notes/audit/C13_applied.md):
inputs the property does not quantify over (reversed slices, a slice start one
past the last base, BETWEEN/UNK_LOC in an index feature, overlapping locations in
the "biological order" comparison) are not generated / not judged, and where the
documentation leaves the outcome open (mixed-strand index feature, reverse-strand
feature assignment, NumPy slice bounds rejected with a TypeError) every
legitimate outcome is accepted, labelled, and still checked against the model.
"""

from hypothesis import strategies as st

from vlib import Outcome, Sub

PROPERTY = "C13"
RULE = (
    "annotation/annotated-sequence cases; non-trivial = the slice cuts at least one location "
    "and (sequence start != 1 or a slice bound is omitted); for feature indexing: >= 2 locations; "
    "for reverse complement: >= 1 feature with a defect flag or >= 2 locations"
)

DEFECT_NAMES = ["MISS_LEFT", "MISS_RIGHT", "BEYOND_LEFT", "BEYOND_RIGHT", "UNK_LOC", "BETWEEN"]
# defects that do not change which bases a location covers (audit A7)
SIDE_DEFECT_NAMES = ["MISS_LEFT", "MISS_RIGHT", "BEYOND_LEFT", "BEYOND_RIGHT"]
COMPL = {"A": "T", "C": "G", "G": "C", "T": "A"}
SEQTYPES = ["nuc", "nuc", "nuc", "protein", "general"]


# --------------------------------------------------------------------------
# building biotite objects from plain data
# --------------------------------------------------------------------------
def _mk_defect(names):
    from biotite.sequence import Location

    d = Location.Defect.NONE
    for n in names:
        d |= Location.Defect[n]
    return d


def _mk_loc(l):
    from biotite.sequence import Location

    strand = Location.Strand.FORWARD if l["strand"] == "+" else Location.Strand.REVERSE
    return Location(l["first"], l["last"], strand, _mk_defect(l["defect"]))


def _mk_feature(f):
    from biotite.sequence import Feature

    return Feature(f["key"], [_mk_loc(l) for l in f["locs"]], dict(f["qual"]))


def _mk_annotation(features):
    from biotite.sequence import Annotation

    return Annotation([_mk_feature(f) for f in features])


def _mk_sequence(text, seqtype="nuc"):
    """The letters A, C, G, T are symbols of all three alphabets."""
    from biotite.sequence import Alphabet, GeneralSequence, NucleotideSequence, ProteinSequence

    if seqtype == "protein":
        return ProteinSequence(text)
    if seqtype == "general":
        return GeneralSequence(Alphabet(["A", "C", "G", "T"]), text)
    return NucleotideSequence(text)


def _seq_str(sequence):
    return "".join(str(s) for s in sequence.symbols)


def _loc_tuple(loc):
    from biotite.sequence import Location

    names = frozenset(n for n in DEFECT_NAMES if loc.defect & Location.Defect[n])
    return (loc.first, loc.last, "+" if loc.strand == Location.Strand.FORWARD else "-", names)


def _feature_tuple(feat):
    return (
        feat.key,
        frozenset(_loc_tuple(l) for l in feat.locs),
        frozenset(feat.qual.items()),
    )


def _annotation_set(annot):
    return frozenset(_feature_tuple(f) for f in annot)


# --------------------------------------------------------------------------
# per-base reference model
# --------------------------------------------------------------------------
def model_slice_loc(l, lo, hi):
    """lo/hi: inclusive bounds or None (unbounded).  Returns tuple or None."""
    positions = range(l["first"], l["last"] + 1)
    kept = [p for p in positions if (lo is None or p >= lo) and (hi is None or p <= hi)]
    if not kept:
        return None
    defect = set(l["defect"])
    if any(lo is not None and p < lo for p in positions):
        defect.add("MISS_LEFT")
    if any(hi is not None and p > hi for p in positions):
        defect.add("MISS_RIGHT")
    return (min(kept), max(kept), l["strand"], frozenset(defect))


def model_slice(features, lo, hi):
    out = set()
    cut = 0
    for f in features:
        locs = []
        for l in f["locs"]:
            t = model_slice_loc(l, lo, hi)
            if t is not None:
                locs.append(t)
                if (t[0], t[1]) != (l["first"], l["last"]):
                    cut += 1
            else:
                cut += 1
        if locs:
            out.add((f["key"], frozenset(locs), frozenset(dict(f["qual"]).items())))
    return frozenset(out), cut


def model_annotation_set(features):
    return model_slice(features, None, None)[0]


def revcomp_str(s):
    return "".join(COMPL[c] for c in reversed(s))


def _pairwise_disjoint(locs):
    s = sorted(locs, key=lambda l: l["first"])
    return all(s[i]["last"] < s[i + 1]["first"] for i in range(len(s) - 1))


# --------------------------------------------------------------------------
# strategies
# --------------------------------------------------------------------------
def st_defect(names=DEFECT_NAMES):
    return st.lists(st.sampled_from(names), max_size=3, unique=True).map(sorted)


def st_loc(lo, hi, strand=None):
    """A location with lo <= first <= last <= hi."""
    return st.tuples(
        st.integers(lo, hi),
        st.integers(lo, hi),
        st.sampled_from("+-") if strand is None else st.just(strand),
        st_defect(),
    ).map(lambda t: {"first": min(t[0], t[1]), "last": max(t[0], t[1]), "strand": t[2], "defect": t[3]})


def st_qual():
    return st.dictionaries(
        st.sampled_from(["gene", "note", "product"]), st.text("abc ", max_size=4), max_size=2
    ).map(lambda d: sorted(d.items()))


def st_feature(lo, hi, max_locs=4, same_strand=False):
    def build(strand):
        return st.fixed_dictionaries(
            {
                "key": st.sampled_from(["CDS", "gene", "misc_feature"]),
                "locs": st.lists(st_loc(lo, hi, strand), min_size=1, max_size=max_locs),
                "qual": st_qual(),
            }
        )

    if same_strand:
        return st.sampled_from("+-").flatmap(build)
    return build(None)


@st.composite
def st_disjoint_locs(draw, lo, hi, k, strand, defect_names=DEFECT_NAMES):
    """<= k pairwise disjoint locations inside [lo, hi], one strand, ascending.

    Built from 2k distinct sorted cut points; sampling without replacement from the
    range, so no rejection even when the range has exactly 2k positions (audit C2)."""
    n = hi - lo + 1
    k = max(1, min(k, n // 2))
    if n >= 2 * k:
        pts = sorted(
            draw(st.lists(st.sampled_from(range(lo, hi + 1)), min_size=2 * k, max_size=2 * k, unique=True))
        )
    else:
        pts = [lo, lo]
    return [
        {"first": pts[2 * i], "last": pts[2 * i + 1], "strand": strand, "defect": draw(st_defect(defect_names))}
        for i in range(len(pts) // 2)
    ]


def st_edits(lo, hi, max_locs=4):
    """In-place edits of an Annotation, applied between repeated slices with the same bounds."""
    feat = st_feature(lo, hi, max_locs=max_locs)
    return st.lists(
        st.one_of(
            st.fixed_dictionaries({"op": st.just("iadd_annotation"), "features": st.lists(feat, max_size=3)}),
            st.fixed_dictionaries({"op": st.just("iadd_feature"), "features": st.lists(feat, min_size=1, max_size=1)}),
            st.fixed_dictionaries({"op": st.just("add_feature"), "features": st.lists(feat, min_size=1, max_size=1)}),
            st.fixed_dictionaries({"op": st.just("del_feature"), "i": st.integers(0, 7)}),
        ),
        min_size=1,
        max_size=3,
    )


def st_annotation_slice(tier):
    big = 40 if tier == "quick" else 120

    @st.composite
    def gen(draw):
        lo = draw(st.integers(-big, big))
        span = draw(st.integers(1, big))
        max_locs = draw(st.sampled_from([4, 4, 4, 12]))
        min_feats = draw(st.sampled_from([0, 1, 1, 1, 1, 1, 1, 1]))
        feats = draw(st.lists(st_feature(lo - 5, lo + span + 5, max_locs=max_locs), min_size=min_feats, max_size=5))
        a = draw(st.one_of(st.integers(lo - 8, lo + span + 8), st.none(), st.integers(lo - 8, lo + span + 8)))
        b = draw(st.one_of(st.integers(lo - 8, lo + span + 8), st.none(), st.integers(lo - 8, lo + span + 8)))
        # reversed slices (a > b) are not "slices within the sequence": never generated (audit A5)
        if a is not None and b is not None and a > b:
            a, b = b, a
        # empty slices [a:a] as a class of their own (~6 %), not as an accident of the draws
        if a is not None and b is not None and draw(st.integers(0, 7)) == 7:
            b = a
        elif a is not None and a == b:
            b = a + draw(st.integers(1, span))
        return {
            "features": feats, "start": a, "stop": b, "step": draw(st.sampled_from([None, 1, 2, -1])),
            # slice bounds as NumPy integers (e.g. taken from Feature.get_location_range())
            "np_bounds": draw(st.sampled_from([False, False, True])),
            # the same object is edited in place and sliced again with the same bounds
            "edits": draw(st_edits(lo - 5, lo + span + 5, max_locs)) if draw(st.integers(0, 2)) == 0 else [],
        }

    return gen()


def st_seq(min_size=1, max_size=40):
    return st.text("ACGT", min_size=min_size, max_size=max_size)


def st_annotseq(tier, same_strand=False, inside=False, max_feats=4, minlen=1, min_feats=0):
    maxlen = 40 if tier == "quick" else 100

    @st.composite
    def gen(draw):
        seq = draw(st_seq(minlen, maxlen))
        start = draw(st.one_of(st.just(1), st.integers(1, 1000)))
        n = len(seq)
        lo, hi = start, start + n - 1
        if inside:
            feats = draw(st.lists(st_feature(lo, hi, same_strand=same_strand), min_size=min_feats, max_size=max_feats))
        else:
            # mostly inside, sometimes reaching outside the sequence (also negative)
            wide = draw(st.booleans())
            flo, fhi = (lo - 6, hi + 6) if wide else (lo, hi)
            feats = draw(st.lists(st_feature(flo, fhi, same_strand=same_strand), min_size=min_feats, max_size=max_feats))
        return {"seq": seq, "seqstart": start, "features": feats}

    return gen()


def st_annotseq_slice(tier):
    @st.composite
    def gen(draw):
        base = draw(st_annotseq(tier, min_feats=draw(st.sampled_from([0, 1, 1, 1, 1, 1, 1, 1]))))
        lo = base["seqstart"]
        hi_excl = lo + len(base["seq"])
        # "the index must be in range of the sequence": start on an existing base, stop at most one
        # past the last base (audit A6)
        a = draw(st.one_of(st.integers(lo, hi_excl - 1), st.none(), st.integers(lo, hi_excl - 1)))
        b = draw(st.one_of(st.integers(lo, hi_excl), st.none(), st.integers(lo, hi_excl)))
        if a is not None and b is not None and a > b:
            a, b = b, a
        if a is not None and b is not None and draw(st.integers(0, 7)) == 7:
            b = a
        elif a is not None and a == b:
            a = draw(st.integers(lo, a))
            b = draw(st.integers(b + 1, hi_excl))
        base["start"] = a
        base["stop"] = b
        base["np_bounds"] = draw(st.sampled_from([False, False, True]))
        base["seqtype"] = draw(st.sampled_from(SEQTYPES))
        base["edits"] = draw(st_edits(lo - 6, hi_excl + 5)) if draw(st.integers(0, 2)) == 0 else []
        return base

    return gen()


def st_feature_index(tier):
    @st.composite
    def gen(draw):
        base = draw(st_annotseq(tier, inside=True, max_feats=2, minlen=draw(st.sampled_from([1, 2, 8, 8, 30]))))
        lo = base["seqstart"]
        hi = lo + len(base["seq"]) - 1
        seqtype = draw(st.sampled_from(SEQTYPES))
        base["seqtype"] = seqtype
        # the feature used as index: disjoint locations built from sorted cut points;
        # only side defects: what BETWEEN / UNK_LOC mean for the covered bases is open (audit A7)
        k = draw(st.sampled_from([1, 2, 2, 3, 3, 4, 9, 12]))
        # reverse strand only for nucleotides ("always FORWARD for peptide features")
        strand = draw(st.sampled_from("+-")) if seqtype == "nuc" else "+"
        locs = draw(st_disjoint_locs(lo, hi, k, strand, SIDE_DEFECT_NAMES))
        mixed = seqtype == "nuc" and draw(st.integers(0, 9)) == 9
        if mixed:
            for i in range(1, len(locs), 2):
                locs[i]["strand"] = "+" if strand == "-" else "-"
        order = draw(st.permutations(list(range(len(locs)))))
        locs = [locs[i] for i in order]
        total = sum(l["last"] - l["first"] + 1 for l in locs)
        base["index"] = {"key": "CDS", "locs": locs, "qual": []}
        base["new"] = draw(st.text("ACGT", min_size=total, max_size=total))
        base["int_pos"] = draw(st.integers(lo, hi))
        base["int_sym"] = draw(st.sampled_from("ACGT"))
        a = draw(st.integers(lo, hi + 1))
        b = draw(st.integers(lo, hi + 1))
        a, b = min(a, b), max(a, b)
        # omitted bounds in slice assignment (audit B3)
        open_kind = draw(st.sampled_from(["", "", "a", "b", "ab"]))
        if "a" in open_kind:
            a = None
        if "b" in open_kind:
            b = None
        size = (hi + 1 if b is None else b) - (lo if a is None else a)
        base["sl"] = [a, b]
        base["sl_new"] = draw(st.text("ACGT", min_size=size, max_size=size))
        return base

    return gen()


def st_revcomp(tier):
    @st.composite
    def gen(draw):
        # any features of the quantifier: both strands inside one feature, locations reaching
        # outside the sequence, negative positions (audit B1) ...
        base = draw(st_annotseq(tier, max_feats=3))
        lo = base["seqstart"]
        hi = lo + len(base["seq"]) - 1
        # ... plus "clean" features (inside, one strand, pairwise disjoint locations) for which the
        # biological sequence is defined (audit A3)
        for _ in range(draw(st.sampled_from([0, 1, 1, 2]))):
            k = draw(st.sampled_from([1, 2, 2, 3, 4]))
            locs = draw(st_disjoint_locs(lo, hi, k, draw(st.sampled_from("+-"))))
            order = draw(st.permutations(list(range(len(locs)))))
            base["features"].append(
                {
                    "key": draw(st.sampled_from(["CDS", "gene", "misc_feature"])),
                    "locs": [locs[i] for i in order],
                    "qual": draw(st_qual()),
                }
            )
        base["rc_start"] = draw(st.one_of(st.just(1), st.integers(1, 500)))
        # call reverse_complement() without argument where the documented default 1 is wanted (audit B2)
        base["rc_default"] = draw(st.booleans())
        base["mut_pos"] = draw(st.integers(0, len(base["seq"]) - 1))
        base["mut_op"] = draw(st.integers(0, 2))
        return base

    return gen()


# --------------------------------------------------------------------------
# run functions
# --------------------------------------------------------------------------
def _slice_obj(o, case, obj, a, b, *step):
    """obj[a:b(:step)], with NumPy integer bounds if the case says so.

    NumPy integers follow the Python slice convention (__index__) but are not a documented
    bound type: if they are rejected with a TypeError this is labelled and the same slice is
    judged with built-in ints (audit A8); a wrong *value* for NumPy bounds stays a violation."""
    if not case.get("np_bounds"):
        return obj[slice(a, b, *step)]
    import numpy as np

    o.label("numpy_int_bounds")
    na = None if a is None else np.int64(a)
    nb = None if b is None else np.int64(b)
    try:
        return obj[slice(na, nb, *step)]
    except TypeError:
        o.label("numpy_int_bounds_rejected_TypeError")
        return obj[slice(a, b, *step)]


def _apply_edit(o, annot, cur, e):
    """Apply one in-place edit to the Annotation and to the model list `cur`; returns the new list."""
    from biotite.sequence import Annotation

    op = e["op"]
    if op == "del_feature":
        if not cur:
            return cur
        target = cur[e["i"] % len(cur)]
        annot.del_feature(_mk_feature(target))
        key = model_annotation_set([target])
        o.label("edit_del_feature")
        return [f for f in cur if model_annotation_set([f]) != key]
    if op == "iadd_annotation":
        annot += Annotation([_mk_feature(f) for f in e["features"]])
    elif op == "iadd_feature":
        annot += _mk_feature(e["features"][0])
    else:
        annot.add_feature(_mk_feature(e["features"][0]))
    o.label("edit_" + op)
    return cur + list(e["features"])


def run_annotation_slice(case):
    o = Outcome()
    a, b = case["start"], case["stop"]
    if a is not None and b is not None and a > b:
        # reversed slice: outside "all slices [a:b] within the sequence", undocumented (audit A5)
        o.invalid = True
        return o
    annot = _mk_annotation(case["features"])
    if a is not None and b is not None and a >= b:
        o.label("empty_slice")
    lo = a
    hi = None if b is None else b - 1
    want, cut = model_slice(case["features"], lo, hi)
    got = _annotation_set(_slice_obj(o, case, annot, a, b, case["step"]))
    o.check(got == want, "slice_keeps_exactly_inside_bases", lambda: f"got {sorted(map(str, got))} want {sorted(map(str, want))}")
    # the original annotation must not change
    o.check(
        _annotation_set(annot) == model_annotation_set(case["features"]),
        "slice_does_not_mutate",
        "annotation changed by slicing",
    )
    # the same object edited in place, then the same slice again: still the inside bases of the
    # features the annotation holds *now*
    cur = list(case["features"])
    for k, e in enumerate(case.get("edits", [])):
        cur = _apply_edit(o, annot, cur, e)
        want_k, _ = model_slice(cur, lo, hi)
        got_k = _annotation_set(_slice_obj(o, case, annot, a, b, case["step"]))
        if not o.check(
            got_k == want_k,
            "slice_after_inplace_edit_keeps_exactly_inside_bases",
            lambda: f"after edit {k} ({e['op']}) [{a}:{b}]: got {sorted(map(str, got_k))} want {sorted(map(str, want_k))}",
        ):
            break
    o.label("open_start" if a is None else "closed_start", "open_stop" if b is None else "closed_stop")
    if cut:
        o.label("cuts_location")
    if any(len(f["locs"]) >= 5 for f in case["features"]):
        o.label("feature_nlocs>=5")
    if not case["features"]:
        o.label("no_features")
    o.mark_nontrivial(cut > 0 and len(case["features"]) >= 1)
    return o


def _mk_annotseq(case):
    from biotite.sequence import AnnotatedSequence

    return AnnotatedSequence(
        _mk_annotation(case["features"]), _mk_sequence(case["seq"], case.get("seqtype", "nuc")), case["seqstart"]
    )


def run_annotseq_slice(case):
    o = Outcome()
    s0 = case["seqstart"]
    n = len(case["seq"])
    a, b = case["start"], case["stop"]
    if (a is not None and b is not None and a > b) or (a is not None and a >= s0 + n):
        # not a slice within the sequence (reversed, or start behind the last base; audit A6)
        o.invalid = True
        return o
    aseq = _mk_annotseq(case)
    if a is not None and b is not None and a >= b:
        o.label("empty_slice")
    sub = _slice_obj(o, case, aseq, a, b)
    ia = 0 if a is None else a - s0
    ib = n if b is None else b - s0
    o.check_eq(_seq_str(sub.sequence), case["seq"][ia:ib], "slice_subsequence", "sub-sequence")
    o.check_eq(sub.sequence_start, s0 if a is None else a, "slice_sequence_start", "sequence_start")
    lo = a
    hi = None if b is None else b - 1
    got = _annotation_set(sub.annotation)
    # An omitted bound is unbounded: the sub-annotation is "the corresponding subannotation", i.e.
    # annotation[a:b] for the same slice, and the Annotation documentation fixes that an omitted
    # start/stop includes "all features from the start or up to the stop".  Locations reaching
    # outside the sequence (the quantifier has negative positions with sequence start >= 1) are
    # therefore neither clipped nor flagged on the side of an omitted bound.  The other reading
    # (omitted bound = end of the sequence) differs exactly for these locations; it is computed
    # only to label the deciding class and to name the deviation in the report (audit A1).
    want_unbounded, cut = model_slice(case["features"], lo, hi)
    want_clipped, _ = model_slice(case["features"], s0 if a is None else a, s0 + n - 1 if b is None else b - 1)
    if want_clipped != want_unbounded:
        o.label("omitted_bound_and_location_outside_sequence")
    if got != want_unbounded and got == want_clipped:
        o.fail(
            "annotseq_omitted_bound_is_unbounded",
            f"[{a}:{b}] start={s0} len={n}: locations outside the sequence were clipped at the omitted bound: "
            f"got {sorted(map(str, got))} want {sorted(map(str, want_unbounded))}",
        )
    else:
        o.check(
            got == want_unbounded,
            "annotseq_slice_keeps_exactly_inside_bases",
            lambda: f"[{a}:{b}] start={s0} len={n}: got {sorted(map(str, got))} want {sorted(map(str, want_unbounded))}",
        )
    o.check_eq(_seq_str(aseq.sequence), case["seq"], "slice_does_not_mutate", "original sequence after slicing")
    o.check(
        _annotation_set(aseq.annotation) == model_annotation_set(case["features"]),
        "slice_does_not_mutate",
        "original annotation after slicing",
    )
    # the shared annotation object edited in place, then the same slice of the annotated sequence
    cur = list(case["features"])
    for k, e in enumerate(case.get("edits", [])):
        cur = _apply_edit(o, aseq.annotation, cur, e)
        want_k, _ = model_slice(cur, lo, hi)
        sub_k = _slice_obj(o, case, aseq, a, b)
        got_k = _annotation_set(sub_k.annotation)
        o.check_eq(_seq_str(sub_k.sequence), case["seq"][ia:ib], "slice_subsequence", "sub-sequence after in-place edit")
        if not o.check(
            got_k == want_k,
            "annotseq_slice_after_inplace_edit_keeps_exactly_inside_bases",
            lambda: f"after edit {k} ({e['op']}) [{a}:{b}] start={s0} len={n}: got {sorted(map(str, got_k))} want {sorted(map(str, want_k))}",
        ):
            break
    o.label("open_start" if a is None else "closed_start", "open_stop" if b is None else "closed_stop")
    o.label("start1" if s0 == 1 else "start_other")
    o.label("seqtype=" + case.get("seqtype", "nuc"))
    if any(l["first"] < s0 or l["last"] > s0 + n - 1 for f in case["features"] for l in f["locs"]):
        o.label("location_outside_sequence")
    if cut:
        o.label("cuts_location")
    o.mark_nontrivial(cut > 0 and (s0 != 1 or a is None or b is None))
    return o


def run_feature_index(case):
    o = Outcome()
    s0 = case["seqstart"]
    seq = case["seq"]
    n = len(seq)
    seqtype = case.get("seqtype", "nuc")
    idx = case["index"]
    feat = _mk_feature(idx)
    strands = {l["strand"] for l in idx["locs"]}
    aseq = _mk_annotseq(case)
    o.label("seqtype=" + seqtype)

    # integer get / set
    p = case["int_pos"]
    o.check_eq(aseq[p], seq[p - s0], "int_index", f"aseq[{p}]")
    aseq2 = _mk_annotseq(case)
    aseq2[p] = case["int_sym"]
    want = seq[: p - s0] + case["int_sym"] + seq[p - s0 + 1 :]
    o.check_eq(_seq_str(aseq2.sequence), want, "int_assign", f"aseq[{p}] = {case['int_sym']}")
    # slice set, with or without both bounds
    a, b = case["sl"]
    ia = 0 if a is None else a - s0
    ib = n if b is None else b - s0
    if ib > ia:
        aseq3 = _mk_annotseq(case)
        aseq3[a:b] = _mk_sequence(case["sl_new"], seqtype)
        want = seq[:ia] + case["sl_new"] + seq[ib:]
        o.check_eq(_seq_str(aseq3.sequence), want, "slice_assign", f"aseq[{a}:{b}] = ...")
        o.label("slice_assign_" + ("open" if a is None or b is None else "closed"))

    locs = idx["locs"]
    total = sum(l["last"] - l["first"] + 1 for l in locs)
    if len(strands) > 1:
        # Neither the property nor the documentation says what a feature with locations on both
        # strands yields (GenBank allows it: trans-splicing).  Accepted: any exception, or a sequence
        # with one symbol per covered base; in both cases the object must stay as it was (audit A4).
        o.label("mixed_strands")
        try:
            r = aseq[feat]
        except Exception as e:
            o.label("mixed_strands_raises_" + type(e).__name__)
        else:
            o.label("mixed_strands_returns_sequence")
            o.check_eq(len(r), total, "mixed_strand_feature_length", "len(aseq[feature])")
        o.check_eq(_seq_str(aseq.sequence), seq, "feature_get_does_not_mutate", "sequence after get (mixed strands)")
        return o
    strand = strands.pop()
    o.label("strand" + strand, f"nlocs={len(locs)}" if len(locs) < 5 else "nlocs>=5")
    if strand == "+":
        pieces = [seq[l["first"] - s0 : l["last"] - s0 + 1] for l in sorted(locs, key=lambda l: l["first"])]
    else:
        pieces = [
            revcomp_str(seq[l["first"] - s0 : l["last"] - s0 + 1])
            for l in sorted(locs, key=lambda l: -l["last"])
        ]
    want = "".join(pieces)
    if any(d in ("BETWEEN", "UNK_LOC") for l in locs for d in l["defect"]):
        # only in stored cases of earlier versions: which bases such a location covers is open (audit A7)
        o.label("index_feature_with_BETWEEN_or_UNK_LOC_not_judged")
        return o
    o.check_eq(_seq_str(aseq[feat]), want, "feature_get_biological_order", "aseq[feature]")
    o.check_eq(_seq_str(aseq.sequence), seq, "feature_get_does_not_mutate", "sequence after get")

    # assignment: positions outside the feature unchanged, covered positions are written
    aseq4 = _mk_annotseq(case)
    new = case["new"]
    aseq4[feat] = _mk_sequence(new, seqtype)
    after = _seq_str(aseq4.sequence)
    covered = set()
    for l in locs:
        covered.update(range(l["first"] - s0, l["last"] - s0 + 1))
    o.check(
        all(after[i] == seq[i] for i in range(len(seq)) if i not in covered),
        "feature_assign_outside_unchanged",
        f"{seq} -> {after}",
    )
    o.check_eq(len(after), len(seq), "feature_assign_outside_unchanged", "length")
    if strand == "+":
        # the assigned bases are those the same index reads back
        o.check_eq(_seq_str(aseq4[feat]), new, "feature_assign_then_get", f"locs={locs} seq={seq}")
    else:
        # Reverse strand: "the new sequence is replacing the locations of the Feature" / "writes
        # those bases" leaves two readings: the given symbols are written as they are (today), or
        # assignment is the inverse of the getter (the reverse complement is written, so that the
        # same index reads the new sequence back).  Both are accepted (audit A2).
        written = sorted(after[i] for i in covered)
        if written == sorted(new):
            o.label("reverse_assign_writes_given_symbols")
        elif _seq_str(aseq4[feat]) == new:
            o.label("reverse_assign_inverse_of_get")
        else:
            o.fail(
                "feature_assign_writes_given_bases",
                f"reverse strand: {seq} -> {after}, assigned {new}: neither the given symbols were written "
                f"nor does the same index read them back (reads {_seq_str(aseq4[feat])})",
            )
    o.mark_nontrivial(len(locs) >= 2)
    return o


def _revcomp(obj, start, use_default):
    if start == 1 and use_default:
        return obj.reverse_complement()
    return obj.reverse_complement(sequence_start=start)


def run_revcomp_copy(case):
    from biotite.sequence import Annotation, Feature, Location, Sequence

    o = Outcome()
    aseq = _mk_annotseq(case)
    s0 = case["seqstart"]
    seq = case["seq"]
    rc_start = case["rc_start"]
    use_default = case.get("rc_default", True)
    if use_default and (rc_start == 1 or s0 == 1):
        o.label("reverse_complement_default_argument")
    rc = _revcomp(aseq, rc_start, use_default)
    o.check_eq(str(rc.sequence), revcomp_str(seq), "revcomp_sequence", "sequence")
    o.check_eq(rc.sequence_start, rc_start, "revcomp_sequence_start", "start")
    back = _revcomp(rc, s0, use_default)
    o.check(back == aseq, "revcomp_twice_is_identity", lambda: f"{back!r} != {aseq!r}")
    o.check_eq(
        _annotation_set(back.annotation),
        _annotation_set(aseq.annotation),
        "revcomp_twice_is_identity",
        "annotation",
    )
    o.check_eq(str(aseq.sequence), seq, "revcomp_does_not_mutate", "original sequence")
    o.check(
        _annotation_set(aseq.annotation) == model_annotation_set(case["features"]),
        "revcomp_does_not_mutate",
        "original annotation",
    )
    # metamorphic: the biological sequence of a feature does not depend on the strand we look at
    n = len(seq)
    sw = {"MISS_LEFT": "MISS_RIGHT", "MISS_RIGHT": "MISS_LEFT", "BEYOND_LEFT": "BEYOND_RIGHT", "BEYOND_RIGHT": "BEYOND_LEFT"}
    rc_set = _annotation_set(rc.annotation)
    seen = set()  # labels: once per case
    for f in case["features"]:
        feat = _mk_feature(f)
        # mirrored feature built from the model
        m_locs = []
        for l in f["locs"]:
            first = (n - 1) - (l["last"] - s0) + rc_start
            last = (n - 1) - (l["first"] - s0) + rc_start
            m_locs.append(
                {
                    "first": first,
                    "last": last,
                    "strand": "-" if l["strand"] == "+" else "+",
                    "defect": sorted(sw.get(d, d) for d in l["defect"]),
                }
            )
        m_feat = _mk_feature({"key": f["key"], "locs": m_locs, "qual": f["qual"]})
        o.check(
            _feature_tuple(m_feat) in rc_set,
            "revcomp_maps_locations",
            lambda: f"{m_feat!r} missing in {rc.annotation!r}",
        )
        one_strand = len({l["strand"] for l in f["locs"]}) == 1
        inside = all(s0 <= l["first"] and l["last"] <= s0 + n - 1 for l in f["locs"])
        if not one_strand:
            seen.add("feature_with_both_strands")
        if not inside:
            seen.add("location_outside_sequence")
        seen.add("feature_nlocs=%d" % len(f["locs"]) if len(f["locs"]) < 3 else "feature_nlocs>=3")
        seen.update("defect_" + d for l in f["locs"] for d in l["defect"])
        # "biological order" is defined for pairwise disjoint locations on one strand (audit A3)
        if one_strand and inside and _pairwise_disjoint(f["locs"]):
            seen.add("feature_sequence_compared" + ("_multi_location" if len(f["locs"]) >= 2 else ""))
            o.check_eq(str(rc[m_feat]), str(aseq[feat]), "revcomp_preserves_feature_sequence", f"feature {f}")
    o.label(*sorted(seen))
    # copy
    cp = aseq.copy()
    o.check(cp == aseq, "copy_equal", "copy() != original")
    if not o.check(isinstance(cp.sequence, Sequence), "copy_equal", f"copy().sequence is a {type(cp.sequence).__name__}"):
        return o
    o.check_eq(str(cp.sequence), seq, "copy_equal", "copied sequence")
    o.check_eq(cp.sequence_start, s0, "copy_equal", "sequence_start of the copy")
    o.check_eq(_annotation_set(cp.annotation), model_annotation_set(case["features"]), "copy_equal", "annotation of the copy")
    other = "A" if seq[case["mut_pos"]] != "A" else "C"
    cp.sequence[case["mut_pos"]] = other
    o.check_eq(str(aseq.sequence), seq, "copy_independent", "original sequence after mutating the copy")

    probe = Feature("verif_probe", [Location(1, 1)])
    model_set = model_annotation_set(case["features"])
    cp2 = aseq.copy()
    cp2.annotation.add_feature(probe)
    # (once sharing is seen the objects are in an undefined state: stop there)
    if not o.check(
        _annotation_set(aseq.annotation) == model_set,
        "copy_independent",
        "original annotation after adding a feature to the copy",
    ):
        return o
    # Annotation.copy() itself: equal, and independent when the copy is edited
    acopy = aseq.annotation.copy()
    o.check(acopy == aseq.annotation, "copy_equal", "annotation copy")
    acopy.add_feature(probe)
    if not o.check(
        _annotation_set(aseq.annotation) == model_set,
        "copy_independent",
        "original annotation after adding a feature to its Annotation.copy()",
    ):
        return o
    if case["features"]:
        acopy.del_feature(_mk_feature(case["features"][0]))
        if not o.check(
            _annotation_set(aseq.annotation) == model_set,
            "copy_independent",
            "original annotation after deleting a feature from its Annotation.copy()",
        ):
            return o
    # ... and the other direction: the original is edited, the copies are inspected
    cp3 = aseq.copy()
    acopy2 = aseq.annotation.copy()
    orig = aseq.annotation
    op = case.get("mut_op", 0)
    if op == 1 and case["features"]:
        o.label("original_edited_by_del_feature")
        orig.del_feature(_mk_feature(case["features"][0]))
    elif op == 2:
        o.label("original_edited_by_iadd")
        orig += Annotation([probe])
    else:
        o.label("original_edited_by_add_feature")
        orig.add_feature(probe)
    aseq.sequence[case["mut_pos"]] = other
    o.check(_annotation_set(acopy2) == model_set, "copy_independent", "Annotation.copy() after editing the original")
    o.check(
        _annotation_set(cp3.annotation) == model_set,
        "copy_independent",
        "annotation of AnnotatedSequence.copy() after editing the original",
    )
    o.check_eq(str(cp3.sequence), seq, "copy_independent", "sequence of the copy after mutating the original")

    # "Objects of this class are immutable" (Feature): neither the dict given to the constructor
    # nor the dict handed out by .qual is the feature's own
    if case["features"]:
        f = case["features"][0]
        qual_in = dict(f["qual"])
        feat = Feature(f["key"], [_mk_loc(l) for l in f["locs"]], qual_in)
        holder = Annotation([feat])
        h = hash(feat)
        qual_in["verif_key"] = "x"
        handed_out = feat.qual
        try:
            handed_out["verif_key2"] = "y"
        except TypeError:
            o.label("feature_qual_is_read_only")
        o.check_eq(feat.qual, dict(f["qual"]), "feature_immutable", "qual after editing the dicts outside")
        o.check(hash(feat) == h and feat in holder and feat == _mk_feature(f), "feature_immutable", "hash / membership / equality after editing the dicts outside")

    interesting = any(len(f["locs"]) >= 2 or any(l["defect"] for l in f["locs"]) for f in case["features"])
    o.mark_nontrivial(interesting)
    o.label("has_features" if case["features"] else "no_features")
    return o


SUBS = [
    Sub(
        "annotation_slice",
        st_annotation_slice,
        run_annotation_slice,
        quick=4000,
        thorough=150000,
        rule="slice removes or clips >= 1 location",
        clauses="Annotation[a:b] keeps exactly the inside bases; MISS flags iff removed on that side",
    ),
    Sub(
        "annotseq_slice",
        st_annotseq_slice,
        run_annotseq_slice,
        quick=4000,
        thorough=150000,
        rule="slice cuts >= 1 location and (sequence start != 1 or an omitted bound)",
        clauses="AnnotatedSequence[a:b]: sub-annotation, sub-sequence and sequence start",
    ),
    Sub(
        "feature_index",
        st_feature_index,
        run_feature_index,
        quick=3000,
        thorough=100000,
        rule="index feature with >= 2 disjoint locations",
        clauses="feature get in biological order, feature/int/slice assignment",
    ),
    Sub(
        "revcomp_copy",
        st_revcomp,
        run_revcomp_copy,
        quick=2500,
        thorough=80000,
        rule=">= 1 feature with a defect flag or >= 2 locations",
        clauses="reverse complement twice, location mirroring, copy equality and independence, feature immutability",
    ),
]

FINDINGS = {}
