"""
C13  Slicing annotations and annotated sequences matches a per-base model.

Oracle: every location is the *set of positions* it covers.  Slicing keeps
(old set & slice); MISS_LEFT / MISS_RIGHT are set iff positions were removed on
that side; the other flags are preserved; features without surviving location
disappear.  Feature indexing is a concatenation of per-location subsequences in
biological order, written out here with plain Python strings.
"""

from hypothesis import strategies as st

from vlib import Outcome, Sub

PROPERTY = "C13"
RULE = (
    "annotation/annotated-sequence cases; non-trivial = the slice cuts at least one location "
    "and (sequence start != 1 or a slice bound is omitted); for feature indexing: >= 2 locations; "
    "for reverse complement: >= 1 feature with a defect flag or >= 2 locations"
)

DEFECT_NAMES = ["MISS_LEFT", "MISS_RIGHT", "BEYOND_LEFT", "BEYOND_RIGHT", "UNK_LOC", "BETWEEN"]
COMPL = {"A": "T", "C": "G", "G": "C", "T": "A"}


# --------------------------------------------------------------------------
# building biotite objects from plain data
# --------------------------------------------------------------------------
def _mk_defect(names):
    from biotite.sequence import Location

    d = Location.Defect.NONE
    for n in names:
        d |= Location.Defect[n]
    return d


def _mk_loc(l):
    from biotite.sequence import Location

    strand = Location.Strand.FORWARD if l["strand"] == "+" else Location.Strand.REVERSE
    return Location(l["first"], l["last"], strand, _mk_defect(l["defect"]))


def _mk_feature(f):
    from biotite.sequence import Feature

    return Feature(f["key"], [_mk_loc(l) for l in f["locs"]], dict(f["qual"]))


def _mk_annotation(features):
    from biotite.sequence import Annotation

    return Annotation([_mk_feature(f) for f in features])


def _loc_tuple(loc):
    from biotite.sequence import Location

    names = frozenset(n for n in DEFECT_NAMES if loc.defect & Location.Defect[n])
    return (loc.first, loc.last, "+" if loc.strand == Location.Strand.FORWARD else "-", names)


def _feature_tuple(feat):
    return (
        feat.key,
        frozenset(_loc_tuple(l) for l in feat.locs),
        frozenset(feat.qual.items()),
    )


def _annotation_set(annot):
    return frozenset(_feature_tuple(f) for f in annot)


# --------------------------------------------------------------------------
# per-base reference model
# --------------------------------------------------------------------------
def model_slice_loc(l, lo, hi):
    """lo/hi: inclusive bounds or None (unbounded).  Returns tuple or None."""
    positions = range(l["first"], l["last"] + 1)
    kept = [p for p in positions if (lo is None or p >= lo) and (hi is None or p <= hi)]
    if not kept:
        return None
    defect = set(l["defect"])
    if any(lo is not None and p < lo for p in positions):
        defect.add("MISS_LEFT")
    if any(hi is not None and p > hi for p in positions):
        defect.add("MISS_RIGHT")
    return (min(kept), max(kept), l["strand"], frozenset(defect))


def model_slice(features, lo, hi):
    out = set()
    cut = 0
    for f in features:
        locs = []
        for l in f["locs"]:
            t = model_slice_loc(l, lo, hi)
            if t is not None:
                locs.append(t)
                if (t[0], t[1]) != (l["first"], l["last"]):
                    cut += 1
            else:
                cut += 1
        if locs:
            out.add((f["key"], frozenset(locs), frozenset(dict(f["qual"]).items())))
    return frozenset(out), cut


def revcomp_str(s):
    return "".join(COMPL[c] for c in reversed(s))


# --------------------------------------------------------------------------
# strategies
# --------------------------------------------------------------------------
def st_defect():
    return st.lists(st.sampled_from(DEFECT_NAMES), max_size=3, unique=True).map(sorted)


def st_loc(lo, hi, strand=None):
    """A location with lo <= first <= last <= hi."""
    return st.tuples(
        st.integers(lo, hi),
        st.integers(lo, hi),
        st.sampled_from("+-") if strand is None else st.just(strand),
        st_defect(),
    ).map(lambda t: {"first": min(t[0], t[1]), "last": max(t[0], t[1]), "strand": t[2], "defect": t[3]})


def st_qual():
    return st.dictionaries(
        st.sampled_from(["gene", "note", "product"]), st.text("abc ", max_size=4), max_size=2
    ).map(lambda d: sorted(d.items()))


def st_feature(lo, hi, max_locs=4, same_strand=False):
    def build(strand):
        return st.fixed_dictionaries(
            {
                "key": st.sampled_from(["CDS", "gene", "misc_feature"]),
                "locs": st.lists(st_loc(lo, hi, strand), min_size=1, max_size=max_locs),
                "qual": st_qual(),
            }
        )

    if same_strand:
        return st.sampled_from("+-").flatmap(build)
    return build(None)


def st_annotation_slice(tier):
    big = 40 if tier == "quick" else 120

    @st.composite
    def gen(draw):
        lo = draw(st.integers(-big, big))
        span = draw(st.integers(1, big))
        feats = draw(st.lists(st_feature(lo - 5, lo + span + 5), max_size=5))
        a = draw(st.one_of(st.integers(lo - 8, lo + span + 8), st.none(), st.integers(lo - 8, lo + span + 8)))
        b = draw(st.one_of(st.integers(lo - 8, lo + span + 8), st.none(), st.integers(lo - 8, lo + span + 8)))
        if a is not None and b is not None and a > b and draw(st.integers(0, 7)) != 0:
            a, b = b, a
        if a is not None and a == b and draw(st.integers(0, 3)) != 0:
            b = a + draw(st.integers(1, span))
        return {
            "features": feats, "start": a, "stop": b, "step": draw(st.sampled_from([None, 1, 2, -1])),
            # slice bounds as NumPy integers (e.g. taken from Feature.get_location_range())
            "np_bounds": draw(st.sampled_from([False, False, True])),
        }

    return gen()


def st_seq(min_size=1, max_size=40):
    return st.text("ACGT", min_size=min_size, max_size=max_size)


def st_annotseq(tier, same_strand=False, inside=False, max_feats=4, minlen=1):
    maxlen = 40 if tier == "quick" else 100

    @st.composite
    def gen(draw):
        seq = draw(st_seq(minlen, maxlen))
        start = draw(st.one_of(st.just(1), st.integers(1, 1000)))
        n = len(seq)
        lo, hi = start, start + n - 1
        if inside:
            feats = draw(st.lists(st_feature(lo, hi, same_strand=same_strand), max_size=max_feats))
        else:
            # mostly inside, sometimes reaching outside the sequence (also negative)
            wide = draw(st.booleans())
            flo, fhi = (lo - 6, hi + 6) if wide else (lo, hi)
            feats = draw(st.lists(st_feature(flo, fhi, same_strand=same_strand), max_size=max_feats))
        return {"seq": seq, "seqstart": start, "features": feats}

    return gen()


def st_annotseq_slice(tier):
    @st.composite
    def gen(draw):
        base = draw(st_annotseq(tier))
        lo = base["seqstart"]
        hi_excl = lo + len(base["seq"])
        a = draw(st.one_of(st.integers(lo, hi_excl), st.none(), st.integers(lo, hi_excl)))
        b = draw(st.one_of(st.integers(lo, hi_excl), st.none(), st.integers(lo, hi_excl)))
        if a is not None and b is not None and a > b:
            a, b = b, a
        if a is not None and a == b and draw(st.integers(0, 3)) != 0:
            a = draw(st.integers(lo, a))
            b = draw(st.integers(b, hi_excl))
        base["start"] = a
        base["stop"] = b
        base["np_bounds"] = draw(st.sampled_from([False, False, True]))
        return base

    return gen()


def st_feature_index(tier):
    @st.composite
    def gen(draw):
        base = draw(st_annotseq(tier, inside=True, max_feats=2, minlen=draw(st.sampled_from([1, 2, 8, 8, 30]))))
        lo = base["seqstart"]
        hi = lo + len(base["seq"]) - 1
        # the feature used as index: disjoint locations built from sorted cut points
        k = draw(st.sampled_from([1, 2, 2, 3, 3, 4, 9, 12]))
        k = max(1, min(k, (hi - lo + 1) // 2))
        if hi - lo + 1 >= 2 * k:
            pts = sorted(draw(st.lists(st.integers(lo, hi), min_size=2 * k, max_size=2 * k, unique=True)))
        else:
            pts = [lo, lo]
        mixed = draw(st.integers(0, 9)) == 0
        strand = draw(st.sampled_from("+-"))
        locs = []
        prev_last = None
        for i in range(k):
            first, last = pts[2 * i], pts[2 * i + 1]
            if prev_last is not None and first <= prev_last:
                continue  # keep locations disjoint
            prev_last = last
            s = strand
            if mixed and i % 2 == 1:
                s = "+" if strand == "-" else "-"
            locs.append({"first": first, "last": last, "strand": s, "defect": draw(st_defect())})
        order = draw(st.permutations(list(range(len(locs)))))
        locs = [locs[i] for i in order]
        total = sum(l["last"] - l["first"] + 1 for l in locs)
        base["index"] = {"key": "CDS", "locs": locs, "qual": []}
        base["new"] = draw(st.text("ACGT", min_size=total, max_size=total))
        base["int_pos"] = draw(st.integers(lo, hi))
        base["int_sym"] = draw(st.sampled_from("ACGT"))
        a = draw(st.integers(lo, hi + 1))
        b = draw(st.integers(lo, hi + 1))
        a, b = min(a, b), max(a, b)
        base["sl"] = [a, b]
        base["sl_new"] = draw(st.text("ACGT", min_size=b - a, max_size=b - a))
        return base

    return gen()


def st_revcomp(tier):
    @st.composite
    def gen(draw):
        base = draw(st_annotseq(tier, same_strand=True, inside=True))
        base["rc_start"] = draw(st.integers(1, 500))
        base["mut_pos"] = draw(st.integers(0, len(base["seq"]) - 1))
        return base

    return gen()


# --------------------------------------------------------------------------
# run functions
# --------------------------------------------------------------------------
def _bound(case, v):
    import numpy as np

    if v is None or not case.get("np_bounds"):
        return v
    return np.int64(v)


def run_annotation_slice(case):
    o = Outcome()
    if case.get("np_bounds"):
        o.label("numpy_int_bounds")
    annot = _mk_annotation(case["features"])
    a, b = case["start"], case["stop"]
    if a is not None and b is not None and a >= b:
        o.label("empty_slice")
    lo = a
    hi = None if b is None else b - 1
    want, cut = model_slice(case["features"], lo, hi)
    got = _annotation_set(annot[slice(_bound(case, a), _bound(case, b), case["step"])])
    o.check(got == want, "slice_keeps_exactly_inside_bases", lambda: f"got {sorted(map(str, got))} want {sorted(map(str, want))}")
    # the original annotation must not change
    o.check(
        _annotation_set(annot) == _annotation_set(_mk_annotation(case["features"])),
        "slice_does_not_mutate",
        "annotation changed by slicing",
    )
    o.label("open_start" if a is None else "closed_start", "open_stop" if b is None else "closed_stop")
    if cut:
        o.label("cuts_location")
    o.mark_nontrivial(cut > 0 and len(case["features"]) >= 1)
    return o


def _mk_annotseq(case):
    from biotite.sequence import AnnotatedSequence, NucleotideSequence

    return AnnotatedSequence(
        _mk_annotation(case["features"]), NucleotideSequence(case["seq"]), case["seqstart"]
    )


def run_annotseq_slice(case):
    o = Outcome()
    aseq = _mk_annotseq(case)
    s0 = case["seqstart"]
    n = len(case["seq"])
    a, b = case["start"], case["stop"]
    if a is not None and b is not None and a >= b:
        o.label("empty_slice")
    sub = aseq[_bound(case, a) : _bound(case, b)]
    if case.get("np_bounds"):
        o.label("numpy_int_bounds")
    ia = 0 if a is None else a - s0
    ib = n if b is None else b - s0
    o.check_eq(str(sub.sequence), case["seq"][ia:ib], "slice_subsequence", "sub-sequence")
    o.check_eq(sub.sequence_start, s0 if a is None else a, "slice_sequence_start", "sequence_start")
    lo = a
    hi = None if b is None else b - 1
    got = _annotation_set(sub.annotation)
    want_unbounded, cut = model_slice(case["features"], lo, hi)
    # An omitted bound is unbounded, as documented for Annotation ("the subannotation will include
    # all features from the start or up to the stop, respectively"): locations that reach beyond the
    # sequence stay as they are.
    ok = got == want_unbounded
    o.check(
        ok,
        "annotseq_slice_keeps_exactly_inside_bases",
        lambda: f"[{a}:{b}] start={s0} len={n}: got {sorted(map(str, got))} want {sorted(map(str, want_unbounded))}",
    )
    o.label("open_start" if a is None else "closed_start", "open_stop" if b is None else "closed_stop")
    o.label("start1" if s0 == 1 else "start_other")
    if cut:
        o.label("cuts_location")
    o.mark_nontrivial(cut > 0 and (s0 != 1 or a is None or b is None))
    return o


def run_feature_index(case):
    from biotite.sequence import NucleotideSequence

    o = Outcome()
    s0 = case["seqstart"]
    seq = case["seq"]
    idx = case["index"]
    feat = _mk_feature(idx)
    strands = {l["strand"] for l in idx["locs"]}
    aseq = _mk_annotseq(case)

    # integer get / set
    p = case["int_pos"]
    o.check_eq(aseq[p], seq[p - s0], "int_index", f"aseq[{p}]")
    aseq2 = _mk_annotseq(case)
    aseq2[p] = case["int_sym"]
    want = seq[: p - s0] + case["int_sym"] + seq[p - s0 + 1 :]
    o.check_eq(str(aseq2.sequence), want, "int_assign", f"aseq[{p}] = {case['int_sym']}")
    # slice set
    a, b = case["sl"]
    if b > a:
        aseq3 = _mk_annotseq(case)
        aseq3[a:b] = NucleotideSequence(case["sl_new"])
        want = seq[: a - s0] + case["sl_new"] + seq[b - s0 :]
        o.check_eq(str(aseq3.sequence), want, "slice_assign", f"aseq[{a}:{b}] = ...")

    if len(strands) > 1:
        o.label("mixed_strands")
        o.expect_raises(ValueError, lambda: aseq[feat], "mixed_strand_feature_rejected", "aseq[feature]")
        return o
    strand = strands.pop()
    o.label("strand" + strand, f"nlocs={len(idx['locs'])}" if len(idx["locs"]) < 5 else "nlocs>=5")
    locs = idx["locs"]
    if strand == "+":
        pieces = [seq[l["first"] - s0 : l["last"] - s0 + 1] for l in sorted(locs, key=lambda l: l["first"])]
    else:
        pieces = [
            revcomp_str(seq[l["first"] - s0 : l["last"] - s0 + 1])
            for l in sorted(locs, key=lambda l: -l["last"])
        ]
    want = "".join(pieces)
    o.check_eq(str(aseq[feat]), want, "feature_get_biological_order", "aseq[feature]")
    o.check_eq(str(aseq.sequence), seq, "feature_get_does_not_mutate", "sequence after get")

    # assignment: positions outside the feature unchanged, covered positions are written
    aseq4 = _mk_annotseq(case)
    new = case["new"]
    aseq4[feat] = NucleotideSequence(new)
    after = str(aseq4.sequence)
    covered = set()
    for l in locs:
        covered.update(range(l["first"] - s0, l["last"] - s0 + 1))
    o.check(
        all(after[i] == seq[i] for i in range(len(seq)) if i not in covered),
        "feature_assign_outside_unchanged",
        f"{seq} -> {after}",
    )
    o.check_eq(len(after), len(seq), "feature_assign_outside_unchanged", "length")
    if strand == "+":
        # the assigned bases are those the same index reads back
        o.check_eq(str(aseq4[feat]), new, "feature_assign_then_get", f"locs={locs} seq={seq}")
    else:
        # reverse strand: the property only states that "those bases" are written;
        # the written multiset per feature must be the new sequence's symbols.
        written = sorted(after[i] for i in covered)
        o.check_eq(written, sorted(new), "feature_assign_writes_given_bases", "reverse strand")
    o.mark_nontrivial(len(locs) >= 2)
    return o


def run_revcomp_copy(case):
    o = Outcome()
    aseq = _mk_annotseq(case)
    s0 = case["seqstart"]
    seq = case["seq"]
    rc = aseq.reverse_complement(sequence_start=case["rc_start"])
    o.check_eq(str(rc.sequence), revcomp_str(seq), "revcomp_sequence", "sequence")
    o.check_eq(rc.sequence_start, case["rc_start"], "revcomp_sequence_start", "start")
    back = rc.reverse_complement(sequence_start=s0)
    o.check(back == aseq, "revcomp_twice_is_identity", lambda: f"{back!r} != {aseq!r}")
    o.check_eq(
        _annotation_set(back.annotation),
        _annotation_set(aseq.annotation),
        "revcomp_twice_is_identity",
        "annotation",
    )
    # metamorphic: the biological sequence of a feature does not depend on the strand we look at
    n = len(seq)
    for f in case["features"]:
        feat = _mk_feature(f)
        # mirrored feature built from the model
        m_locs = []
        for l in f["locs"]:
            first = (n - 1) - (l["last"] - s0) + case["rc_start"]
            last = (n - 1) - (l["first"] - s0) + case["rc_start"]
            sw = {"MISS_LEFT": "MISS_RIGHT", "MISS_RIGHT": "MISS_LEFT", "BEYOND_LEFT": "BEYOND_RIGHT", "BEYOND_RIGHT": "BEYOND_LEFT"}
            m_locs.append(
                {
                    "first": first,
                    "last": last,
                    "strand": "-" if l["strand"] == "+" else "+",
                    "defect": sorted(sw.get(d, d) for d in l["defect"]),
                }
            )
        m_feat = _mk_feature({"key": f["key"], "locs": m_locs, "qual": f["qual"]})
        o.check(
            _feature_tuple(m_feat) in _annotation_set(rc.annotation),
            "revcomp_maps_locations",
            lambda: f"{m_feat!r} missing in {rc.annotation!r}",
        )
        firsts = [l["first"] for l in f["locs"]]
        lasts = [l["last"] for l in f["locs"]]
        if len(set(firsts)) == len(firsts) and len(set(lasts)) == len(lasts):
            o.check_eq(str(rc[m_feat]), str(aseq[feat]), "revcomp_preserves_feature_sequence", f"feature {f}")
    # copy
    cp = aseq.copy()
    o.check(cp == aseq, "copy_equal", "copy() != original")
    from biotite.sequence import Sequence

    if not o.check(isinstance(cp.sequence, Sequence), "copy_equal", f"copy().sequence is a {type(cp.sequence).__name__}"):
        return o
    o.check_eq(str(cp.sequence), seq, "copy_equal", "copied sequence")
    cp.sequence[case["mut_pos"]] = "A" if seq[case["mut_pos"]] != "A" else "C"
    o.check_eq(str(aseq.sequence), seq, "copy_independent", "original sequence after mutating the copy")
    from biotite.sequence import Feature, Location

    cp2 = aseq.copy()
    cp2.annotation.add_feature(Feature("verif_probe", [Location(1, 1)]))
    o.check(
        _annotation_set(aseq.annotation) == _annotation_set(_mk_annotation(case["features"])),
        "copy_independent",
        "original annotation after adding a feature to the copy",
    )
    acopy = aseq.annotation.copy()
    o.check(acopy == aseq.annotation, "copy_equal", "annotation copy")
    interesting = any(len(f["locs"]) >= 2 or any(l["defect"] for l in f["locs"]) for f in case["features"])
    o.mark_nontrivial(interesting)
    o.label("has_features" if case["features"] else "no_features")
    return o


SUBS = [
    Sub(
        "annotation_slice",
        st_annotation_slice,
        run_annotation_slice,
        quick=4000,
        thorough=150000,
        rule="slice removes or clips >= 1 location",
        clauses="Annotation[a:b] keeps exactly the inside bases; MISS flags iff removed on that side",
    ),
    Sub(
        "annotseq_slice",
        st_annotseq_slice,
        run_annotseq_slice,
        quick=4000,
        thorough=150000,
        rule="slice cuts >= 1 location and (sequence start != 1 or an omitted bound)",
        clauses="AnnotatedSequence[a:b]: sub-annotation, sub-sequence and sequence start",
    ),
    Sub(
        "feature_index",
        st_feature_index,
        run_feature_index,
        quick=3000,
        thorough=100000,
        rule="index feature with >= 2 disjoint locations",
        clauses="feature get in biological order, feature/int/slice assignment",
    ),
    Sub(
        "revcomp_copy",
        st_revcomp,
        run_revcomp_copy,
        quick=2500,
        thorough=80000,
        rule=">= 1 feature with a defect flag or >= 2 locations",
        clauses="reverse complement twice, location mirroring, copy equality and independence",
    ),
]

FINDINGS = {}
