"""
C09  Heuristic alignments (banded, X-drop gapped, ungapped seed extension) are
valid, honestly scored and never above optimal.

Oracle: the reference model of C08 (``models/align_ref.py``): independent
scoring function, three-state DP for the unrestricted optimum, plus for this
property a band-restricted DP, a "best alignment through the seed" DP and an
exact ungapped X-drop walk; the C09 references are compared with brute-force
enumeration on every small case before they are used.

Sub-checks
----------
banded    align_banded: traces valid, all paired (i, j) inside the band, score
          recomputed from the trace completed by the unaligned sequence ends
          (semi-global) == reported, <= unrestricted optimum, == it when the band
          covers every diagonal and an optimal alignment pairs >= 1 position,
          == the exact band-restricted optimum, distinct, <= max_number.
seeded    align_local_gapped: contains the seed, direction respected, recomputed
          == reported == score_only, <= best alignment through the seed <= local
          optimum, == best through the seed when the threshold cannot bind.
ungapped  align_local_ungapped: diagonal range through the seed, direction
          respected, recomputed == reported == score_only == exact X-drop value.
table_limit  align_local_gapped(max_table_size) on 600..1200 identical periodic
          symbols: MemoryError (cleanly) when the limit is far below the product of
          the aligned region lengths, identical result when it fits with a wide
          margin, either in between; the result itself is valid, contains the
          seed, is honestly scored and has the score of the all-match diagonal.

Alternatives that are accepted (each shows up as a label)
---------------------------------------------------------
* affine penalties: neither docstring says whether a gap may directly abut a gap
  of the other sequence.  Upper bounds use the optimum WITHOUT that restriction
  (>= the restricted one); "reaches the optimum" clauses accept any score in
  [restricted optimum, unrestricted optimum] (the score is also the recomputed
  score of the returned trace); labels ``adjacency_matters``, ``reached_restricted``,
  ``reached_unrestricted``, ``reached_between``.
* ungapped stop rule: the summary of the docstring says "more than threshold
  below", the parameter text "this value below": both exact X-drop values are
  accepted where they differ (``stop_rule_more_than`` / ``stop_rule_at_least``).
* gapped extension, threshold > 10^6: a refusal with ValueError/OverflowError is
  accepted (``large_threshold_refused``); a returned result is judged as usual.
* a band that holds no pair (i, j) and is nevertheless accepted: an empty result
  list is accepted; every alignment that IS returned is judged as usual.

Stronger than the statement, kept on purpose: non-empty results are pairwise
distinct (C08 states it for align_optimal only); the banded score equals the exact
band-restricted optimum (align_banded docstring: "the maximum score possible
within the defined band").
"""

import numpy as np
from hypothesis import strategies as st

from models import align_heur_ref as H
from models import align_ref as R
from props.c08_align_optimal import (
    full_matrix,
    gap_of,
    model_inputs,
    st_codes,
    st_gap,
    st_length,
    st_matrix,
)
from vlib import Outcome, Sub, findings

PROPERTY = "C09"
RULE = (
    "sequence pairs / matrices / penalties as in C08 (lengths up to 25), bands (d1, d2) in any order from "
    "-(len1+3)..len2+3, seeds anywhere, thresholds 0..10^6 plus 'never stop' values up to the int32 maximum, "
    "all directions, max_number 1..50; align_local_gapped only with strictly negative penalties (it refuses 0); "
    "narrowed by construction while the findings are open: semi-global banded cases in which a substitution "
    "score is <= a gap penalty and an optimal band path starts with / ends in a gap (C09-F1/F2: gaps next to the "
    "band border at the sequence ends are then only exercised with local=True), affine sentinel overflow "
    "(C09-F3), gapped thresholds T with T + 1 + min(len1, len2) * max(0, highest score) > 2^31 - 1 (C09-F4); "
    "non-trivial = the band cuts the optimal path, or the seed is off the optimal alignment, or the threshold binds"
)

F1 = "C09-F1"
F2 = "C09-F2"
F3 = "C09-F3"
F4 = "C09-F4"
INT32_MAX = 2**31 - 1


def f4_excluded():
    """C09-F4 is narrowed out while it is a candidate (no entry in known_findings yet) or open;
    once an entry exists with another status (fixed) the class is generated again."""
    listed = any(e["id"] == F4 for e in findings.entries(PROPERTY))
    return findings.is_open(F4) or not listed


def f4_tag():
    return F4 if findings.is_open(F4) else F4 + "-candidate"


# thresholds a caller passes to say "never stop": the largest values the int32 parameter takes
NEVER_STOP = [2**31 - 1, 2**31 - 2, 2**30]
# The gapped X-drop tables hold 'threshold + 1 + score' in int32.  threshold = 2^31 - 1 is refused with
# OverflowError (a refusal, accepted); every other threshold T with T + 1 + (a reachable score) > 2^31 - 1
# is accepted and silently gives a wrong (too small) result: open finding C09-F4, narrowed by construction.
# 10^9 and 2^30 - 1 are 'never stop' values below any plausible guard (int32 max // 2); 2^30 and above may
# legitimately be refused (see run_seeded).
NEVER_STOP_GAPPED = [2**30 - 1, 10**9, 2**30, 2**31 - 1]
# the class of C09-F4: the last values below the int32 maximum
NEAR_INT32_MAX = [2**31 - 2, 2**31 - 3, 2**31 - 10, 2**31 - 50, 2**31 - 1000]

BUILD_STATE = {"released_id": None, "reused": False}  # diagnostic only (label), never part of a verdict


def build(case):
    """Sequences and matrix of a case (own copy of the C08 helper: C09 does not depend on its signature)."""
    import biotite.sequence as seq
    import biotite.sequence.align as align

    alph1 = seq.Alphabet(list(range(case["size1"])))
    alph2 = seq.Alphabet(list(range(case["size2"])))
    malph1 = seq.Alphabet(list(range(case["size1"] + case["extra1"])))
    malph2 = seq.Alphabet(list(range(case["size2"] + case["extra2"])))
    s1 = seq.GeneralSequence(alph1)
    s1.code = np.array(case["s1"], dtype=np.int64)
    s2 = seq.GeneralSequence(alph2)
    s2.code = np.array(case["s2"], dtype=np.int64)
    # (whether the constructor copies the caller's array is C08's business: nothing is written to it here)
    scores = np.ascontiguousarray(full_matrix(case), dtype=np.int32)
    # History inside the case: a short-lived matrix object with OTHER scores is used (score_matrix(), transpose())
    # and released immediately before the matrix of the case is created, which then usually gets the same
    # address (CPython hands the freed block to the next object of that size).  The result of an alignment may
    # not depend on objects that no longer exist, so correct code cannot fail because of this; anything that
    # remembers matrices by id() does - reproducibly, within this one case.
    other = np.ascontiguousarray(scores[::-1, ::-1] + 3, dtype=np.int32)
    decoy = align.SubstitutionMatrix(malph1, malph2, other)
    decoy.score_matrix()
    decoy.transpose()
    BUILD_STATE["released_id"] = id(decoy)
    del decoy
    matrix = align.SubstitutionMatrix(malph1, malph2, scores)
    BUILD_STATE["reused"] = id(matrix) == BUILD_STATE["released_id"]
    return s1, s2, matrix


def iscore(o, value, where=""):
    """The reported score as int; a non-integer score (e.g. None) is a violation, not a harness error."""
    if value is None or isinstance(value, (bool, str)) or not isinstance(value, (int, np.integer)):
        o.fail("reported_score_is_integer", f"{where}: reported score is {value!r}, not an integer")
        return None
    return int(value)


def trace_of(ali):
    return [tuple(int(v) for v in row) for row in np.asarray(ali.trace).tolist()]


def common_labels(o, case, c1, c2, mat, affine, go, ge):
    o.label("affine" if affine else "linear")
    if go == 0 or ge == 0:
        o.label("zero_penalty")
    if affine and abs(go) < abs(ge):
        o.label("|open|<|ext|")
    if case["size1"] > 256 or case["size2"] > 256:
        o.label("uint16")
        if (case["size1"] > 256) != (case["size2"] > 256):
            o.label("mixed_width")
    flat = [v for row in mat for v in row]
    if all(v < 0 for v in flat):
        o.label("all_negative_matrix")
    if len(c1) == 0 or len(c2) == 0:
        o.label("empty_seq")
    for fid in case.get("narrowed", []):
        o.exclude(fid)


# --------------------------------------------------------------------------
# strategies
# --------------------------------------------------------------------------
def apply_edits(s1, edits, size):
    """s2 = s1 after a few substitutions / insertions / deletions."""
    s2 = list(s1)
    for pos, op, code in edits:
        code = code % size
        if op == "i":
            s2.insert(pos % (len(s2) + 1), code)
        elif not s2:
            continue
        elif op == "d":
            del s2[pos % len(s2)]
        else:
            s2[pos % len(s2)] = code
    return s2


def base_case(draw, maxlen, min_len=0, strict_gap=False, flavours=("free", "related")):
    """flavour 'free': everything independent (as in C08); 'related': the
    second sequence is an edited copy of the first, match/mismatch matrix and
    cheap gaps (alignments with gaps become optimal); 'xdrop': long related
    sequences over 2-3 symbols with small scores (running scores drop and
    recover)."""
    flavour = draw(st.sampled_from(list(flavours)))
    big1 = draw(st.integers(0, 7)) == 7
    big2 = draw(st.integers(0, 7)) == 7
    if flavour == "free":
        k1 = draw(st.integers(1, 5))
        k2 = draw(st.integers(1, 5))
        size1 = draw(st.integers(257, 400)) if big1 else k1
        size2 = draw(st.integers(257, 400)) if big2 else k2
        s1 = draw(st_codes(size1, k1, draw(st_length(maxlen, min_len))))
        s2 = draw(st_codes(size2, k2, draw(st_length(maxlen, min_len))))
        mat = draw(st_matrix(k1, k2))
        gap = draw(st_gap(strict=strict_gap))
    else:
        k1 = k2 = draw(st.integers(2, 3 if flavour == "xdrop" else 4))
        size1 = size2 = draw(st.integers(257, 400)) if big1 else k1
        lo = min(maxlen, 6) if flavour == "xdrop" else max(min_len, min(2, maxlen))
        s1 = draw(st_codes(size1, k1, draw(st.integers(lo, maxlen))))
        edits = draw(
            st.lists(
                st.tuples(st.integers(0, 40), st.sampled_from("iidds"), st.integers(0, 399)),
                max_size=5 if flavour == "xdrop" else 3,
            )
        )
        s2 = apply_edits(s1, edits, size2)[:maxlen]
        if len(s2) < min_len:
            s2 = [0] * min_len
        if flavour == "xdrop":
            hit, miss = draw(st.integers(1, 4)), draw(st.integers(-4, -1))
            pen = st.sampled_from([-1, -2, -3, -5])
        else:
            hit, miss = draw(st.integers(1, 10)), draw(st.integers(-10, 0))
            pen = st.sampled_from([-1, -2, -3, -5] if strict_gap else [0, -1, -2, -3, -5])
        mat = [[hit if r == c else miss for c in range(k2)] for r in range(k1)]
        gap = [draw(pen), draw(pen)] if draw(st.sampled_from(["affine", "linear"])) == "affine" else draw(pen)
    return {
        "flavour": flavour,
        "size1": size1,
        "size2": size2,
        "extra1": draw(st.sampled_from([0, 0, 0, 2])),
        "extra2": draw(st.sampled_from([0, 0, 0, 2])),
        "s1": s1,
        "s2": s2,
        "mat": mat,
        "gap": gap,
        "max_number": draw(st.one_of(st.just(1), st.integers(1, 5), st.integers(1, 50))),
    }


def banded_classes(case):
    """(in F1 class, in F2 class) according to the reference model."""
    gap, go, ge, affine = gap_of(case)
    c1, c2, mat = model_inputs(case)
    if case["local"] or not c1 or not c2:
        return False, False
    lo, hi = min(case["band"]), max(case["band"])
    if not R.band_has_cell(len(c1), len(c2), lo, hi):
        return False, False
    ref = R.banded_ref(c1, c2, mat, go, ge, affine, lo, hi, False)
    if ref["opt"] is None:
        return False, False
    return ref["gapstart"] == ref["opt"], affine and ref["gapend"] == ref["opt"]


def overflow_class(case):
    """C09-F3: semi-global banded alignment with an affine penalty whose
    'minus infinity' sentinel (int32 min - min(open, ext) - min(0, lowest score))
    wraps around: the sentinel column receives max(open, ext) in the first
    band column and ext again in the second one."""
    gap, go, ge, affine = gap_of(case)
    if not affine or case["local"]:
        return False
    n, m = len(case["s1"]), len(case["s2"])
    lower, upper = min(case["band"]), max(case["band"])
    if not R.band_has_cell(n, m, lower, upper):
        return False
    lowest = min(v for row in case["mat"] for v in row)
    slack = -min(go, ge) + max(0, -lowest)
    if slack + max(go, ge) + ge >= 0:
        return False
    # orientation used by the implementation: the shorter sequence indexes the rows
    if m < n:
        n, m, lower, upper = m, n, -upper, -lower
    lo, hi = R.crop_band(n, m, lower, upper)
    if hi - lo + 1 < 2:
        return False
    for i in range(n):
        # the two leftmost band cells of row i are both inside the table
        if i + lo >= 0 and i + lo + 1 <= min(m - 1, i + hi):
            return True
        # the rightmost band cell of row i - 1 and the cell left of the rightmost of row i
        if i >= 1 and 0 <= i - 1 + hi <= m - 1 and max(0, i + lo) <= i + hi - 1 <= m - 1:
            return True
    return False


def narrow_banded(case):
    """Open findings are narrowed out by construction.

    C09-F1 / C09-F2 (the reference model says that an optimal band-restricted
    alignment starts with a gap column, or - affine - ends with a charged gap
    that abuts the free terminal gap of the other sequence): every substitution
    score is raised above the cheapest gap penalty, which makes pairing strictly
    better than such a gap.
    C09-F3 (sentinel overflow): the penalties are changed to (min, ext') with
    ext' just small enough for the sentinel to stay in range; if the case is in
    F1/F2 as well the penalty becomes linear."""
    case["narrowed"] = []
    hit = []
    in1, in2 = banded_classes(case)
    in3 = overflow_class(case)
    if in1 and findings.is_open(F1):
        hit.append(F1)
    if in2 and findings.is_open(F2):
        hit.append(F2)
    if in3 and findings.is_open(F3):
        hit.append(F3)
    if not hit:
        return case
    gap, go, ge, affine = gap_of(case)
    if F3 in hit and len(hit) == 1:
        lowest = min(v for row in case["mat"] for v in row)
        lo, hi = min(go, ge), max(go, ge)
        case["gap"] = [lo, max(hi, -((-lo + max(0, -lowest)) // 2))]
    else:
        if F3 in hit:
            case["gap"] = go
            ge = go
        floor = max(go, ge) + 1
        case["mat"] = [[max(v, floor) for v in row] for row in case["mat"]]
    case["narrowed"] = hit
    # whatever was changed, the case must now be outside every open class (otherwise: linear + raised scores)
    in1, in2 = banded_classes(case)
    in3 = overflow_class(case)
    if (in1 and findings.is_open(F1)) or (in2 and findings.is_open(F2)) or (in3 and findings.is_open(F3)):
        gap, go, ge, affine = gap_of(case)
        case["gap"] = go
        case["mat"] = [[max(v, go + 1) for v in row] for row in case["mat"]]
        case["narrowed"] = sorted(set(hit) | {f for f, c in ((F1, in1), (F2, in2), (F3, in3)) if c and findings.is_open(f)})
        in1, in2 = banded_classes(case)
        assert not in1 and not overflow_class(case), f"narrowing failed for {case}"
    return case


def f4_class(case):
    """C09-F4: align_local_gapped accepts the threshold T (T + 1 fits into int32) although
    'T + 1 + score' does not fit for a score the extension can reach.  Decided from the case alone:
    T + 1 + min(len1, len2) * max(0, highest matrix entry) > 2^31 - 1."""
    T = case["threshold"]
    if T >= INT32_MAX:
        return False  # T + 1 itself does not fit: refused with OverflowError (accepted outcome)
    c1, c2, mat = model_inputs(case)
    return T > H.largest_threshold_with_room(c1, c2, mat)


def narrow_seeded(case):
    """C09-F4 is narrowed out by construction: the threshold becomes the largest one with room
    for every reachable score (still a 'never stop' threshold)."""
    case["narrowed"] = []
    if f4_class(case) and f4_excluded():
        c1, c2, mat = model_inputs(case)
        case["threshold"] = H.largest_threshold_with_room(c1, c2, mat)
        case["narrowed"] = [f4_tag()]
    return case


def st_banded(tier):
    maxlen = 12 if tier == "quick" else 25

    @st.composite
    def gen(draw):
        small = draw(st.integers(0, 2)) == 2
        # 1 in 12: every pair costs (all-negative matrix, but cheaper than any gap), full band, semi-global:
        # the optimum pairs nothing - the premise "some optimal alignment pairs at least one position" fails
        nopair = draw(st.integers(0, 11)) == 0
        case = base_case(draw, 5 if small else maxlen, min_len=1 if nopair else 0, flavours=("free",) if nopair else ("free", "related"))
        n, m = len(case["s1"]), len(case["s2"])
        kind = draw(st.sampled_from(["any", "inside", "full", "single", "narrow", "inside"]))
        if nopair:
            kind = "full"
            case["mat"] = [[draw(st.integers(-3, -1)) for _ in row] for row in case["mat"]]
            pen = st.integers(-10, -4)
            case["gap"] = [draw(pen), draw(pen)] if draw(st.booleans()) else draw(pen)
        lo_all, hi_all = -(n + 3), m + 3
        if kind == "inside" and n and m:
            lo_all, hi_all = -(n - 1), m - 1
        if kind == "full":
            d1 = draw(st.integers(lo_all, -(n - 1) if n else 0))
            d2 = draw(st.integers(m - 1 if m else 0, hi_all))
        elif kind == "single":
            d1 = d2 = draw(st.integers(lo_all, hi_all))
        elif kind == "narrow":
            d1 = draw(st.integers(lo_all, hi_all))
            d2 = d1 + draw(st.integers(-3, 3))
        else:
            d1 = draw(st.integers(lo_all, hi_all))
            d2 = draw(st.integers(lo_all, hi_all))
        if draw(st.booleans()):
            d1, d2 = d2, d1
        case["band"] = [d1, d2]
        case["local"] = False if nopair else draw(st.sampled_from([False, False, True]))
        return case

    return gen().map(narrow_banded)


def st_seeded(tier, for_ungapped=False):
    maxlen = 20 if tier == "quick" else 30

    @st.composite
    def gen(draw):
        small = draw(st.integers(0, 2)) == 2
        case = base_case(
            draw, 5 if small else maxlen, min_len=1, strict_gap=True,
            flavours=("free", "related") if small else ("free", "related", "xdrop", "xdrop") + (("xdrop", "xdrop") if for_ungapped else ()),
        )
        n, m = len(case["s1"]), len(case["s2"])
        if case["flavour"] != "free" and draw(st.booleans()):
            # a seed on the main diagonal of related sequences
            k = draw(st.integers(0, min(n, m) - 1))
            case["seed"] = [k, k]
        else:
            case["seed"] = [draw(st.integers(0, n - 1)), draw(st.integers(0, m - 1))]
        never = st.sampled_from(NEVER_STOP if for_ungapped else NEVER_STOP_GAPPED + NEAR_INT32_MAX)
        if case["flavour"] == "xdrop":
            case["threshold"] = draw(
                st.one_of(st.integers(0, 3 if for_ungapped else 6), st.integers(0, 6), st.sampled_from([10**4, 10**6]), never)
            )
        else:
            case["threshold"] = draw(
                st.one_of(st.integers(0, 10), st.integers(0, 60), st.sampled_from([10**4, 10**6]), st.integers(0, 10**6), never)
            )
        case["direction"] = draw(st.sampled_from(["both", "both", "upstream", "downstream"]))
        return case

    return gen() if for_ungapped else gen().map(narrow_seeded)


def st_ungapped(tier):
    return st_seeded(tier, True)


def st_table_limit(tier):
    @st.composite
    def gen(draw):
        L1 = draw(st.integers(600, 1200))
        L2 = draw(st.integers(600, 1200))
        pattern = draw(st.lists(st.integers(0, 3), min_size=1, max_size=6))
        # seed on the main diagonal: near the start (long downstream region), near the end (long upstream
        # region) or anywhere
        k = draw(st.one_of(st.integers(0, 20), st.integers(0, 10**6), st.integers(-21, -1)))
        return {
            "L1": L1,
            "L2": L2,
            "pattern": pattern,
            "k": k,
            "direction": draw(st.sampled_from(["both", "downstream", "upstream"])),
            "gap": draw(st.sampled_from([-5, -8, [-6, -2]])),
            "threshold": draw(st.sampled_from([20, 100, 1000, 10**5])),
            "limit": draw(
                st.one_of(
                    st.integers(1, 100), st.integers(100, 12000), st.integers(12000, 300000),
                    st.integers(300000, 10**7), st.sampled_from([10**8, 10**9, 10**12]), st.sampled_from([10**9, 10**12]),
                )
            ),
            "score_only": draw(st.booleans()),
        }

    return gen()


# --------------------------------------------------------------------------
# banded
# --------------------------------------------------------------------------

def used_matrix(case, s1, s2):
    """A second, equal SubstitutionMatrix object that has already served other calls
    (score_matrix(), transpose(), an unrelated alignment): the result of an alignment must not
    depend on what the matrix object was used for before."""
    import biotite.sequence.align as align

    used = build(case)[2]
    used.score_matrix()
    used.transpose()
    if len(s1) > 0 and len(s2) > 0:
        align.align_optimal(s1, s2, used, gap_penalty=-1, max_number=1)
    return used


def same_result(res_a, res_b):
    key = lambda res: [(ali.score, trace_of(ali)) for ali in res]
    return key(res_a) == key(res_b)


def between(o, score, low, high, clause, what):
    """'The heuristic reaches the optimum': with a linear penalty low == high; with an affine one ``low`` is the
    optimum of the search space in which a gap may not abut a gap of the other sequence (C08) and ``high`` the
    one without that restriction.  The caller has already established that ``score`` is the recomputed score of
    every returned trace, so a value in between is an existing alignment of the larger space."""
    assert low <= high, f"restricted optimum {low} > unrestricted optimum {high}"
    if low == high:
        o.check_eq(score, low, clause, what)
        return
    o.label("adjacency_matters")
    o.check(low <= score <= high, clause, lambda: f"{what}: {score} outside [{low}, {high}] (optimum with / without the adjacency restriction)")
    if score == low:
        o.label("reached_restricted")
    elif score == high:
        o.label("reached_unrestricted")
    elif low < score < high:
        o.label("reached_between")


def run_banded(case):
    import biotite.sequence.align as align

    o = Outcome()
    gap, go, ge, affine = gap_of(case)
    c1, c2, mat = model_inputs(case)
    n, m = len(c1), len(c2)
    local = case["local"]
    lower, upper = min(case["band"]), max(case["band"])
    common_labels(o, case, c1, c2, mat, affine, go, ge)
    o.label("local" if local else "semiglobal")
    has_cell = R.band_has_cell(n, m, lower, upper)
    s1, s2, matrix = build(case)
    if BUILD_STATE["reused"]:
        o.label("matrix_address_reused")

    try:
        res = align.align_banded(
            s1, s2, matrix, tuple(case["band"]), gap_penalty=gap, local=local, max_number=case["max_number"]
        )
        res_used = align.align_banded(
            s1, s2, used_matrix(case, s1, s2), tuple(case["band"]), gap_penalty=gap, local=local,
            max_number=case["max_number"],
        )
        o.check(
            same_result(res, res_used),
            "result_independent_of_matrix_history",
            lambda: f"fresh matrix: {[(a.score, trace_of(a)) for a in res]}, used matrix: {[(a.score, trace_of(a)) for a in res_used]}",
        )
    except ValueError as e:
        # a band without any cell (i, j) cannot hold an alignment
        o.label("band_rejected")
        if has_cell and (go == 0 or ge == 0):
            # the quantifier of the property includes penalty 0 (the docstring says "negative"): a refusal of 0
            # is reported, but under its own clause
            o.label("zero_penalty_refused")
            o.fail("zero_penalty_accepted", f"ValueError({e}) for gap_penalty={gap} (band {case['band']} holds pairs)")
            return o
        o.check(not has_cell, "band_with_cells_accepted", lambda: f"ValueError({e}) although the band {case['band']} holds pairs")
        return o
    if not has_cell:
        o.label("band_without_cell_accepted")

    full = lower <= -(n - 1) and upper >= m - 1 and n > 0 and m > 0
    mode = "local" if local else "semiglobal"
    # the "true optimum of the unrestricted problem": with an affine penalty the docstring of align_banded
    # does not say whether a gap may abut a gap of the other sequence -> upper bound = the larger optimum
    # (no adjacency restriction), lower bound of the "reaches" clauses = the smaller one (C08 model)
    optimum, _ = R.dp3(c1, c2, mat, go, ge, mode, False)
    optimum_r = optimum
    if affine and full:
        optimum_r, _ = R.dp3(c1, c2, mat, go, ge, mode, True)
    ref = ref_u = None
    if n > 0 and m > 0 and has_cell:
        ref = ref_u = R.banded_ref(c1, c2, mat, go, ge, affine, lower, upper, local)
        if affine:
            ref_u = R.banded_ref(c1, c2, mat, go, ge, False, lower, upper, local)
        if n <= 5 and m <= 5:
            bb = R.banded_brute(c1, c2, mat, go, ge, affine, lower, upper, local)
            assert bb == ref["opt"], f"band reference DP {ref['opt']} != brute force {bb}"
            if affine and n <= 4 and m <= 4:
                bb = R.banded_brute(c1, c2, mat, go, ge, False, lower, upper, local)
                assert bb == ref_u["opt"], f"band reference DP (no adjacency restriction) {ref_u['opt']} != brute force {bb}"
            o.label("band_ref_checked_against_bruteforce")
            if n <= 4 and m <= 4:
                bf = R.brute_force(c1, c2, mat, go, ge, mode, False)
                assert bf["opt"] == optimum, f"dp3 {optimum} != brute force {bf['opt']}"

    if has_cell:
        o.check(len(res) >= 1, "reports_a_score", "empty result list")
    elif len(res) == 0:
        # no pair can be formed: "no alignment" is as good an answer as an alignment without a pair
        o.label("band_without_cell_empty_result")
        return o
    o.check(len(res) <= case["max_number"], "at_most_max_number", lambda: f"{len(res)} > {case['max_number']}")
    seen = set()
    scores = set()
    honest = True
    for k, ali in enumerate(res):
        trace = trace_of(ali)
        score = iscore(o, ali.score, f"alignment {k}")
        if score is None:
            return o
        scores.add(score)
        problems = R.validate_trace(trace, n, m, True)
        if problems:
            o.fail("trace_valid", f"alignment {k}: {problems[:3]} trace={trace}")
            honest = False
            continue
        outside = [(i, j) for i, j in trace if i != -1 and j != -1 and not (lower <= j - i <= upper)]
        o.check(not outside, "pairs_inside_band", lambda: f"alignment {k}: pairs {outside} outside band {lower}..{upper}")
        if local:
            mine = R.score_trace(trace, c1, c2, mat, go, ge, True)
        else:
            mine = R.score_trace(R.complete_trace(trace, n, m), c1, c2, mat, go, ge, False)
        o.check_eq(mine, score, "recomputed_score_equals_reported", f"alignment {k} trace={trace} band={case['band']}")
        honest = honest and mine == score
        if trace:
            key = tuple(trace)
            o.check(key not in seen, "non_empty_results_distinct", lambda: f"alignment {k} repeated: {trace}")
            seen.add(key)
        else:
            o.label("empty_result_trace")
    o.check(len(scores) <= 1, "one_score", lambda: f"different scores in one result: {sorted(scores)}")
    if not scores:
        return o
    score = max(scores)
    o.check(score <= optimum, "not_above_unrestricted_optimum", lambda: f"banded {score} > optimum {optimum} ({mode}, gap={gap})")
    if full:
        o.label("band_covers_all_diagonals")
        if local:
            reaches = True
        else:
            # premise "some optimal alignment pairs at least one position", under the restricted reading:
            # an aligner that pairs >= 1 position then returns >= optimum_r under either reading
            pair_opt = R.semiglobal_pair_opt(c1, c2, mat, go, ge, affine)
            reaches = pair_opt == optimum_r
            if not reaches:
                o.label("optimum_without_pair")
        if reaches and honest:
            between(o, score, optimum_r, optimum, "reaches_optimum_when_band_covers_table", f"{mode} gap={gap} band={case['band']}")
    if ref is not None and ref["opt"] is not None:
        if honest:
            between(o, score, ref["opt"], ref_u["opt"], "equals_band_restricted_optimum", f"{mode} gap={gap} band={case['band']}")
        binds = ref_u["opt"] < optimum
        if binds:
            o.label("band_cuts_optimal_path")
        o.mark_nontrivial(binds and n >= 2 and m >= 2)
        if not local:
            if ref["gapstart"] == ref["opt"]:
                o.label("class_F1_core_starts_with_gap")
            if affine and ref["gapend"] == ref["opt"]:
                o.label("class_F2_charged_gap_abuts_terminal_gap")
    if overflow_class(case):
        o.label("class_F3_sentinel_overflow")
    if any(-1 in col for tr in seen for col in tr):
        o.label("result_with_gap")
    if len(seen) > 1:
        o.label("several_alignments")
    if len(s2) < len(s1):
        o.label("swapped(len2<len1)")
    return o


# --------------------------------------------------------------------------
# seeded gapped
# --------------------------------------------------------------------------
def cannot_bind(case, c1, c2, mat, go, ge):
    maxabs = max([abs(v) for row in mat for v in row] + [abs(go), abs(ge), 1])
    return case["threshold"] >= 2 * (len(c1) + len(c2) + 2) * maxabs + 1


def check_seed_trace(o, trace, seed, direction, n, m, k):
    problems = R.validate_trace(trace, n, m, True)
    if problems:
        o.fail("trace_valid", f"alignment {k}: {problems[:3]} trace={trace}")
        return False
    o.check(seed in trace, "contains_seed", lambda: f"alignment {k}: seed {seed} not a column of {trace}")
    idx1 = [a for a, _ in trace if a != -1]
    idx2 = [b for _, b in trace if b != -1]
    if direction == "upstream":
        ok = trace and trace[-1] == seed and all(a <= seed[0] for a in idx1) and all(b <= seed[1] for b in idx2)
        o.check(ok, "direction_respected", lambda: f"alignment {k}: upstream from {seed} gave {trace}")
    elif direction == "downstream":
        ok = trace and trace[0] == seed and all(a >= seed[0] for a in idx1) and all(b >= seed[1] for b in idx2)
        o.check(ok, "direction_respected", lambda: f"alignment {k}: downstream from {seed} gave {trace}")
    return True


def run_seeded(case):
    import biotite.sequence.align as align

    o = Outcome()
    gap, go, ge, affine = gap_of(case)
    c1, c2, mat = model_inputs(case)
    n, m = len(c1), len(c2)
    seed = tuple(case["seed"])
    direction = case["direction"]
    common_labels(o, case, c1, c2, mat, affine, go, ge)
    o.label(direction)
    s1, s2, matrix = build(case)
    T = case["threshold"]
    if T > 10**6:
        o.label("never_stop_threshold")
    if f4_class(case):
        o.label("class_F4_threshold_leaves_no_room_in_int32")

    try:
        res = align.align_local_gapped(
            s1, s2, matrix, seed, T, gap_penalty=gap, max_number=case["max_number"], direction=direction
        )
    except (OverflowError, ValueError) as e:
        if T <= 10**6:
            raise
        # a threshold beyond anything a score can drop by may be refused (the tables hold threshold + score
        # in int32): loud, not a wrong result.  Nothing else may be refused here: seed, penalties, direction
        # and max_number are valid.
        o.label(f"large_threshold_refused:{type(e).__name__}")
        return o
    res_used = align.align_local_gapped(
        s1, s2, used_matrix(case, s1, s2), seed, case["threshold"], gap_penalty=gap, max_number=case["max_number"],
        direction=direction,
    )
    o.check(same_result(res, res_used), "result_independent_of_matrix_history", "fresh vs. already used matrix object")
    only = align.align_local_gapped(
        s1, s2, matrix, seed, case["threshold"], gap_penalty=gap, max_number=case["max_number"], direction=direction,
        score_only=True,
    )
    # best alignment through the seed with (C08 model) and without the restriction that a gap may not abut a
    # gap of the other sequence; the docstring of align_local_gapped is silent about it (see ``between``)
    through = through_u = R.seed_ref(c1, c2, mat, go, ge, affine, seed, direction)
    if affine:
        through_u = R.seed_ref(c1, c2, mat, go, ge, False, seed, direction)
    if n <= 5 and m <= 5:
        sb = R.seed_brute(c1, c2, mat, go, ge, affine, seed, direction)
        assert sb == through, f"seed reference {through} != brute force {sb}"
        if affine and n <= 4 and m <= 4:
            sb = R.seed_brute(c1, c2, mat, go, ge, False, seed, direction)
            assert sb == through_u, f"seed reference (no adjacency restriction) {through_u} != brute force {sb}"
        o.label("seed_ref_checked_against_bruteforce")
    optimum, _ = R.dp3(c1, c2, mat, go, ge, "local", False)
    assert through <= through_u <= optimum

    o.check(len(res) >= 1, "reports_a_score", "no alignment returned")
    o.check(len(res) <= case["max_number"], "at_most_max_number", lambda: f"{len(res)} > {case['max_number']}")
    seen = set()
    scores = set()
    honest = True
    for k, ali in enumerate(res):
        trace = trace_of(ali)
        rep = iscore(o, ali.score, f"alignment {k}")
        if rep is None:
            return o
        scores.add(rep)
        if not check_seed_trace(o, trace, seed, direction, n, m, k):
            honest = False
            continue
        mine = R.score_trace(trace, c1, c2, mat, go, ge, True)
        o.check_eq(mine, rep, "recomputed_score_equals_reported", f"alignment {k} trace={trace}")
        honest = honest and mine == rep
        key = tuple(trace)
        o.check(key not in seen, "non_empty_results_distinct", lambda: f"alignment {k} repeated: {trace}")
        seen.add(key)
    o.check(len(scores) <= 1, "one_score", lambda: f"different scores in one result: {sorted(scores)}")
    if not scores:
        return o
    score = max(scores)
    o.check_eq(int(only), score, "score_only_equals_full_call", f"seed={seed} threshold={case['threshold']} {direction}")
    o.check(score <= through_u, "not_above_best_through_seed", lambda: f"{score} > best alignment through the seed {through_u}")
    o.check(score <= optimum, "not_above_unrestricted_optimum", lambda: f"{score} > local optimum {optimum}")
    free = cannot_bind(case, c1, c2, mat, go, ge)
    if free:
        o.label("threshold_cannot_bind")
        if honest:
            between(o, score, through, through_u, "reaches_best_through_seed_when_threshold_cannot_bind", f"seed={seed} {direction} gap={gap} threshold={T}")
    if score < through:
        o.label("threshold_binds")
    if through_u < optimum:
        o.label("seed_off_optimal_alignment")
    if any(-1 in col for tr in seen for col in tr):
        o.label("result_with_gap")
    if len(seen) > 1:
        o.label("several_alignments")
    o.mark_nontrivial(n >= 2 and m >= 2 and (score < through or through_u < optimum))
    return o


# --------------------------------------------------------------------------
# ungapped
# --------------------------------------------------------------------------
def run_ungapped(case):
    import biotite.sequence.align as align

    o = Outcome()
    gap, go, ge, affine = gap_of(case)
    c1, c2, mat = model_inputs(case)
    n, m = len(c1), len(c2)
    seed = tuple(case["seed"])
    direction = case["direction"]
    T = case["threshold"]
    common_labels(o, case, c1, c2, mat, affine, go, ge)
    o.label(direction)
    s1, s2, matrix = build(case)
    ali = align.align_local_ungapped(s1, s2, matrix, seed, T, direction=direction)
    only = align.align_local_ungapped(s1, s2, matrix, seed, T, direction=direction, score_only=True)
    # the matrix fits the sequences: switching the compatibility check off may not change anything
    unchecked = align.align_local_ungapped(s1, s2, matrix, seed, T, direction=direction, check_matrix=False)

    # exact X-drop value under the two readings of the docstring ("more than threshold below" in the summary,
    # "this value below" in the parameter text); they differ only if a drop hits the threshold exactly
    want = want_ge = mat[c1[seed[0]]][c2[seed[1]]]
    boundary = False
    if direction in ("both", "upstream"):
        gt, ge_, b = H.xdrop_ungapped_variants(c1[: seed[0]][::-1], c2[: seed[1]][::-1], mat, T)
        assert gt == R.xdrop_ungapped(c1[: seed[0]][::-1], c2[: seed[1]][::-1], mat, T)[0]
        want, want_ge, boundary = want + gt, want_ge + ge_, boundary or b
    if direction in ("both", "downstream"):
        gt, ge_, b = H.xdrop_ungapped_variants(c1[seed[0] + 1 :], c2[seed[1] + 1 :], mat, T)
        assert gt == R.xdrop_ungapped(c1[seed[0] + 1 :], c2[seed[1] + 1 :], mat, T)[0]
        want, want_ge, boundary = want + gt, want_ge + ge_, boundary or b
    if boundary:
        o.label("drop_exactly_at_threshold")

    trace = trace_of(ali)
    score = iscore(o, ali.score, "ungapped result")
    if score is None:
        return o
    if check_seed_trace(o, trace, seed, direction, n, m, 0):
        o.check(all(-1 not in col for col in trace), "no_gaps", lambda: f"gap in ungapped result {trace}")
        o.check(
            all(j - i == seed[1] - seed[0] for i, j in trace), "single_diagonal", lambda: f"not on the seed diagonal: {trace}"
        )
        mine = R.score_trace(trace, c1, c2, mat, 0, 0, True)
        o.check_eq(mine, score, "recomputed_score_equals_reported", f"trace={trace}")
    o.check_eq(int(only), score, "score_only_equals_full_call", f"seed={seed} T={T} {direction}")
    o.check_eq(
        (iscore(o, unchecked.score, "check_matrix=False"), trace_of(unchecked)), (score, trace),
        "check_matrix_false_same_result", f"seed={seed} T={T} {direction}",
    )
    if want_ge == want:
        o.check_eq(score, want, "equals_xdrop_reference", f"seed={seed} T={T} {direction}")
    else:
        o.label("stop_rules_differ")
        o.check(
            score in (want, want_ge), "equals_xdrop_reference",
            lambda: f"seed={seed} T={T} {direction}: {score}, X-drop value is {want} (stop if drop > T) or {want_ge} (stop if drop >= T)",
        )
        if score == want:
            o.label("stop_rule_more_than")
        elif score == want_ge:
            o.label("stop_rule_at_least")
    # upper bounds: unrestricted local optimum (any strictly negative penalty: an ungapped
    # alignment is a local alignment), and the best ungapped alignment through the seed
    optimum, _ = R.dp3(c1, c2, mat, go, ge, "local", affine)
    o.check(score <= optimum, "not_above_unrestricted_optimum", lambda: f"{score} > local optimum {optimum}")
    best = mat[c1[seed[0]]][c2[seed[1]]]
    if direction in ("both", "upstream"):
        best += R.xdrop_ungapped(c1[: seed[0]][::-1], c2[: seed[1]][::-1], mat, 10**9)[0]
    if direction in ("both", "downstream"):
        best += R.xdrop_ungapped(c1[seed[0] + 1 :], c2[seed[1] + 1 :], mat, 10**9)[0]
    o.check(score <= best, "not_above_best_through_seed", lambda: f"{score} > {best}")
    if cannot_bind(case, c1, c2, mat, go, ge):
        o.label("threshold_cannot_bind")
        o.check_eq(score, best, "reaches_best_through_seed_when_threshold_cannot_bind", f"seed={seed} {direction}")
    if score < best:
        o.label("threshold_binds")
    if best < optimum:
        o.label("seed_off_optimal_alignment")
    if len(trace) > 1:
        o.label("extended")
    o.mark_nontrivial(n >= 2 and m >= 2 and (score < best or best < optimum))
    return o


# --------------------------------------------------------------------------
# table limit
# --------------------------------------------------------------------------
GROWN = 512  # a region this long has outgrown any plausible initial table (today: 100 x 100)


def run_table_limit(case):
    """Both sequences are prefixes of one periodic string and the seed lies on the main diagonal: every pair
    on that diagonal scores +5 (the highest matrix entry), so the running score never drops along it - no
    X-drop threshold >= 0 can stop the extension - and the all-match diagonal is the best alignment through
    the seed (5 x number of pairs; every other alignment has fewer pairs or pays for gaps)."""
    import biotite.sequence as seq
    import biotite.sequence.align as align

    o = Outcome()
    alph = seq.Alphabet([0, 1, 2, 3])
    pat = case["pattern"]

    def mk(length):
        s = seq.GeneralSequence(alph)
        s.code = np.array((pat * (length // len(pat) + 1))[:length], dtype=np.int64)
        return s

    L1, L2 = case["L1"], case["L2"]
    s1, s2 = mk(L1), mk(L2)
    c1, c2 = [int(v) for v in s1.code], [int(v) for v in s2.code]
    mat = [[5 if r == c else -4 for c in range(4)] for r in range(4)]
    matrix = align.SubstitutionMatrix(alph, alph, np.array(mat, dtype=np.int32))
    gap = tuple(case["gap"]) if isinstance(case["gap"], list) else case["gap"]
    go, ge = (gap if isinstance(gap, tuple) else (gap, gap))
    k = case["k"] % min(L1, L2)
    seed = (k, k)
    direction = case["direction"]
    o.label(direction, "affine" if isinstance(gap, tuple) else "linear", f"threshold={case['threshold']}")
    kw = dict(gap_penalty=gap, direction=direction, max_number=1)
    free = align.align_local_gapped(s1, s2, matrix, seed, case["threshold"], **kw)[0]
    tr = trace_of(free)
    free_score = iscore(o, free.score, "unlimited call")
    if free_score is None:
        return o

    # ---- the unlimited result itself (table growth included) against the model
    n_up = k if direction in ("both", "upstream") else 0
    n_down = min(L1, L2) - k - 1 if direction in ("both", "downstream") else 0
    want = 5 * (n_up + 1 + n_down)
    if check_seed_trace(o, tr, seed, direction, L1, L2, 0):
        mine = R.score_trace(tr, c1, c2, mat, go, ge, True)
        o.check_eq(mine, free_score, "recomputed_score_equals_reported", f"seed={seed} {direction} trace of {len(tr)} columns")
    o.check(free_score <= want, "not_above_best_through_seed", lambda: f"{free_score} > {want} = 5 x pairs of the diagonal through {seed}")
    o.check_eq(free_score, want, "reaches_best_through_seed_when_threshold_cannot_bind", f"seed={seed} {direction} gap={gap} threshold={case['threshold']} lengths={L1},{L2}")

    # ---- the limit.  Documented: MemoryError "if the number of cells in the internal dynamic programming
    # table, i.e. approximately the product of the lengths of the aligned regions, would exceed the given
    # value".  Demanded only with a wide margin in both directions; in between both outcomes are accepted.
    regions = []
    for side, keep in (("upstream", lambda v: v < k), ("downstream", lambda v: v > k)):
        r1 = sum(1 for a, _ in tr if a != -1 and keep(a))
        r2 = sum(1 for _, b in tr if b != -1 and keep(b))
        regions.append((side, r1, r2))
    grown = [(side, r1, r2) for side, r1, r2 in regions if max(r1, r2) >= GROWN]
    if max(n_up, n_down) >= GROWN:
        o.label("region>=512")
    limit = case["limit"]
    must_raise = any(limit < ((r1 + 1) * (r2 + 1)) // 4 for _, r1, r2 in grown)
    must_fit = limit >= 64 * (L1 + 2) * (L2 + 2)

    def limited():
        r = align.align_local_gapped(
            s1, s2, matrix, seed, case["threshold"], max_table_size=limit, score_only=case["score_only"], **kw
        )
        return int(r) if case["score_only"] else (r[0].score, trace_of(r[0]))

    expect = free_score if case["score_only"] else (free_score, tr)
    o.label("score_only" if case["score_only"] else "full_call")
    if must_raise:
        o.label("must_raise")
        o.expect_raises(MemoryError, limited, "memory_error_when_table_exceeds_limit", f"limit={limit} regions={regions}")
        o.mark_nontrivial()
    else:
        o.label("must_fit" if must_fit else "either")
        try:
            got = limited()
        except MemoryError as e:
            if must_fit:
                o.fail("same_result_when_table_fits", f"MemoryError({e}) with limit={limit} for sequences of {L1} and {L2} symbols")
            else:
                o.label("either:raised")
        else:
            if not must_fit:
                o.label("either:returned")
            o.check_eq(got, expect, "same_result_when_table_fits", f"limit={limit}")
    # the failed call must leave the function usable
    again = align.align_local_gapped(s1, s2, matrix, seed, case["threshold"], **kw)[0]
    o.check_eq((again.score, trace_of(again)), (free_score, tr), "usable_after_memory_error", "second unlimited call")
    return o


SUBS = [
    Sub(
        "banded",
        st_banded,
        run_banded,
        quick=4000,
        thorough=150000,
        rule="band excludes every optimal alignment of the unrestricted problem (band-restricted optimum < optimum), both sequences >= 2",
        clauses="valid traces; pairs inside band; recomputed (completed) score == reported; <= optimum (affine: the one without adjacency restriction); == optimum when band covers the table and an optimal alignment pairs a position; == band-restricted optimum (affine: anywhere between the optima with / without adjacency restriction); <= max_number; stronger than the statement: non-empty results distinct, result independent of the history of the matrix object; ValueError only for bands without a pair (a refusal of penalty 0 has its own clause zero_penalty_accepted)",
    ),
    Sub(
        "seeded",
        st_seeded,
        run_seeded,
        quick=3200,
        thorough=120000,
        rule="threshold binds (result < best alignment through the seed) or the seed is off every optimal local alignment, both sequences >= 2",
        clauses="contains seed; direction; recomputed == reported == score_only; <= best through seed <= local optimum; == best through seed when the threshold cannot bind (affine: between the optima with / without adjacency restriction); distinct (stronger than the statement). NOT decided: how far a BINDING gapped X-drop reaches (label threshold_binds: only bounds and honesty - the statement fixes no exact semantics, X-drop is not monotone in the threshold)",
    ),
    Sub(
        "ungapped",
        st_ungapped,
        run_ungapped,
        quick=2400,
        thorough=120000,
        rule="threshold binds or the seed diagonal segment is not the optimal local alignment, both sequences >= 2",
        clauses="diagonal range through the seed; direction; recomputed == reported == score_only == check_matrix=False == exact X-drop reference (either stop rule of the docstring where they differ); <= optimum",
    ),
    Sub(
        "table_limit",
        st_table_limit,
        run_table_limit,
        quick=320,
        thorough=6000,
        rule="an aligned region of >= 512 symbols and max_table_size below a quarter of the product of its lengths",
        clauses="result after table growth: valid, contains seed, direction, recomputed == reported == 5 x pairs of the all-match diagonal; max_table_size: MemoryError raised cleanly when far exceeded, unchanged result when it fits with a wide margin (64 x product of the sequence lengths), either in between",
    ),
]


# --------------------------------------------------------------------------
# open findings
# --------------------------------------------------------------------------
F1_CLAUSES = {
    "recomputed_score_equals_reported",
    "non_empty_results_distinct",
    "not_above_unrestricted_optimum",
    "reaches_optimum_when_band_covers_table",
}
F2_CLAUSES = {"not_above_unrestricted_optimum", "reaches_optimum_when_band_covers_table"}


def _f1(sub, case, clause, message):
    if sub != "banded" or clause not in F1_CLAUSES or not banded_classes(case)[0]:
        return False
    if clause in F2_CLAUSES:
        # the score itself is only affected with an affine penalty
        return isinstance(case["gap"], list)
    return True


def _f2(sub, case, clause, message):
    return sub == "banded" and clause in F2_CLAUSES and banded_classes(case)[1]


def _f3(sub, case, clause, message):
    # the wrapped-around values end up anywhere: every clause of the banded sub-check can fail
    return sub == "banded" and overflow_class(case)


F4_CLAUSES = {"reaches_best_through_seed_when_threshold_cannot_bind"}


def _f4(sub, case, clause, message):
    # the wrapped-around cells are pruned: the result stays valid and honest, but falls short of the best
    # alignment through the seed although the threshold cannot bind
    return sub == "seeded" and clause in F4_CLAUSES and f4_class(case)


FINDINGS = {
    "banded_core_starts_with_gap": _f1,
    "banded_affine_gap_abuts_terminal_gap": _f2,
    "banded_affine_sentinel_overflow": _f3,
    "gapped_threshold_leaves_no_room_in_int32": _f4,
}
